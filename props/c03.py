# C03 - every successful compilation yields a well-formed backend IL module.   DESIGN.md section 5 (C03).
# Translation validation: every module cproc-qbe emits with status 0 is parsed by the strict IL parser and
# checked by the extracted, proven checker QbeWf.wf_module; the interpreter Qbe.run is validated against
# gcc/clang executions of generated programs; the output-failure half is tested directly.
import os, re, sys, json, subprocess, hashlib
import vlib
from vlib import sh, txt, run_limited

sys.path.insert(0, os.path.join(vlib.VERIF, 'gen'))
import c03_progs

LEVEL = 'translation_validation'
MODULE = 'Properties_C03'
TARGETS = ['x86_64-sysv', 'aarch64', 'riscv64']
QDIR = os.path.join(vlib.VERIF, 'ocaml', 'qbe')
CPP = ['cpp', '-U', '__GNUC__', '-U', '__GNUC_MINOR__', '-D', '__STDC_NO_ATOMICS__', '-D', '__STDC_NO_COMPLEX__',
       '-U', '__SIZEOF_INT128__', '-U', '__PIC__', '-D', '__extension__=']
SHIM = '''#include <stdio.h>
#include <string.h>
void out_l(long v) { printf("out_l %ld\\n", v); }
void out_d(double d) { unsigned long b; memcpy(&b, &d, 8); printf("out_d %016lx\\n", b); }
'''
D22_KEY = 'D22-phi-source-closed-block'
VARARG0_KEY = 'variadic-call-without-named-parameter'


def is_vararg0(il, v):
    """the only grammar error: a call to a function declared f(...) is printed as `call $f(, ...d %x)`"""
    return bool(v['parse']) and re.search(r'call [^\n]*\(, \.\.\.', il) is not None and 'type expected (at ,)' in v['parse']


# ----------------------------------------------------------------------------- toolkit build (shared)
def build_oracle(ctx):
    """ocaml/qbe/oracle = extracted model.ml + ilparse.ml + driver.ml, linked against zarith."""
    exe = os.path.join(QDIR, 'oracle')
    with vlib.Lock('ocaml-qbe'):
        srcs = [os.path.join(QDIR, f) for f in ('model.ml', 'ilparse.ml', 'driver.ml')]
        if not os.path.exists(srcs[0]):
            ctx.broken('build', 'extraction', 'no extracted model ' + srcs[0])
            return None
        if os.path.exists(exe) and all(os.path.getmtime(exe) >= os.path.getmtime(s) for s in srcs):
            return exe
        rc, out, err = sh([os.path.join(QDIR, 'build.sh')], timeout=600)
        if rc != 0 or not os.path.exists(exe):
            ctx.broken('build', 'qbe oracle', txt(out)[-2000:] + txt(err)[-3000:])
            return None
    return exe


def entry_phi_viols(il):
    """VIOL lines for phis in the first block of a function (the block control enters without evaluating phis)"""
    out = []
    for m in re.finditer(r'^(?:[^\n#]*\s)?function [^\n]*?\$([\w.]+)\([^\n]*\{\n(@[^\n]*)\n((?:[ \t][^\n]*\n)*)', il, re.M):
        for l in m.group(3).split('\n'):
            pm = re.match(r'\s*(%[\w.]+) =\w+ phi\b', l)
            if pm:
                out.append('VIOL rule=3 kind=entry-phi fn=$%s blk=%s idx=-1 aux=%s :: %s' % (m.group(1), m.group(2).strip(), pm.group(1), l.strip()))
    return out


def oracle_check(exe, files):
    """run `oracle check` on a batch; returns {file: dict(ok, parse, roundtrip, viols, data, types)}"""
    # the extracted checker recurses over instruction lists: give it the whole stack limit, not the 8 MB default
    rc, out, err = run_limited(['prlimit', '--stack=unlimited', exe, 'check'] + files, timeout=300, cap=256 << 20)
    res = {}
    cur = None
    for l in out.decode('utf-8', 'replace').split('\n'):
        if l.startswith('== '):
            cur = dict(ok=False, parse=None, roundtrip=None, viols=[], data={}, types={})
            res[l[3:]] = cur
        elif cur is None:
            continue
        elif l == 'OK':
            cur['ok'] = True
        elif l.startswith('PARSE '):
            cur['parse'] = l
        elif l.startswith('ROUNDTRIP '):
            cur['roundtrip'] = l
        elif l.startswith('VIOL '):
            cur['viols'].append(l)
        elif l.startswith('DATA '):
            p = l.split(' ')
            cur['data'][p[1]] = (int(p[2]), int(p[3]))
        elif l.startswith('TYPE '):
            p = l.split(' ')
            cur['types'][p[1]] = (int(p[2]), int(p[3]))
    for f, c in res.items():
        # rule VEntryPhi (no phi in the first block of a function) is part of wf_module; the same condition read off
        # the text must agree with it (cross-check of parser + checker): a hit the checker missed fails the module
        if c['ok'] or c['viols']:
            try:
                ev = entry_phi_viols(open(f, errors='replace').read())
            except OSError:
                ev = []
            seen = set(re.findall(r'kind=entry-phi fn=(\S+) blk=\S+ idx=-1 aux=(\S+)', '\n'.join(c['viols'])))
            miss = [l.replace('kind=entry-phi', 'kind=entry-phi-unreported') for l in ev
                    if re.search(r'fn=(\S+) blk=\S+ idx=-1 aux=(\S+)', l).groups() not in seen]
            if miss:
                c['ok'] = False
                c['viols'].extend(miss)
        if not c['ok'] and not c['parse'] and not c['viols'] and not c['roundtrip']:
            c['parse'] = 'PARSE 0: the checker died on this module (rc=%d) %s' % (rc, txt(err)[-300:])
    missing = [f for f in files if f not in res]
    if missing and len(files) > 1:
        # the batch died on one module: only that one is to blame, the others get their own run
        for f in missing:
            res.update(oracle_check(exe, [f]))
        missing = []
    for f in missing:
        res[f] = dict(ok=False, parse='PARSE 0: checker produced no verdict (rc=%d) %s' % (rc, txt(err)[-300:]), roundtrip=None, viols=[], data={}, types={})
    return res


def viol_kinds(v):
    """violation classes of a verdict: the kind, refined by opcode and result class for class violations"""
    ks = set()
    for l in v['viols']:
        k = re.search(r'kind=(\S+)', l).group(1)
        if k == 'class':
            m = re.search(r':: (?:%\S+ =(\S+) )?(\w+)', l)
            if m:
                k = 'class:%s:%s' % (m.group(2), m.group(1) or '-')
        ks.add(k)
    return sorted(ks)


FLOAT_BITWISE_KEY = 'float-operands-of-bitwise-operator'


def is_float_bitwise(v):
    # a bitwise operation of class s/d; other class violations in the same module are its consequences (the s/d result is used)
    ks = viol_kinds(v)
    return any(re.match(r'class:(and|or|xor):[sd]$', k) for k in ks) and all(k.startswith('class:') for k in ks)


def is_d22(il, v):
    """every violation is a phi naming a source block that is closed by ret/jmp/hlt and does not jump to the phi's block"""
    if not v['viols']:
        return False
    for l in v['viols']:
        m = re.match(r'VIOL rule=5 kind=phi-preds fn=\$(\S+) blk=(@\S+) idx=-1 aux=(@\S+) ', l)
        if not m:
            return False
        fn, blk, src = m.groups()
        fm = re.search(r'^function [^\n]*\$%s\(.*?^\}' % re.escape(fn), il, re.M | re.S)
        if not fm:
            return False
        bm = re.search(r'^%s\n(.*?)(?=^@|^\})' % re.escape(src), fm.group(0), re.M | re.S)
        if not bm:
            return False
        body = [x for x in bm.group(1).split('\n') if x.strip()]
        last = body[-1].strip() if body else ''
        if not (last.startswith('ret') or last == 'hlt' or (last.startswith('jmp ') and last != 'jmp ' + blk)):
            return False
    return True


# ----------------------------------------------------------------------------- mutation of C sources
TOK = re.compile(r'\s+|[A-Za-z_]\w*|0[xX][0-9a-fA-F]+[uUlL]*|\d+\.?\d*(?:[eE][-+]?\d+)?[uUlLfF]*|"(?:\\.|[^"\\])*"|\'(?:\\.|[^\'\\])*\'|'
                 r'<<=|>>=|\.\.\.|->|\+\+|--|<<|>>|<=|>=|==|!=|&&|\|\||[-+*/%&|^]=|.', re.S)
OPS = ['+', '-', '*', '/', '%', '&', '|', '^', '<<', '>>', '<', '>', '<=', '>=', '==', '!=', '&&', '||']
TYPEWORDS = ['char', 'short', 'int', 'long', 'unsigned', 'signed', 'float', 'double', '_Bool']


def mutate(rng, src):
    toks = TOK.findall(src)
    idx = [i for i, t in enumerate(toks) if not t.isspace()]
    if len(idx) < 4:
        return src
    for _ in range(rng.choice([1, 1, 1, 2, 3])):
        i = rng.choice(idx)
        t = toks[i]
        r = rng.random()
        if t in OPS and r < 0.7:
            toks[i] = rng.choice(OPS)
        elif t in TYPEWORDS and r < 0.7:
            toks[i] = rng.choice(TYPEWORDS)
        elif re.match(r'\d', t) and r < 0.7:
            toks[i] = rng.choice(['0', '1', '-1', '255', '256', '65536', '2147483647', '4294967296', '0x7fffffffffffffff', '1.5', '3'])
        elif r < 0.25:
            toks[i] = ''
        elif r < 0.45:
            toks[i] = t + ' ' + t
        elif r < 0.65:
            j = rng.choice(idx)
            toks[i], toks[j] = toks[j], toks[i]
        elif r < 0.8:
            toks[i] = rng.choice(['return 0;', 'break;', 'continue;', '0 ||', '1 &&', 'goto', ';', '{', '}', '(', ')', 'static', 'extern', 'sizeof', '!', '~', '*', '&',
                                  'if (1)', 'else', 'while (0)', 'for (;;)', 'switch (1)', 'case 1:', 'default:', 'x ? 1 : 2', '_Alignas(16)', 'const', 'volatile',
                                  'struct', 'union', 'enum', '[2]', '()', '...', ',', '=', '__builtin_unreachable();', '_Noreturn'])
        else:
            toks[i] = rng.choice([x for x in toks if not x.isspace()])
    return ''.join(toks)


def shrink_lines(src, bad, budget=1500, seconds=25):
    import time
    deadline = time.time() + seconds
    lines = src.split('\n')
    n = 2
    calls = 0
    while len(lines) >= 2 and calls < budget and time.time() < deadline:
        chunk = max(1, len(lines) // n)
        reduced = False
        for i in range(0, len(lines), chunk):
            cand = lines[:i] + lines[i + chunk:]
            calls += 1
            if cand and bad('\n'.join(cand) + '\n'):
                lines = cand
                n = max(n - 1, 2)
                reduced = True
                break
            if calls >= budget or time.time() > deadline:
                break
        if not reduced:
            if chunk == 1:
                break
            n = min(n * 2, len(lines))
    # final pass: one line at a time, from the end
    i = len(lines) - 1
    while i >= 0 and calls < budget + 400 and time.time() < deadline + 10:
        cand = lines[:i] + lines[i + 1:]
        calls += 1
        if cand and bad('\n'.join(cand) + '\n'):
            lines = cand
        i -= 1
    return '\n'.join(lines) + '\n'


# ----------------------------------------------------------------------------- the check
class Work:
    def __init__(self, ctx, exe):
        self.ctx, self.exe = ctx, exe
        self.dir = os.path.join(ctx.tmp, 'il')
        os.makedirs(self.dir, exist_ok=True)
        self.n = 0
        self.stats = dict(compiled=0, status0=0, rejected_by_cproc=0, wf_ok=0, wf_bad=0, parse_bad=0, roundtrip_bad=0, known_d22=0,
                          functions=0, il_lines=0, timeouts=0)
        self.by_stream = {}
        self.kinds = {}
        self.features = {}
        self.distinct = set()
        self.nontrivial = set()

    def compile_batch(self, stream, items):
        """items: (label, src text | None, path | None, target, cwd_extra).  Returns list of records with il file + verdict."""
        ctx = self.ctx

        def one(it):
            label, src, path, target = it
            if path is not None:
                rc, out, err = ctx.qbe('', target=target, extra=[path], timeout=20, cap=64 << 20)
            else:
                rc, out, err = ctx.qbe(src, target=target, timeout=20, cap=64 << 20)
            return it, rc, out, err
        recs = []
        for it, rc, out, err in vlib.parallel_map(one, items):
            self.stats['compiled'] += 1
            st = self.by_stream.setdefault(stream, dict(compiled=0, status0=0, bad=0))
            st['compiled'] += 1
            if rc == -9:
                self.stats['timeouts'] += 1
            if rc != 0:
                self.stats['rejected_by_cproc'] += 1
                continue
            self.stats['status0'] += 1
            st['status0'] += 1
            self.n += 1
            f = os.path.join(self.dir, '%d.qbe' % self.n)
            with open(f, 'w') as o:
                o.write(out)
            recs.append(dict(item=it, il=out, file=f, err=err, stream=stream))
        files = [r['file'] for r in recs]
        batches = [files[i:i + 40] for i in range(0, len(files), 40)]
        verdicts = {}
        for res in vlib.parallel_map(lambda b: oracle_check(self.exe, b), batches):
            verdicts.update(res)
        for r in recs:
            r['v'] = verdicts[r['file']]
            self.account(r)
            try:
                os.unlink(r['file'])
            except OSError:
                pass
        return recs

    def account(self, r):
        v, il = r['v'], r['il']
        h = hashlib.sha1(il.encode()).hexdigest()
        self.distinct.add(h)
        nf = il.count('\nfunction ') + (1 if il.startswith('function ') else 0)
        self.stats['functions'] += nf
        self.stats['il_lines'] += il.count('\n')
        if re.search(r'\tjnz |\tcall | phi |^type |=\w call ', il, re.M):
            self.nontrivial.add(h)
        if v['ok']:
            self.stats['wf_ok'] += 1
        label, src, path, target = r['item']
        if v['parse']:
            self.stats['parse_bad'] += 1
        if v['roundtrip']:
            self.stats['roundtrip_bad'] += 1
        if v['viols']:
            self.stats['wf_bad'] += 1
            self.by_stream[r['stream']]['bad'] += 1
            for k in viol_kinds(v):
                self.kinds[k] = self.kinds.get(k, 0) + 1

    def source_of(self, r):
        label, src, path, target = r['item']
        return src if src is not None else open(path, errors='replace').read()

    def report(self, r):
        """turn a failed verdict into a violation (shrunk) or a broken correspondence"""
        ctx = self.ctx
        v, il = r['v'], r['il']
        label, src, path, target = r['item']
        text = self.source_of(r)
        if v['roundtrip'] and not v['viols'] and not v['parse']:
            ctx.broken('correspondence', 'ilparse print-after-parse self check', '%s [%s -t %s]\n%s' % (v['roundtrip'], label, target, il[:2000]))
            return
        if v['parse']:
            what = 'status 0 but the output is not a valid IL module (%s) [%s, -t %s]' % (v['parse'], label, target)
            key = VARARG0_KEY if is_vararg0(il, v) else 'il-grammar'
            pred = lambda vv: bool(vv['parse'])
        else:
            kinds = viol_kinds(v)
            d22 = is_d22(il, v)
            key = D22_KEY if d22 else FLOAT_BITWISE_KEY if is_float_bitwise(v) else 'wf:' + '+'.join(kinds)
            if GOTO_VLA_MARK in text and kinds == ['not-dominated']:
                key = GOTO_VLA_KEY
            what = 'status 0 but the IL module is rejected by wf_module: %s [%s, -t %s]' % (v['viols'][0], label, target)
            pred = lambda vv: bool(vv['viols']) and viol_kinds(vv) == kinds
        # shrink (sources given by path may include other files: shrink only self-contained text)
        small = text
        if len(text) < 200000:
            tmpf = os.path.join(ctx.tmp, 'shrink.qbe')
            cwd = os.path.dirname(path) if path else None

            def bad(s):
                if path is not None and '#include "' in s:
                    pth = os.path.join(os.path.dirname(path), '.c03shrink.c')
                    return False
                rc, out, err = ctx.qbe(s, target=target, timeout=10)
                if rc != 0:
                    return False
                open(tmpf, 'w').write(out)
                return pred(oracle_check(self.exe, [tmpf])[tmpf])
            if bad(text):
                small = shrink_lines(text, bad)
        ctx.violation(what, '/* cproc-qbe -t %s ; %s */\n%s' % (target, (v['parse'] or v['viols'][0])[:300], small), 'c', key=key)


def corpus_items(snap):
    items = []
    tdir = os.path.join(snap, 'test')
    for fn in sorted(os.listdir(tdir)):
        if fn.endswith('.c') and os.path.exists(os.path.join(tdir, fn[:-2] + '.qbe')):
            items.append(fn)
    return items


def own_sources(ctx, snap):
    """cproc's own .c files, preprocessed"""
    out = []
    for fn in sorted(os.listdir(snap)):
        if fn.endswith('.c'):
            rc, o, e = sh(CPP + ['-I', snap, os.path.join(snap, fn)], timeout=60)
            if rc == 0:
                out.append((fn, o.decode('utf-8', 'replace')))
    return out


def output_failure_half(ctx, snap, stats):
    """-o /dev/full, -o <directory>, stdout closed, stdout limited to k bytes: status must not be 0"""
    exe = os.path.join(snap, 'cproc-qbe')
    small = 'int x = 1;\n'
    big = ''.join('int f%d(int a) { return a + %d; }\n' % (i, i) for i in range(3000))     # > 64 KiB of IL
    mid = ''.join('int g%d = %d;\n' % (i, i) for i in range(200))                        # ~ 8 KiB
    cases = []
    d = os.path.join(ctx.tmp, 'adir')
    os.makedirs(d, exist_ok=True)
    for nm, src in (('small', small), ('mid', mid), ('big', big)):
        cases.append((nm + ':-o /dev/full', src, ['-o', '/dev/full'], None))
        cases.append((nm + ':-o <directory>', src, ['-o', d], None))
        cases.append((nm + ':-o <missing dir>/x', src, ['-o', os.path.join(d, 'nope', 'x')], None))
        cases.append((nm + ':stdout closed', src, [], 'closed'))
        cases.append((nm + ':stdout is /dev/full', src, [], 'full'))
        for k in (0, 1, 100, 4095, 4096, 5000, 70000):
            cases.append((nm + ':file size limit %d' % k, src, ['-o', os.path.join(ctx.tmp, 'lim.out')], k))
    bad = []
    for name, src, extra, mode in cases:
        # reference: how many bytes does the successful output have?
        rc0, out0, _ = run_limited([exe] + [], input=src.encode(), timeout=20, cap=64 << 20)
        if rc0 != 0:
            continue
        if isinstance(mode, int) and mode >= len(out0):
            continue        # the limit does not bite: nothing to observe

        q = "'%s'" % exe
        argv = ' '.join("'%s'" % x for x in extra)
        if mode == 'closed':
            cmd = 'exec %s %s >&-' % (q, argv)
        elif mode == 'full':
            cmd = 'exec %s %s > /dev/full' % (q, argv)
        elif isinstance(mode, int):
            cmd = "trap '' XFSZ; exec prlimit --fsize=%d %s %s > /dev/null" % (mode, q, argv)
        else:
            cmd = 'exec %s %s > /dev/null' % (q, argv)
        rc, _, err = run_limited(['timeout', '-s', 'KILL', '20', 'sh', '-c', cmd], input=src.encode(), timeout=30)
        stats['output_failure_cases'] = stats.get('output_failure_cases', 0) + 1
        if rc == 0:
            bad.append(name)
            ctx.violation('status 0 although the output could not be written (%s)' % name,
                          '/* %s ; cproc-qbe %s */\n%s' % (name, ' '.join(extra), src[:2000]), 'c', key='output-failure:' + name.split(':', 1)[1])
    return bad


def run_validation(ctx, w, progs, stats):
    """Qbe.run (extracted) against gcc and clang executions; references that disagree discard the program."""
    shim = os.path.join(ctx.tmp, 'shim.c')
    open(shim, 'w').write(SHIM)

    def one(args):
        i, src, meta = args
        base = os.path.join(ctx.tmp, 'rv%d' % i)
        open(base + '.c', 'w').write(src)
        res = dict(i=i, status='ok', detail='')
        outs = {}
        for uns in (False, True):
            refs = []
            for cc, fl in (('gcc', '-O1'), ('clang', '-O0')):
                exe = '%s.%s%d' % (base, cc, uns)
                rc, o, e = sh('%s -w -std=c11 %s -ffp-contract=off %s %s.c %s -o %s' % (cc, fl, '-funsigned-char' if uns else '-fsigned-char', base, shim, exe), timeout=120)
                if rc != 0:
                    res['status'] = 'ref-build-failed'
                    res['detail'] = txt(e)[-500:]
                    return res
                rc, o, e = run_limited([exe], timeout=10)
                refs.append(o.decode() + 'status %d\n' % rc)
                os.unlink(exe)
            if refs[0] != refs[1]:
                res['status'] = 'refs-disagree'
                return res
            outs[uns] = refs[0]
        for target in TARGETS:
            rc, il, err = ctx.qbe(src, target=target)
            if rc != 0:
                res['status'] = 'cproc-rejects'
                res['detail'] = err[:300]
                return res
            f = '%s.%s.qbe' % (base, target)
            open(f, 'w').write(il)
            v = oracle_check(w.exe, [f])[f]
            # (C08 domain) aggregate descriptor smaller than the C struct: passing by value is not comparable
            probe = res.get('probe')
            rc, o, e = run_limited([w.exe, 'run', f, '3000000'], timeout=120)
            got = '\n'.join(l for l in o.decode().split('\n') if not l.startswith('#'))
            want = outs[target != 'x86_64-sysv']
            if got != want:
                res['status'] = 'mismatch'
                a, b = got.split('\n'), want.split('\n')
                k = next((j for j in range(min(len(a), len(b))) if a[j] != b[j]), min(len(a), len(b)))
                res['detail'] = '-t %s: output line %d: Qbe.run %r, gcc/clang %r' % (target, k, a[k:k + 2], b[k:k + 2])
                res['types'] = v['types']
                res['target'] = target
                return res
            os.unlink(f)
        res['lines'] = outs[False].count('\n')
        os.unlink(base + '.c')
        return res
    results = vlib.parallel_map(one, progs)
    return results


def struct_sizes_gcc(ctx, src):
    """sizeof of every struct tag of a generated program, by gcc"""
    tags = re.findall(r'^struct (\w+) \{', src, re.M)
    if not tags:
        return {}
    prog = '#include <stdio.h>\n' + '\n'.join(l for l in src.split('\n') if l.startswith('struct ')) + \
           '\nint main(void){' + ''.join('printf("%s %%zu\\n", sizeof(struct %s));' % (t, t) for t in tags) + 'return 0;}\n'
    f = os.path.join(ctx.tmp, 'ss%d' % (hash(src) & 0xffffff))
    open(f + '.c', 'w').write(prog)
    rc, o, e = sh('gcc -w %s.c -o %s && %s' % (f, f, f), timeout=60)
    res = {}
    if rc == 0:
        for l in o.decode().split('\n'):
            p = l.split()
            if len(p) == 2:
                res[p[0]] = int(p[1])
    for x in (f, f + '.c'):
        try:
            os.unlink(x)
        except OSError:
            pass
    return res


def data_layout_check(ctx, w, src, meta, il_data, target, stats):
    """rule (9): sum of item sizes = sizeof, declared alignment >= _Alignof, C side measured by gcc"""
    probe = c03_progs.layout_probe(src, meta)
    f = os.path.join(ctx.tmp, 'lp%d' % (hash(src) & 0xffffff))
    open(f + '.c', 'w').write(probe)
    rc, o, e = sh('gcc -w -std=c11 %s.c -o %s && %s' % (f, f, f), timeout=60)
    for x in (f, f + '.c'):
        try:
            os.unlink(x)
        except OSError:
            pass
    if rc != 0:
        stats['layout_probe_failed'] = stats.get('layout_probe_failed', 0) + 1
        if any(src == h[0] for h in LAYOUT_HAND):
            ctx.broken('correspondence', 'rule 9 probe for a hand-written layout shape does not build with gcc', txt(e)[:600])
        return []
    bad = []
    for l in o.decode().split('\n'):
        p = l.split()
        if len(p) != 3:
            continue
        name, size, align = p[0], int(p[1]), int(p[2])
        cands = [k for k in il_data if k == '$' + name or re.match(r'\$\.L%s\.\d+$' % re.escape(name), k)]
        if not cands:
            continue        # a tentative definition that is never emitted would be C09's business; here: only emitted ones
        stats['data_defs_checked'] = stats.get('data_defs_checked', 0) + 1
        isz, ial = il_data[cands[0]]
        if isz != size or ial < align:
            bad.append('%s: IL size %d align %d, C object size %d align %d' % (name, isz, ial, size, align))
    return bad


def run(ctx):
    rng = ctx.rng
    thorough = ctx.tier == 'thorough'
    snap = ctx.snapshot()
    ok = ctx.coq(['Properties/%s.vo' % MODULE, 'Extract/Extract_qbe.vo'])
    if ok:
        ctx.assumptions(MODULE, ctx.theorem_names(MODULE))
    exe = build_oracle(ctx) if ok else None
    stats = {}
    samples = []
    w = None
    if snap and exe:
        w = Work(ctx, exe)
        # ---- G: the opcode table of the parser/model equals ops.h of the snapshot
        ops = re.findall(r'^OP\(\w+,\s*"(\w+)"\)', open(os.path.join(snap, 'ops.h')).read(), re.M)
        rc, o, e = sh([exe, 'opnames'])
        mine = o.decode().split() + ['call']        # call is a separate constructor (Icall) of the model
        ctx.ob('G:opnames_agree (%d opcodes of ops.h = opcode table of ilparse/Qbe.v)' % len(ops), sorted(ops) == sorted(mine))
        if sorted(ops) != sorted(mine):
            ctx.broken('table', 'ops.h vs Qbe.v opcode table', 'only in ops.h: %r; only in the model: %r' % (sorted(set(ops) - set(mine)), sorted(set(mine) - set(ops))))
        failed = []

        # ---- stream 1: the corpus, three targets
        tdir = os.path.join(snap, 'test')
        corpus = corpus_items(snap)
        items = [('test/' + fn, None, os.path.join(tdir, fn), t) for fn in corpus for t in TARGETS]
        recs = w.compile_batch('corpus', items)
        failed += [r for r in recs if not r['v']['ok']]
        ctx.log('corpus: %d modules' % len(recs))

        # ---- stream 2: cproc's own sources
        own = own_sources(ctx, snap)
        items = [('self/' + fn, src, None, t) for fn, src in own for t in (TARGETS if thorough else TARGETS[:1] + [TARGETS[1 + (ctx.seed % 2)]])]
        recs = w.compile_batch('own-sources', items)
        failed += [r for r in recs if not r['v']['ok']]
        stats['own_sources_compiled'] = len(recs)
        ctx.log('own sources: %d modules' % len(recs))

        # ---- stream 3: generated programs
        nprog = 3000 if thorough else 500
        progs = []
        for i in range(nprog):
            src, meta = c03_progs.gen_program(rng, rng.randint(1, 6))
            progs.append((i, src, meta))
            for ft in meta['features']:
                w.features[ft] = w.features.get(ft, 0) + 1
        items = [('gen/%d' % i, src, None, t) for i, src, meta in progs for t in TARGETS]
        recs = w.compile_batch('generated', items)
        failed += [r for r in recs if not r['v']['ok']]
        ctx.log('generated: %d modules' % len(recs))
        # rule (9) on the generated programs (x86_64 module; sizes are target independent for these types)
        bymod = {r['item'][0]: r for r in recs if r['item'][3] == TARGETS[0]}
        lay_items = [(src, meta, bymod['gen/%d' % i]['v']['data']) for i, src, meta in progs[: (1500 if thorough else 500)] if 'gen/%d' % i in bymod]
        # fixed shapes: over-aligned objects with a partial initializer, bit-fields at the end, strings that fill the array
        for k, (src, meta) in enumerate(LAYOUT_HAND):
            rc, out, err = ctx.qbe(src)
            if rc != 0:
                ctx.violation('valid hand-written layout unit is not compiled (status %d): %s' % (rc, err[:200]), src, 'c', key='layout-hand-rejected')
            if rc == 0:
                f = os.path.join(ctx.tmp, 'lh%d.qbe' % k)
                open(f, 'w').write(out)
                lay_items.append((src, meta, oracle_check(exe, [f])[f]['data']))
        nlay = len(lay_items)
        lres = vlib.parallel_map(lambda it: data_layout_check(ctx, w, it[0], it[1], it[2], TARGETS[0], stats), lay_items)
        seen9 = 0
        for (src, meta, _), bads in zip(lay_items, lres):
            for b in bads[:1]:
                seen9 += 1
                if seen9 > 3:
                    break
                ctx.violation('data definition does not have the size/alignment of the C object: ' + b,
                              '/* %s */\n%s' % (b, src), 'c', key='data-size')
        stats['layout_programs'] = nlay
        # a generated program that cproc rejects is not a C03 matter, but it shrinks the stream: report the rate
        stats['generated_rejected'] = nprog * 3 - len(recs)

        # ---- stream 4: token-level mutations of corpus files and generated programs that still compile
        nmut = 12000 if thorough else 2500
        pool = [open(os.path.join(tdir, fn), errors='replace').read() for fn in corpus] + [p[1] for p in progs[:60]]
        items = []
        for i in range(nmut):
            items.append(('mut/%d' % i, mutate(rng, rng.choice(pool)), None, rng.choice(TARGETS)))
        # hand-written shapes around code after a terminator and dead code
        for k, s in enumerate(HAND):
            for t in TARGETS:
                items.append(('hand/%d' % k, s, None, t))
        recs = w.compile_batch('mutations', items)
        failed += [r for r in recs if not r['v']['ok']]
        ctx.log('mutations: %d of %d still compile' % (len(recs), len(items)))

        # ---- verdicts
        seen_keys = {}
        failed.sort(key=lambda r: len(w.source_of(r)))        # the smallest source of each class is the one reported
        for r in failed:
            v = r['v']
            if v['parse']:
                k = VARARG0_KEY if is_vararg0(r['il'], v) else 'il-grammar'
            elif v['viols']:
                k = D22_KEY if is_d22(r['il'], v) else FLOAT_BITWISE_KEY if is_float_bitwise(v) else 'wf:' + '+'.join(viol_kinds(v))
                if GOTO_VLA_MARK in w.source_of(r) and viol_kinds(v) == ['not-dominated']:
                    k = GOTO_VLA_KEY
            else:
                k = 'roundtrip'
            seen_keys[k] = seen_keys.get(k, 0) + 1
            if seen_keys[k] > 1 or len(seen_keys) > 6:
                continue        # same class already reported on this run (counted in stats), or too many classes
            w.report(r)
        stats['failed_modules_by_class'] = seen_keys
        w.stats['known_d22'] = seen_keys.get(D22_KEY, 0)
        ctx.ob('TV:%d modules with status 0 all accepted by wf_module (parse + rules 2-8)' % w.stats['status0'],
               not [x for x in ctx.violations if x['key'] not in (D22_KEY, FLOAT_BITWISE_KEY, VARARG0_KEY, GOTO_VLA_KEY)] and w.stats['parse_bad'] == seen_keys.get(VARARG0_KEY, 0))
        ctx.ob('K:ilparse print-after-parse self check on every module', w.stats['roundtrip_bad'] == 0)

        # ---- output-failure half
        bad = output_failure_half(ctx, snap, stats)
        ctx.ob('output-failure: %d ways of failing to write all give a non-zero status' % stats.get('output_failure_cases', 0), not bad)

        # ---- validation of the interpreter (Qbe.run) against gcc and clang
        nrun = 600 if thorough else 100
        rres = run_validation(ctx, w, progs[:nrun], stats)
        rs = {}
        for r in rres:
            rs[r['status']] = rs.get(r['status'], 0) + 1
        stats['run_validation'] = rs
        stats['run_trace_lines'] = sum(r.get('lines', 0) for r in rres)
        mism = [r for r in rres if r['status'] == 'mismatch']
        real = []
        for r in mism:
            src = progs[r['i']][1]
            # C08's domain (D23): QBE aggregate descriptor smaller than the C struct => by-value copies are short
            cs = struct_sizes_gcc(ctx, src)
            short = [t for t, (sz, al) in r.get('types', {}).items() if cs.get(t[1:].rsplit('.', 1)[0], sz) != sz]
            if short:
                stats['run_skipped_aggregate_descriptor_mismatch'] = stats.get('run_skipped_aggregate_descriptor_mismatch', 0) + 1
                continue
            real.append(r)
        for r in real[:3]:
            ctx.broken('correspondence', 'Qbe.run vs gcc/clang on a generated program',
                       '%s\n(either the IL semantics of Model/Qbe.v or the code generation is off; C01 decides)\n%s' % (r['detail'], progs[r['i']][1][:6000]))
        ctx.ob('K:Qbe.run agrees with gcc and clang on %d generated programs x 3 targets (%d trace lines)' % (rs.get('ok', 0), stats['run_trace_lines']), not real and rs.get('ok', 0) > 0)
        if rs.get('ref-build-failed'):
            ctx.notes.append('reference build failed for %d generated programs: %s' % (rs['ref-build-failed'], [r['detail'] for r in rres if r['status'] == 'ref-build-failed'][:1]))
        samples.append({'generated_program_head': progs[0][1][:600]})
        samples.append({'mutant_head': items[0][1][:300]})
        stats.update(w.stats)
        stats['by_stream'] = w.by_stream
        stats['violation_kinds'] = w.kinds
        stats['generator_features'] = w.features

    cov = dict(evaluations=stats.get('status0', 0) + stats.get('output_failure_cases', 0),
               distinct_nontrivial=len(w.nontrivial) if w else 0,
               rule='a module counts once per distinct IL text and is non-trivial when it has a conditional jump, a call, a phi or an aggregate type '
                    '(so that rules 3-8 have something to check); streams: corpus x 3 targets, cproc\'s own preprocessed sources, typed generated programs x 3 targets, '
                    'token-level mutants that still compile, hand-written dead-code shapes',
               samples=samples, stats=stats, distinct_modules=len(w.distinct) if w else 0,
               disagreements_checked=len(ctx.violations) + len(ctx.brokens),
               trusted_base=vlib.TRUSTED_BASE + [
                   'ocaml/qbe/ilparse.ml (strict IL parser; self-checked by print-after-parse token comparison on every module)',
                   'extraction of Qbe.v/QbeWf.v with ExtrOcamlZBigInt + zarith 1.12 (Z/positive as zarith integers)',
                   'floating-point operations of Qbe.run are OCaml doubles passed as the fops record (no Coq axiom); validated against gcc/clang runs',
                   'Model/Qbe.v is the definition of the IL semantics (no qbe binary in the sandbox)',
                   'gcc 12 / clang 14 as reference executions and for sizeof/_Alignof of the C objects (rule 9)'])
    return ctx.finish(cov, assumptions=[
        'wf_module is proved sound w.r.t. Qbe.run (C03_wf_sound): an accepted module never stops at an undefined register, a missing label, '
        'a wrong class, a missing aggregate type or a fall off the end, for all float operations, externals, entries and fuel; '
        'other Stuck results (BadCall, BadPhi, DivTrap, BadVa, ...) and OOB are outside the statement',
        'qbe.c is tied to the Builder model by the translation validation above, not by proof',
        'rule 9 (data sizes) is checked for generated programs whose object types the generator knows; for other inputs only the IL-internal consistency is checked'])


LAYOUT_HAND = [
    ('_Alignas(64) int a1[4] = { 1 };\n_Alignas(128) char a2[3] = "x";\n_Alignas(16) struct { char c; int b : 5; } a3 = { 1, 2 };\n'
     '_Alignas(64) struct { long l; char c; } a4 = { 1 };\n_Alignas(32) short a5[5] = { [1] = 2 };\nchar a6[4] = "abcd";\nstruct { int a : 3; int : 0; char c; short b : 9; } a7 = { 1, 2, 3 };\n'
     'static long a8[3];\nlong *a9 = &a8[2];\n_Alignas(64) char a10;\n',
     {'globals': [('a1', 'int[4]', 64), ('a2', 'char[3]', 128), ('a4', 'struct { long l; char c; }', 64), ('a5', 'short[5]', 32), ('a6', 'char[4]', None),
                  ('a7', 'struct { int a : 3; int : 0; char c; short b : 9; }', None), ('a9', 'long *', None), ('a10', 'char', 64)]}),
]


# wide string literals shorter than / exactly as long as the array they initialise (padding is counted in bytes)
LAYOUT_HAND.append(
    ('struct W4 { unsigned short s[6]; int t; };\nstruct W6 { char c; unsigned u[3]; char d; };\n'
     'unsigned short w1[8] = u"ab"; unsigned w2[5] = U"a"; int w3[4] = L"abc"; unsigned short w5[3] = u"abc"; unsigned short w7[2][5] = { u"a", u"bcd" };\n'
     'const struct W4 w4 = { u"xy", 7 }; const struct W6 w6 = { 1, U"z", 2 };\n',
     {'globals': [('w1', 'unsigned short[8]', None), ('w2', 'unsigned[5]', None), ('w3', 'int[4]', None), ('w4', 'struct W4', None),
                  ('w5', 'unsigned short[3]', None), ('w6', 'struct W6', None), ('w7', 'unsigned short[2][5]', None)]}))

# anonymous struct/union members carry their alignment into the enclosing aggregate
LAYOUT_HAND.append(
    ('struct A1 { char tag; union { long l; double d; }; };\nstruct A2 { char c; struct { short s; _Alignas(16) char z; }; };\nstruct A3 { char k; struct { struct { long deep; }; }; char e; };\n'
     'const struct A1 q1 = { 1 }; const struct A2 q2 = { 1 }; const struct A3 q3 = { 1, 2, 3 }; const struct A1 q4[2] = { { 1 }, { 2 } };\n',
     {'globals': [('q1', 'struct A1', None), ('q2', 'struct A2', None), ('q3', 'struct A3', None), ('q4', 'struct A1[2]', None)]}))

# objects whose type is completed only after their first declaration (alignment must be that of the completed type)
LAYOUT_HAND.append(
    ('struct S; extern struct S b1; struct S { long a; char c; }; struct S b1 = { 1 };\nstruct T b2; struct T { double d; }; \n'
     'union U; extern union U b3; union U { int i; long l; }; union U b3;\nstruct V; static struct V b4; struct V { long s; short t; }; struct V *b5 = &b4;\n',
     {'globals': [('b1', 'struct { long a; char c; }', None), ('b2', 'struct { double d; }', None), ('b3', 'union { int i; long l; }', None), ('b4', 'struct { long s; short t; }', None)]}))

HAND = [
    'void g(int n, int (*a)[n]); void g2(int n, int m, int a[n][m], int (*b)[m][n]); long d(int n, int (*a)[n]) { return sizeof *a; }\nlong h(void *q, int (*r)[3]) { g(3, q); g(3, r); g2(2, 3, q, q); return d(4, q) + d(3, r); }\n',
    # named parameters after unnamed ones are bound to their own temporaries
    'int second(int, int b) { return b; } long third(char, double, long c, float) { return c; } struct s { long a, b; }; long fourth(struct s, int, struct s d) { return d.b; }\n',
    # lengths of variable length arrays of unsigned types narrower than 64 bits
    'int f(unsigned n, unsigned short r, unsigned char w, _Bool b) { int a[n]; char c[r][w]; long d[w]; short e[b + 1u]; return sizeof a + sizeof c + sizeof d + sizeof e; }\n',
    # the size operand of alloca has class l whatever the type of the argument
    'void *f(unsigned n, unsigned short h, _Bool b, unsigned char c, int i, long l) { char *p = __builtin_alloca(n); p += (long)__builtin_alloca(h) + (long)__builtin_alloca(b) + (long)__builtin_alloca(c) + (long)__builtin_alloca(i) + (long)__builtin_alloca(l) + (long)__builtin_alloca(n + h); return p; }\n',
    # variable length arrays whose elements have size zero (GNU zero-length arrays): every operand present
    'struct S { int x[0]; }; typedef int Z[0]; int f(int n) { struct S a[n]; Z b[n]; Z c[n][2]; struct S d[2][n]; return sizeof a + sizeof b + sizeof c + sizeof d; }\n',
    '_Noreturn void ab(void); int f(int c){ return c ? 1 : (ab(), 2); }\nint g(int c){ return c ? (ab(), 1) : 2; }\nint h(int c) { return c && (ab(), 1); }\nint k(int c) { return c || (ab(), 0); }\n',
    '_Noreturn void ab(void); int f(int c, int d){ return c ? d ? 1 : (ab(), 2) : (ab(), 3); }\nvoid g(int c) { c ? ab() : ab(); }\n',
    'int f(int y){ return 0; 0 || y; }\n',
    'int f(int y){ return 0; 1 && y; }\n',
    'int f(int y){ return 0; y ? 1 : 2; }\n',
    'int f(int y){ for(;;){} return y && 1; }\n',
    'int f(int y){ goto l; y && 1; l: return y; }\n',
    'int f(int y){ if (y) { return 1; y = y || 2; } return y; }\n',
    'int f(int y){ while (1) { break; 0 || y; } return 0 && y; }\n',
    'int f(int y){ switch (y) { 0 || y; case 1: return 2; } return 3; }\n',
    '_Noreturn void die(void); int f(int y){ die(); return 0 || y; }\n',
    '_Noreturn void die(void); int f(int y){ (&die)(); return 1 && y; }\n',
    'int f(int y){ __builtin_unreachable(); return y; }\n',
    'void f(void){ }\nint main(void){ }\n',
    'int f(int y){ do { continue; 0 && y; } while (0); return 1; }\n',
    'struct s { int a; long b; } g(void); int f(void){ return g().a; }\n',
    'struct s { int a; long b; }; struct s g(struct s x){ return x; } int f(void){ struct s v = {1, 2}; return g(v).a; }\n',
    'int f(int n){ int a[n]; a[0] = 1; return sizeof a + a[0]; }\n',
    'int f(int y){ l: if (y--) goto l; return y; }\n',
    # size of a VLA typedef: evaluated at the typedef (fixed f40627e: was the first use, possibly inside a branch)
    'void g(int *); void f(int n, int c) { typedef int T[n]; if (c) { T a; g(a); } T b; g(b); }\n',
    'void g(void *); void f(int n, int c) { typedef int T[n][n + 1]; while (c--) { T a; g(a); } for (;;) { T *p = 0; g(p + 1); break; } T b; g(b); }\n',
    'long f(int n, int c) { typedef char T[n]; switch (c) { case 1: { T a; return sizeof a; } default: ; } return sizeof(T); }\n',
    'int printf(const char *, ...); int f(void){ return printf("%d %f\\n", 1, 2.0); }\n',
    'void f(void){ static int x = 3; static char s[] = "abc"; x += s[1]; }\n',
    'int f(int a, int b){ return a ?: b; }\n' if False else 'int f(int a, int b){ return a ? a : b; }\n',
    'double f(float x, long y){ return x + y; }\nfloat g(double d){ return d; }\nunsigned long h(double d){ return d; }\n',
    'int f(void){ return sizeof(struct { int a:3; char b; }); }\n',
    'union u { int a; float b; }; union u f(union u x){ x.b = 1; return x; }\n',
    'void g2(...);\nvoid f(void) {\n\tg2(1.0f);\n}\n',
    'int g3(...);\nint f(int x) {\n\treturn g3(x, 2L) + g3();\n}\n',
    'double f(double a, double b){ return a & b; }\n',
    'float f(float a, int b){ return a | b; }\n',
    'double f(double a){ a ^= 1; return a; }\n',
    'struct a { int x; }; struct b { long y, z; }; void g(struct a, struct b); void f(void){ struct a p = {1}; struct b q = {2, 3}; g(p, q); }\n',
    'struct b { long y, z; double d; }; struct b g(int); long f(void){ return g(1).z; }\n',
    'struct a { int x; }; struct b { long y, z; }; long g(int, struct a, struct b); long f(void){ struct a p = {1}; struct b q = {2, 3}; return g(1, p, q); }\n'
    'long g(int i, struct a p, struct b q){ return i + p.x + q.y; }\n',
    'struct b { long y, z; }; long f(struct b *p){ extern long h(int, struct b); return h(1, *p); }\nlong h(int i, struct b q){ return q.z; }\n',
    'struct s { int a : 3; int : 0; char c; short b : 9; } x = { 1, 2, 3 }; _Alignas(32) struct { char c; int b : 5; } y = { 1, 2 };\n',
]


# known finding: a jump into the scope of a variable length array (constraint violation 6.8.6.1p1 / 6.8.4.2p2 that cproc does
# not check) is accepted and the size temporary of the array is undefined on the path of the jump
GOTO_VLA_KEY = 'goto-past-vla-declaration'
GOTO_VLA_MARK = '/* jump into the scope of a VLA */'
HAND += [GOTO_VLA_MARK + ' int f(int n){ goto L; { int a[n]; L: return sizeof a; } }\n',
         GOTO_VLA_MARK + ' int f(int n){ switch (n) { int a[n]; case 1: return sizeof a; } return 0; }\n']

# operand classes of pointer arithmetic with narrow integer operands (every one is widened to l first), struct parameters without
# a name (their aggregate type must be known to the signature), by-value structs with multi-dimensional array members
HAND += ['char *f(char *p, int i, short s, unsigned char c, _Bool b) { return p - i - s - c - b; }\nunsigned char *g(unsigned char *p, int i) { p -= i; return p - (i + 1); }\n'
         'long h(char *p, char *q, int i) { return (p - i) - (q + i) + (&p[-i] - q); }\nchar *k(char *p, unsigned u, long l) { return p - u + l - 1; }\n',
         'int *f(int *p, short i, signed char c) { return p - i - c + i; }\nvoid *g(char **pp, int i) { return *(pp - i) - i; }\n',
         'struct opts { long a, b, c; };\nint on_idle(struct opts) { return 1; }\nunion u { long l; double d; char c[20]; };\nint on_u(union u, int x) { return x; }\n'
         'int run(void) { struct opts o = { 1, 2, 3 }; union u v = { 4 }; return on_idle(o) + on_u(v, 2); }\n',
         'struct cell { int v; char t; };\nstruct grid { struct cell c[2][3]; short n; };\nstruct mat { double m[3][3]; int k[2][2][2]; };\n'
         'struct grid mk(struct grid g, struct mat m) { g.n += m.k[1][1][1]; return g; }\nint use(void) { struct grid g = { 0 }; struct mat m = { 0 }; return mk(g, m).n; }\n']

# main gets an implicit `return 0` only when it returns int: other return types must not get a `ret 0`
HAND += ['void main(void) { }\n', 'void main(int c, char **v) { while (c) { break; } }\n', 'long main(void) { long x = 1; x++; }\n',
         'double main(void) { for (;;) { break; } }\n', 'struct s { long a, b, c; } main(void) { }\n', 'int main(void) { }\nvoid f(void) { }\n',
         'static void main(void) { } void (*p)(void) = main;\n']

# jumps to labels that are never defined (invalid programs): whatever the label's name hashes to, the unit is either
# rejected or - if it is accepted - its IL must not jump to a missing block
HAND += ['int f(int y){ if (y) goto %s; return 1; %s_: return 2; }\n' % (n, n) for n in
         ('out', 'done', 'fail', 'retry', 'cleanup', 'err', 'end', 'L1', 'again', 'next', 'l', 'x', 'error', 'exit_', 'bad', 'loop', 'top', 'skip', 'finish', 'unwind')]
HAND += ['int f(int y){ a: if (y) goto b; c: if (y > 1) goto %s; d: return 1; b: goto c; e: goto a; }\n' % n for n in ('g', 'h', 'out', 'zz', 'lbl9', 'stop')]

# address constants the folder cannot bring into the form `symbol + offset` (invalid or unsupported): either rejected or,
# if accepted, printed in the data grammar (`$sym + N` only)
HAND += ['int table[8]; int *base1 = table - 1;\n', 'int table[8]; long l = (long)table - 8;\n', 'int table[8]; int *p = &table[0] - 2;\n', 'char *s = "abc" - 1;\n',
         'int x; long d = (long)&x * 2;\n', 'int x, y; long d = &x - &y;\n', 'int table[8]; int *q = 2 + table - 1;\n', 'int table[8]; int *q = &table[3] - 1 - 1;\n',
         'struct s { int a, b; } v; int *q = &v.b - 1;\n', 'void f(void); void (*pf)(void) = f - 1;\n', 'int x; long d = -(long)&x;\n', 'int x; int *p = &x - (1 - 2);\n']


def replay(ctx, path):
    snap = ctx.snapshot()
    exe = build_oracle(ctx)
    text = open(path).read()
    m = re.match(r'/\* cproc-qbe -t (\S+)', text)
    m2 = re.match(r'/\* ([^;]*:[^;]*) ; cproc-qbe ([^*]*) \*/', text)
    if m2 and 'output' in open(path + '.what').read():
        print('output-failure replay: re-run ./check C03 (the case is %s)' % m2.group(1))
        return 1
    target = m.group(1) if m else TARGETS[0]
    rc, out, err = ctx.qbe(text, target=target)
    print('cproc-qbe -t %s: status %d' % (target, rc))
    if rc != 0:
        print(err)
        return 0
    f = os.path.join(ctx.tmp, 'replay.qbe')
    open(f, 'w').write(out)
    v = oracle_check(exe, [f])[f]
    print(out)
    for l in v['viols']:
        print(l)
    if v['parse']:
        print(v['parse'])
    if v['ok']:
        print('wf: OK')
    return 0 if v['ok'] else 1
