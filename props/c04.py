# C04 - constant expressions fold to the value run-time evaluation would give.   DESIGN.md section 5 (C04).
import os, re, sys, json, struct
import vlib
from vlib import sh, txt, run_limited
sys.path.insert(0, os.path.join(vlib.VERIF, 'gen'))
import c04_gen as G

LEVEL = 'proof'
MODULE = 'Properties_C04'
TARGETS = ['x86_64-sysv', 'aarch64', 'riscv64']
ALLT = G.INT_TYPES + ['float', 'double', 'ptr']


# ------------------------------------------------------------------------------- K-unit cases
def codeline(line, sc):
    """translate a harness case line (type names) into the oracle's (attribute codes)"""
    out = []
    for w in line.split(' '):
        out.append(G.code(w, sc) if w in G.SIZES else w)
    return ' '.join(out)


def gen_binary_cases(rng, sc, thorough):
    cases = []
    promoted = ['int', 'uint', 'long', 'ulong', 'llong', 'ullong']
    car = {t: G.carriers(t, sc, rng) for t in ALLT}
    # (a) the combinations the parser produces: operands converted to a common promoted type, result = that type or int
    for op in G.BIN_OPS:
        for lt in promoted:
            t = 'int' if op in G.CMP_OPS else lt
            ls = car[lt]
            rs = car[lt] if op not in ('shl', 'shr') else sorted(set(list(range(0, 70)) + [G.M64, 1 << 63, 255, 256, 1 << 32]))
            if not thorough:
                ls = rng.sample(ls, min(len(ls), 26))
                rs = rng.sample(rs, min(len(rs), 26))
            for l in ls:
                for r in rs:
                    cases.append('B %s %s %s %x %x' % (op, lt, t, l, r))
        for lt in ('float', 'double'):
            t = 'int' if op in G.CMP_OPS else lt
            ls = rng.sample(car[lt], 22 if not thorough else len(car[lt]))
            for l in ls:
                for r in rng.sample(car[lt], 22 if not thorough else len(car[lt])):
                    cases.append('B %s %s %s %x %x' % (op, lt, t, l, r))
    # (b) every (left type, result type) pair, including the ones the parser never builds (the model is total)
    n = 6000 if not thorough else 200000
    for _ in range(n):
        op = rng.choice(G.BIN_OPS + ['lor', 'land'] if rng.random() < 0.02 else G.BIN_OPS)
        lt = rng.choice(ALLT)
        t = rng.choice(ALLT)
        if lt in ('float', 'double') and op in ('mul', 'div', 'add', 'sub'):
            t = rng.choice(['float', 'double'])   # NaN payloads are not modelled: keep float results in float types
        l = rng.choice(car[lt]) if rng.random() < 0.8 else rng.getrandbits(64)
        r = rng.choice(car[lt]) if rng.random() < 0.8 else rng.getrandbits(64)
        cases.append('B %s %s %s %x %x' % (op, lt, t, l, r))
    # (c) the same operators through eval(): small trees over the boundary operands (division guards, && / ||)
    small = {}
    for lt in promoted:
        vs = [G.tmin(lt, sc), G.tmin(lt, sc) + 1, -1, 0, 1, 2, G.tmax(lt, sc), G.tmax(lt, sc) - 1, 7, 63, 64]
        small[lt] = sorted(set(G.repr64(lt, sc, v) for v in vs if G.tmin(lt, sc) <= v <= G.tmax(lt, sc)))
    for op in G.BIN_OPS + ['lor', 'land']:
        for lt in promoted:
            t = 'int' if op in G.CMP_OPS or op in ('lor', 'land') else lt
            for l in small[lt]:
                for r in small[lt]:
                    cases.append('E b %s %s c %s %x c %s %x' % (op, t, lt, l, lt, r))
    # unary minus and cast: every type x every carrier
    for lt in ALLT:
        for t in ([lt] if not thorough else ALLT):
            if lt in ('float', 'double') and t not in ('float', 'double'):
                continue
            for l in car[lt]:
                cases.append('U %s %s %x' % (lt, t, l))
    for t in ALLT:
        for c in car[t] + [rng.getrandbits(64) for _ in range(40)] + [1 << k for k in range(64)] + [(1 << k) - 1 for k in range(1, 65)]:
            cases.append('K %s %x' % (t, c))
    # eval()'s EXPRCAST of a floating constant (float and double) to every integer type, signed and unsigned, of every width:
    # all float carriers (range boundaries on both sides) plus NaNs of every kind and both infinities, which must be
    # diagnosed (theorems C04_float_to_int_never_host_ub / C04_nan_to_int_diag; fixed in /repo 1b74a9a)
    for ft in ('float', 'double'):
        ops = sorted(set(car[ft] + NONFINITE_BITS + [rng.choice(NAN_BITS) ^ rng.getrandbits(51) for _ in range(4)]))
        for t in G.INT_TYPES:
            for c in ops:
                cases.append('E k %s c %s %x' % (t, ft, c))
    # eval()'s EXPRCAST of an integer constant to float and double: carriers plus values on and next to the rounding
    # boundaries of binary32 (half an ulp = 2^(k-24)) and binary64 (2^(k-53)); `(float)i` must be rounded once, not through
    # double (fixed in /repo ee45c99: 2^60 + 2^36 + 1 was folded to 2^60)
    for lt in ('long', 'ulong', 'llong', 'ullong', 'int', 'uint'):
        bits = 32 if lt in ('int', 'uint') else 64
        tie = []
        for k in range(25, bits):
            for half in (k - 24, k - 53):
                if half < 0:
                    continue
                base = (1 << k) + (1 << half)
                tie += [base - 1, base, base + 1, base + (1 << (half + 1)), base + (1 << (half + 1)) + 1, base + (1 << (half + 1)) - 1]
        tie = [v for v in tie if v < (1 << bits)]
        tie = tie + [(-v) & G.M64 for v in tie if lt[0] != 'u' and v < (1 << (bits - 1))]
        tie = [v for v in tie if lt[0] == 'u' or v < (1 << (bits - 1)) or v >= G.M64 + 1 - (1 << (bits - 1))]
        pick = tie if thorough else rng.sample(tie, min(len(tie), 160))
        for ft in ('float', 'double'):
            for c in sorted(set(car[lt] + pick)):
                cases.append('E k %s c %s %x' % (ft, lt, c))
    return cases


# quiet, negative quiet, signalling (smallest / largest payload), all-ones NaNs; +inf, -inf
NAN_BITS = [0x7ff8000000000000, 0xfff8000000000000, 0x7ff0000000000001, 0xfff0000000000001, 0x7ff7ffffffffffff, 0x7fffffffffffffff, 0xffffffffffffffff]
INF_BITS = [0x7ff0000000000000, 0xfff0000000000000]
NONFINITE_BITS = NAN_BITS + INF_BITS


def is_nonfinite(c):
    return (c >> 52) & 0x7ff == 0x7ff


def is_nan(c):
    return is_nonfinite(c) and c & ((1 << 52) - 1) != 0


def gen_tree(rng, sc, depth, want=None):
    """a random expression tree in the harness notation, mostly shaped like the parser's output
    (operands converted to a common type by casts), sometimes not"""
    ints = G.INT_TYPES
    t = want or rng.choice(ints + ['double', 'float'] if rng.random() < 0.85 else ALLT)
    r = rng.random()
    if depth <= 0 or r < 0.22:
        k = rng.random()
        if t == 'ptr':
            return 'a ptr s%d' % rng.randint(0, 3) if k < 0.8 else 'c ptr 0'
        if k < 0.08 and t in ints:
            return 'n %s %x' % (t, rng.choice(G.carriers(t, sc, rng, False)))
        if k < 0.14:
            return 'v %s s%d' % (t, rng.randint(0, 3))
        if t == 'void':
            return 'v void s0'
        return 'c %s %x' % (t, rng.choice(G.carriers(t, sc, rng, rng.random() < 0.1)))
    if t == 'ptr':
        k = rng.random()
        if k < 0.45:
            return 'b %s ptr %s %s' % (rng.choice(['add', 'add', 'sub']), gen_tree(rng, sc, depth - 1, 'ptr'), gen_tree(rng, sc, depth - 1, 'ulong'))
        if k < 0.55:   # the parser never builds this order; eval's swap handles it
            return 'b add ptr %s %s' % (gen_tree(rng, sc, depth - 1, 'ulong'), gen_tree(rng, sc, depth - 1, 'ptr'))
        if k < 0.8:
            return 'k ptr %s' % gen_tree(rng, sc, depth - 1, rng.choice(['ptr', 'long', 'ulong', 'int']))
        return 'a ptr s%d' % rng.randint(0, 3)
    if t in ('float', 'double', 'void') or t not in ints:
        k = rng.random()
        if t == 'void':
            return 'k void %s' % gen_tree(rng, sc, depth - 1)
        if k < 0.3:
            return 'k %s %s' % (t, gen_tree(rng, sc, depth - 1, rng.choice(ints + ['float', 'double'])))
        if k < 0.4:
            return '- %s %s' % (t, gen_tree(rng, sc, depth - 1, t))
        op = rng.choice(['mul', 'div', 'add', 'sub'])
        return 'b %s %s %s %s' % (op, t, gen_tree(rng, sc, depth - 1, t), gen_tree(rng, sc, depth - 1, t))
    # integer-typed
    if r < 0.40:
        src = rng.choice(ints + ['float', 'double', 'ptr'] if rng.random() < 0.9 else ALLT)
        if src == 'ptr' and rng.random() < 0.5:
            t = rng.choice(['long', 'ulong'])
        return 'k %s %s' % (t, gen_tree(rng, sc, depth - 1, src))
    pt = G.promote(t, sc)
    if r < 0.46:
        return '- %s %s' % (pt if want is None else t, gen_tree(rng, sc, depth - 1, pt if want is None else t))
    if r < 0.52:
        c, a, b = gen_tree(rng, sc, depth - 1), gen_tree(rng, sc, depth - 1, t), gen_tree(rng, sc, depth - 1, t)
        return '? %s %s %s %s' % (t, c, a, b)
    if r < 0.62:
        op = rng.choice(['lor', 'land'])
        return 'b %s int %s %s' % (op, gen_tree(rng, sc, depth - 1), gen_tree(rng, sc, depth - 1))
    op = rng.choice(G.BIN_OPS)
    if op in G.CMP_OPS:
        ot = rng.choice(['int', 'uint', 'long', 'ulong', 'llong', 'ullong', 'double', 'float'])
        return 'b %s int %s %s' % (op, gen_tree(rng, sc, depth - 1, ot), gen_tree(rng, sc, depth - 1, ot))
    if want is None:
        t = pt
    if op in ('shl', 'shr'):
        return 'b %s %s %s %s' % (op, t, gen_tree(rng, sc, depth - 1, t), gen_tree(rng, sc, depth - 1, rng.choice(['int', 'uint', 'long', 'ulong'])))
    if op in ('add', 'sub') and t in ('long', 'ulong') and rng.random() < 0.25:
        # address arithmetic through an integer cast: C + (long)(P + C1) etc.
        a = 'k %s %s' % (t, gen_tree(rng, sc, depth - 1, 'ptr'))
        b = gen_tree(rng, sc, depth - 1, t)
        return 'b %s %s %s %s' % ((op, t, a, b) if rng.random() < 0.6 else (op, t, b, a))
    return 'b %s %s %s %s' % (op, t, gen_tree(rng, sc, depth - 1, t), gen_tree(rng, sc, depth - 1, t))


def runlines(exe, lines, timeout=300):
    rc, out, err = run_limited([exe], input=('\n'.join(lines) + '\n').encode(), timeout=timeout, cap=512 << 20)
    return rc, out.decode('latin1').split('\n')[:-1], err.decode('latin1')[-2000:]


def shard(lines, n):
    k = (len(lines) + n - 1) // n
    return [lines[i:i + k] for i in range(0, len(lines), k)] or [[]]


# ------------------------------------------------------------------------------- K-CLI
PRELUDE = 'enum { EA = 5, EB = -3, EC = 2147483647, ED = 0, EE = -2147483647 - 1 };\n'
WIDTH_LETTER = {1: 'b', 2: 'h', 4: 'w', 8: 'l'}


def cli_unit(cases, sc):
    """one translation unit observing every case in every folding context.
    cases: list of (text, type, value).  Returns (source, expectations) with expectations =
    list of (case index, context, name, expected) to be looked up in the IL."""
    src = [PRELUDE]
    exp = []
    for i, (e, t, v) in enumerate(cases):
        isf = t in ('double', 'float')
        src.append('%s d%d = %s;' % (G.CNAME[t], i, e))
        exp.append((i, 'data', 'd%d' % i, ('f', t, v) if isf else ('i', G.SIZES[t], v)))
        if isf:
            # comparison with a float literal of the same value: exact for values that came from doubles
            src.append('_Static_assert((%s) == %s, "");' % (e, (repr(v) + ('f' if t == 'float' else ''))))
            src.append('double fb%d(void) { return %s; }' % (i, e))
            continue
        src.append('_Static_assert((%s) == %s, "");' % (e, G.int_literal(t, sc, v)))
        # conversion on initialisation to another type
        t2 = G.INT_TYPES[(i * 7 + len(e)) % len(G.INT_TYPES)]
        src.append('%s c%d = %s;' % (G.CNAME[t2], i, e))
        exp.append((i, 'init-conv', 'c%d' % i, ('i', G.SIZES[t2], G.conv_spec(t2, sc, v))))
        # enumerator (converted to int so that the enumerator's type is int on every compiler)
        vi = G.conv_spec('int', sc, v)
        src.append('enum { en%d = (int)(%s) }; long long e%d = en%d;' % (i, e, i, i))
        exp.append((i, 'enumerator', 'e%d' % i, ('i', 8, vi)))
        # array bound through sizeof
        tc = G.common(t, 'int', sc)
        n = (G.conv_spec(tc, sc, v) & 0xff) + 1
        src.append('char a%d[((%s) & 0xff) + 1]; unsigned long s%d = sizeof(a%d);' % (i, e, i, i))
        exp.append((i, 'array-bound', 's%d' % i, ('i', 8, n)))
        # bit-field width 1..32
        w = (G.conv_spec(tc, sc, v) & 31) + 1
        src.append('struct { unsigned f : ((%s) & 31) + 1; } b%d = { -1 };' % (e, i))
        exp.append((i, 'bitfield-width', 'b%d' % i, ('bytes', 4, (1 << w) - 1)))
        # alignment specifier
        al = 1 << (G.conv_spec(tc, sc, v) & 3)
        src.append('_Alignas(1 << ((%s) & 3)) char l%d = 1;' % (e, i))
        exp.append((i, 'alignas', 'l%d' % i, ('align', al)))
        # case label (converted to the promoted type of the controlling expression: int)
        src.append('int w%d(int x) { switch (x) { case %s: return 1; } return 0; }' % (i, e))
        exp.append((i, 'case-label', 'w%d' % i, ('case', vi)))
        # the same expression evaluated at run time (compiled, not interpreted: no IL interpreter yet)
        src.append('long long f%d(void) { return %s; }' % (i, e))
    return '\n'.join(src) + '\n', exp


def parse_il(il):
    datas = {}
    for m in re.finditer(r'^(?:export )?data \$(\w+) = align (\d+) \{ (.*?) \}$', il, re.M):
        datas[m.group(1)] = (int(m.group(2)), m.group(3))
    funcs = {}
    for m in re.finditer(r'^function \w* ?\$(\w+)\(.*?\) \{\n(.*?)^\}', il, re.M | re.S):
        funcs[m.group(1)] = m.group(2)
    return datas, funcs


def check_expect(ex, datas, funcs):
    """returns None when the observation equals the expectation, else a description"""
    i, ctxname, name, want = ex
    if want[0] == 'case':
        body = funcs.get(name)
        if body is None:
            return 'function %s missing' % name
        ks = re.findall(r'ceq[wl] %\.\d+, (\d+)', body)
        wantc = want[1] & G.M64
        # w-class comparison: only the low 32 bits matter
        if len(ks) != 1 or (int(ks[0]) & 0xffffffff) != (wantc & 0xffffffff):
            return 'case constant %r, expected %d' % (ks, wantc)
        return None
    d = datas.get(name)
    if d is None:
        return 'data %s missing' % name
    align, body = d
    if want[0] == 'align':
        return None if align == want[1] else 'align %d, expected %d' % (align, want[1])
    if want[0] == 'i':
        m = re.match(r'^([bhwl]) (\d+),\s*$', body)
        if not m or m.group(1) != WIDTH_LETTER[want[1]]:
            return 'data item %r, expected one %s item' % (body, WIDTH_LETTER[want[1]])
        mask = (1 << (8 * want[1])) - 1
        got = int(m.group(2))
        if (got & mask) != (want[2] & mask):
            return 'value %d (0x%x), expected %d (0x%x)' % (got, got & mask, want[2], want[2] & mask)
        return None
    if want[0] == 'bytes':
        bs = []
        for it in body.split(','):
            it = it.strip()
            m = re.match(r'^b (\d+)$', it)
            if m:
                bs.append(int(m.group(1)) & 255)
                continue
            m = re.match(r'^z (\d+)$', it)
            if m:
                bs += [0] * int(m.group(1))
                continue
            m = re.match(r'^w (\d+)$', it)
            if m:
                bs += list(struct.pack('<I', int(m.group(1)) & 0xffffffff))
                continue
            if it:
                return 'unexpected item %r' % it
        got = int.from_bytes(bytes(bs[:want[1]]), 'little')
        return None if got == want[2] else 'bit-field image 0x%x, expected 0x%x' % (got, want[2])
    if want[0] == 'f':
        m = re.match(r'^([sd]) [sd]_([^\s,]+),\s*$', body)
        if not m or m.group(1) != ('s' if want[1] == 'float' else 'd'):
            return 'data item %r, expected a floating item' % body
        try:
            got = float(m.group(2))
        except ValueError:
            return 'unparsable float %r' % m.group(2)
        if got != want[2] or (got == 0 and str(got) != str(float(want[2]))):
            return 'value %r, expected %r' % (got, want[2])
        return None
    return 'bad expectation'


def gcc_validate(cases, sc, tmp, tag):
    """second opinion on the specification: gcc must accept (E) == V and the type of E for every case.
    Returns the set of case indices gcc disagrees with (spec_suspect), or None if gcc could not be run."""
    def unit(idx):
        src = [PRELUDE]
        for i in idx:
            e, t, v = cases[i]
            if t in ('double', 'float'):
                src.append('_Static_assert((%s) == %s, "");' % (e, repr(v) + ('f' if t == 'float' else '')))
            else:
                src.append('_Static_assert((%s) == %s, "");' % (e, G.int_literal(t, sc, v)))
            src.append('_Static_assert(_Generic((%s), %s: 1, default: 0), "");' % (e, G.CNAME[t]))
            src.append('%s rt%d(void) { return %s; }' % ('double' if t in ('double', 'float') else 'long long', i, e))
        return '\n'.join(src) + '\n'

    def ok(idx):
        path = os.path.join(tmp, 'gccv-%s-%d.c' % (tag, idx[0]))
        open(path, 'w').write(unit(idx))
        rc, out, err = sh(['gcc', '-std=gnu11', '-fsyntax-only', '-fsigned-char' if sc else '-funsigned-char',
                           '-Werror=overflow', '-Werror=div-by-zero', '-Werror=shift-count-overflow', '-Werror=shift-count-negative',
                           '-Werror=shift-negative-value', '-Wno-float-conversion', path], timeout=120)
        return rc == 0

    bad = set()

    def bisect(idx):
        if ok(idx):
            return
        if len(idx) == 1:
            bad.add(idx[0])
            return
        h = len(idx) // 2
        bisect(idx[:h])
        bisect(idx[h:])
    bisect(list(range(len(cases))))
    return bad


FINDING_PROBES = [
    # (key, source, what is expected)
    ('cond-float-condition-not-folded', 'int x = 1.5 ? 256 : 65535;\n', ('x', 4, 256)),
    ('cond-float-condition-not-folded', 'int x = 0.0 ? 256 : 65535;\n', ('x', 4, 65535)),
    ('long-double-folded-in-double', 'int x = 0.1L == 0.1;\n', ('x', 4, 0)),
    ('long-double-folded-in-double', 'int x = 1.0L / 3 == 1.0 / 3;\n', ('x', 4, 0)),
    ('unevaluated-operand-diagnosed', 'int x = 0 && (int)1e30;\n', ('x', 4, 0)),
    ('unevaluated-operand-diagnosed', 'enum { A = 1 || (unsigned)-1.0 }; int x = A;\n', ('x', 4, 1)),
]

FIXED_CLI = [
    # a static assertion holds iff the constant is non-zero as a 64-bit value (not after narrowing to int)
    ('_Static_assert(0x100000000, ""); _Static_assert(1UL << 40, "m"); _Static_assert(0xffffffff00000000 & -1L, ""); _Static_assert(sizeof(char[0x100000000]), "");\n'
     'struct s { int a; _Static_assert(0x7fffffff00000000, ""); }; enum { W = 0x300000000 }; void f(void) { _Static_assert(W, ""); _Static_assert(-0x100000000, ""); }\nint ok = 1;\n',
     [('ok', 4, 1)]),
    # a u-suffixed constant that does not fit unsigned int is unsigned long in EVERY base: signedness-dependent folds
    ('int a = -0x100000000u > 0; long b = 0x7fffffffffffffffu / -1; long c = 040000000000u % -3; long d = -0x100000000u >> 60;\n'
     'int e = -0b100000000000000000000000000000000U > 0; int f = -4294967296u > 0; long g = -0x100000000 >> 60; int h = -0x100000000 > 0;\n',
     [('a', 4, 1), ('b', 8, 0), ('c', 8, 4294967296), ('d', 8, 15), ('e', 4, 1), ('f', 4, 1), ('g', 8, -1), ('h', 4, 0)]),
    # offsetof through several steps with the last member inside an anonymous struct/union: the offsets of the earlier steps stay
    ('struct in { char pad[6]; struct { short lo; union { int whole; short hi; }; }; };\nstruct outer { long tag; struct in in; struct in arr[3]; };\n'
     'long a = __builtin_offsetof(struct outer, in.hi), b = __builtin_offsetof(struct outer, arr[2].whole), c = __builtin_offsetof(struct outer, in.lo), d = __builtin_offsetof(struct outer, arr[1].hi);\n'
     'union U { int raw[16]; struct { char h; short v[6]; } s; struct { long p; struct { int q; short v[3]; } body; } w; };\n'
     'long e = __builtin_offsetof(union U, s.v[2]), f = __builtin_offsetof(union U, raw[13]), g = __builtin_offsetof(union U, w.body.v[1]), h = __builtin_offsetof(union U, s);\n',
     [('a', 8, 20), ('b', 8, 68), ('c', 8, 16), ('d', 8, 52), ('e', 8, 6), ('f', 8, 52), ('g', 8, 14), ('h', 8, 0)]),
    # the type of a shift is the promoted LEFT operand's, whatever the type of the count
    ('long a = -8 >> 1u; long b = -1L >> 63ull; int c = sizeof(1 << 2ul); long d = -16 >> 2ul; int e = sizeof(1 >> 1ll); long f = (-1 >> 1u) < 0; long g = 1u << 31l; int h = sizeof((char)1 << 1ul);\n',
     [('a', 8, -4), ('b', 8, -1), ('c', 4, 4), ('d', 8, -4), ('e', 4, 4), ('f', 8, 1), ('g', 8, 2147483648), ('h', 4, 4)]),
    # arithmetic right shift of negative constants of every signed width
    ('long a = -8L >> 1; long long b = (-0x7fffffffffffffffLL - 1) >> 62; int c = -8 >> 1; long d = -1L >> 63; long e = (long)-16 >> 2 >> 1; int f = (-0x7fffffff - 1) >> 31;\n'
     'char g[(-8L >> 1) + 5]; long h = sizeof g; enum { SK = -64L >> 4 }; long i = SK;\n',
     [('a', 8, -4), ('b', 8, -2), ('c', 4, -4), ('d', 8, -1), ('e', 8, -2), ('f', 4, -1), ('h', 8, 1), ('i', 8, -4)]),
    # offsetof with index designators after a non-zero offset and with nested indices: offsets accumulate
    ('struct S { int pad; struct { int x; long y; } arr[4]; char m[3][5]; struct { struct { short v[6]; } in[3]; } n[2]; union { int i; short w[8]; } s; };\n'
     'long a = __builtin_offsetof(struct S, arr[2].y), b = __builtin_offsetof(struct S, m[1][2]), c = __builtin_offsetof(struct S, n[1].in[2].v[3]),\n'
     '     d = __builtin_offsetof(struct S, s.w[4]), e = __builtin_offsetof(struct S, arr[0].x), f = __builtin_offsetof(struct S, arr[3]);\n'
     'char g[__builtin_offsetof(struct S, m[2][4])]; long h = sizeof g; enum { K = __builtin_offsetof(struct S, n[1]) }; long i = K;\n',
     [('a', 8, 48), ('b', 8, 79), ('c', 8, 154), ('d', 8, 168), ('e', 8, 8), ('f', 8, 56), ('h', 8, 86), ('i', 8, 124)]),
    # integer -> float constant conversions round once (a detour through double rounds 2^60 + 2^36 + 1 down to 2^60)
    ('int a = (float)1152921573326323713LL == 0x1.000002p60f; int b = (float)1152921573326323713ULL > 0x1p60f; int c = (float)-1152921573326323713LL == -0x1.000002p60f;\n'
     'int d = (float)16777217 == 16777216.0f; int e = (double)9007199254740993LL == 9007199254740992.0; int f = (float)18446742974197923841ULL == 0x1.fffffep63f;\n'
     'int h = (float)1152921573326323713LL == (float)(double)1152921573326323713LL;\n',
     [('a', 4, 1), ('b', 4, 1), ('c', 4, 1), ('d', 4, 1), ('e', 4, 1), ('f', 4, 1), ('h', 4, 0)]),
    # (source, list of (name, size, value)) : regression corpus for the fixes already made in /repo, plus corner cases
    ('_Bool a = (_Bool)077; _Bool b = (_Bool)256; _Bool c = (_Bool)0.5; _Bool d = (_Bool)0.0; _Bool e = (_Bool)-0.0;\n',
     [('a', 1, 1), ('b', 1, 1), ('c', 1, 1), ('d', 1, 0), ('e', 1, 0)]),
    ('int a = 5 || 0; int b = 0 || 7; int c = 0.5 || 0; int d = 0.0 && 1; int e = 3 && 0.25; int f = !0.5; int g = !0.0;\n',
     [('a', 4, 1), ('b', 4, 1), ('c', 4, 1), ('d', 4, 0), ('e', 4, 1), ('f', 4, 0), ('g', 4, 1)]),
    ('int a = 0 && 1/0; int b = 1 || 1%0; long c = 0 ? (-9223372036854775807L-1)/-1 : 4;\n', [('a', 4, 0), ('b', 4, 1), ('c', 8, 4)]),
    ('unsigned long a = 18446744073709551615u; unsigned long b = 0xffffffffffffffff; long c = 9223372036854775807; unsigned d = 037777777777;\n',
     [('a', 8, G.M64), ('b', 8, G.M64), ('c', 8, (1 << 63) - 1), ('d', 4, 0xffffffff)]),
    ('int a = -2147483647 - 1; long b = -9223372036854775807L - 1; int c = (-2147483647 - 1) / 1; int d = (-2147483647 - 1) % -1 == 0;\n',
     [('a', 4, -(1 << 31)), ('b', 8, -(1 << 63)), ('c', 4, -(1 << 31))]),
    ('int a = -7 / 2; int b = -7 % 2; int c = 7 / -2; int d = 7 % -2; int e = -8 >> 1; int f = -1 >> 31; unsigned g = -1u >> 31; int h = 1 << 30;\n',
     [('a', 4, -3), ('b', 4, -1), ('c', 4, -3), ('d', 4, 1), ('e', 4, -4), ('f', 4, -1), ('g', 4, 1), ('h', 4, 1 << 30)]),
    ('int a = -1 < 0u; int b = -1L < 0u; int c = (unsigned char)-1 < 0; int d = -1 < (unsigned short)1; int e = 0xffffffff < 0; int f = -1LL > 0xffffffffu;\n',
     [('a', 4, 0), ('b', 4, 1), ('c', 4, 0), ('d', 4, 1), ('e', 4, 0), ('f', 4, 0)]),
    ('long a = (long)1e18; unsigned long b = (unsigned long)1.8e19; int c = (int)-2147483648.0; int d = (int)-0.9; unsigned char e = (unsigned char)255.9; long f = (long)-9223372036854775808.0;\n',
     [('a', 8, 10 ** 18), ('b', 8, 18 * 10 ** 18), ('c', 4, -(1 << 31)), ('d', 4, 0), ('e', 1, 255), ('f', 8, -(1 << 63))]),
    ('double a = 9007199254740993; float b = 16777217; double c = 18446744073709551615u; double d = -9223372036854775807L - 1; float e = 0.1; double f = 0.5f;\n',
     [('a', 'd', 9007199254740992.0), ('b', 's', 16777216.0), ('c', 'd', 18446744073709551616.0), ('d', 'd', -9223372036854775808.0),
      ('e', 's', G.f32(0.1)), ('f', 'd', 0.5)]),
    ('int x[4]; int *p = x + 2; int *q = &x[3] - 1; int *r = (x + 1) + 2; int *s = 1 + (x + 2); long t = (long)(x + 2) + 1; char *u = (char *)x + 5; int *v = &*(x + 1);\n',
     [('p', 'sym', ('x', 8)), ('q', 'sym', ('x', 8)), ('r', 'sym', ('x', 12)), ('s', 'sym', ('x', 12)), ('t', 'sym', ('x', 9)), ('u', 'sym', ('x', 5)), ('v', 'sym', ('x', 4))]),
    # fixed findings float-literal-not-rounded and float-to-unsigned-negative-fraction-rejected
    ('double a = 0.1f; int b = 0.1f == 0.1; long long c = (long long)9.2e18f; float d = 123456.789f; double e = 1e-3f * 1000;\n',
     [('a', 'd', G.f32(0.1)), ('b', 4, 0), ('c', 8, 9200000267938955264), ('d', 's', G.f32(123456.789)), ('e', 'd', float(G.f32(G.f32(1e-3) * 1000.0)))]),
    ('unsigned char a = (unsigned char)-0.5; unsigned b = (unsigned)-0.99; unsigned long c = (unsigned long)-0.0; unsigned long d = (unsigned long)-1e-300;\n',
     [('a', 1, 0), ('b', 4, 0), ('c', 8, 0), ('d', 8, 0)]),
    # fixed finding addr-const-swapped-reassoc-crash (eval.c TADD swap stored back)
    ('int a[4]; long x = 3 + (long)&a[1]; long y = 1 + (long)(a + 2); char *z = 2 + ((char *)a + 3);\n',
     [('x', 'sym', ('a', 7)), ('y', 'sym', ('a', 9)), ('z', 'sym', ('a', 5))]),
    ('struct s { int a; char b[7]; long c; }; struct s o; char *p = &o.b[3]; long *q = &o.c; unsigned long n = __builtin_offsetof(struct s, c); unsigned long m = sizeof(struct s) * 2 + _Alignof(struct s);\n',
     [('p', 'sym', ('o', 7)), ('q', 'sym', ('o', 16)), ('n', 8, 16), ('m', 8, 56)]),
]

RUNTIME_PROGS = [
    'int main(void) { out_l(-0.0 ? 1 : 2); out_l(0.0 ? 1 : 2); out_l(-0.0f ? 1 : 2); out_l((0.0 * -1) ? 1 : 2); out_l(1e-320 ? 1 : 2); out_l(0.5 ? 1 : 2);\n'
    '  out_l(-0.0 || 0); out_l(-0.0 && 1); out_l(!-0.0); out_l(1e-320 && 1); out_l((_Bool)-0.0); out_l((_Bool)1e-320); return 0; }\n',
    'int s1(unsigned char c) { switch (c) { case 257: return 1; case 1: return 2; case 255: return 3; case -1: return 4; } return 0; }\n'
    'int s2(short x) { switch (x) { case 0x12345: return 1; case 0x2345: return 2; case -32768: return 3; case 32768: return 4; } return 0; }\n'
    'int s3(_Bool b) { switch (b) { case 2: return 1; case 1: return 2; case 0: return 3; } return 0; }\n'
    'int s4(signed char c) { switch (c) { case 200: return 1; case -56: return 2; case 127: return 3; } return 0; }\n'
    'int main(void) { out_l(s1(1)); out_l(s1(255)); out_l(s1(0)); out_l(s2(0x2345)); out_l(s2(-32768)); out_l(s2(0)); out_l(s3(1)); out_l(s3(0)); out_l(s4(-56)); out_l(s4(127)); return 0; }\n',
    'enum { K = 0xffffffffffffffffull > 1, L = -1ll > 0ull, M = 0x8000000000000000ull >= 0x7fffffffffffffffull, N = (unsigned char)300 == 44 };\n'
    'int main(void) { out_l(K); out_l(L); out_l(M); out_l(N); out_l(sizeof(char[(0xffffffffffffffffull > 1) ? 3 : 7])); out_l(1u - 2 > 0); out_l(-1 >> 1); out_l((short)0x18000 < 0); return 0; }\n',
]

REJECT_CLI = [
    # constant contexts that must be diagnosed (exit status 1, no crash)
    'int a = 18446744073709551616;\n', 'int a = 0x10000000000000000;\n', 'int a = 99999999999999999999999999;\n', 'long a = 0777777777777777777777777;\n',
    'int a = 1 / 0;\n', 'int a = 1 % 0;\n', 'long a = (-9223372036854775807L - 1) / -1;\n', 'long a = (-9223372036854775807L - 1) % -1;\n',
    'enum { A = 1 / 0 };\n', 'char a[1 % 0];\n', '_Static_assert(1 / 0, "");\n', 'struct { int f : 1 / 0; } s;\n',
    'int f(int x) { switch (x) { case 1 / 0: return 1; } return 0; }\n',
    '_Static_assert(0, "");\n', '_Static_assert(1 - 1, "");\n', '_Static_assert(0.0, "");\n', 'char a[-1];\n',
    'int a = (int)1e30;\n', 'unsigned a = (unsigned)-1.0;\n', 'long a = (long)9223372036854775808.0;\n', 'unsigned long a = (unsigned long)18446744073709551616.0;\n',
]

MUST_REJECT = REJECT_CLI[:17]
MAY_REJECT = REJECT_CLI[17:]     # undefined conversions: a diagnostic is welcome, a crash is not
# a NaN or an infinity has no integral part: the conversion is diagnosed (C04_nan_to_int_diag, fixed in /repo 1b74a9a)
NONFINITE_REJECT = ['int a = (int)(0.0/0.0);\n', 'unsigned long a = (unsigned long)(0.0f/0.0f);\n', 'enum { A = (int)(0.0/0.0) };\n',
                    'unsigned char a = (unsigned char)__builtin_nanf("");\n', 'long a = (long)-(0.0/0.0);\n',
                    'long a = (long)(1.0/0.0);\n', 'unsigned a = (unsigned)(-1.0f/0.0f);\n', 'short a = (short)__builtin_inff();\n']
REJECT_CLI += NONFINITE_REJECT
MUST_REJECT += NONFINITE_REJECT


def classify(expr, default, err=''):
    """narrow key of a failing generated expression: known root causes first"""
    m = re.search(r'floating-point constant (\S+) cannot be represented as unsigned integer', err)
    if m:
        try:
            if -1.0 < float(m.group(1)) < 0.0:
                return 'float-to-unsigned-negative-fraction-rejected'
        except ValueError:
            pass
    for m in re.finditer(r'(?<![\w.])((?:0x[0-9a-f.]+p[+-]?\d+)|(?:\d+\.\d*(?:e[+-]?\d+)?|\d+e[+-]?\d+))f\b', expr):
        lit = m.group(1)
        v = float.fromhex(lit) if lit.startswith('0x') else float(lit)
        try:
            if G.f32(v) != v:
                return 'float-literal-not-rounded'
        except OverflowError:
            pass
    return default


def check_fixed(out, exp):
    datas, _ = parse_il(out)
    bad = []
    for name, size, val in exp:
        d = datas.get(name)
        if d is None:
            bad.append('%s missing' % name)
            continue
        body = d[1]
        if size == 'sym':
            m = re.match(r'^l \$(\w+) \+ (\d+),\s*$', body)
            if not m or (m.group(1), int(m.group(2))) != val:
                bad.append('%s = {%s}, expected $%s + %d' % (name, body, val[0], val[1]))
        elif size in ('s', 'd'):
            m = re.match(r'^%s %s_([^\s,]+),\s*$' % (size, size), body)
            if not m or float(m.group(1)) != val:
                bad.append('%s = {%s}, expected %s_%r' % (name, body, size, val))
        else:
            r = check_expect((0, 'data', name, ('i', size, val)), datas, {})
            if r:
                bad.append('%s: %s' % (name, r))
    return bad


def run(ctx):
    known_keys = {k['key'] for k in ctx.known() if k.get('kind') == 'known'}

    def viol(what, text, key):
        """register a violation; returns True when it is NOT a listed known finding"""
        ctx.violation(('[%s] ' % key if not what.startswith(key) else '') + what, text, 'c', key=key)
        return key not in known_keys
    rng = ctx.rng
    thorough = ctx.tier == 'thorough'
    snap = ctx.snapshot()
    ok = ctx.coq(['Properties/%s.vo' % MODULE, 'Extract/Extract_c04.vo'])
    if ok:
        ctx.assumptions(MODULE, ctx.theorem_names(MODULE))
    oracle = ctx.oracle('c04') if ok else None
    ctx.log('snapshot, coq and oracle ready')
    stats = dict(unit_cases=0, unit_binary=0, unit_unary=0, unit_cast=0, unit_trees=0, unit_outcomes={}, unit_hostub_skipped=0,
                 unit_nonfinite_to_int=0, unit_nonfinite_to_int_diagnosed=0,
                 spec_crosschecks=0, cli_exprs=0, cli_observations=0, cli_units=0, cli_by_context={}, gcc_validated=0, gcc_spec_suspect=0,
                 fixed_cli=0, reject_cli=0, generator={})
    samples = []
    nontrivial = set()
    unit_ok = cli_ok = True
    unit_available = True

    # ------------------------------------------------------------------ S: Python spec == Coq CArith (extracted)
    if oracle:
        lines, want = [], []
        for t in G.INT_TYPES:
            if t == 'bool':
                continue
            sc = True
            vs = G.boundary_values(t, sc, rng, 2)
            for op in G.BIN_OPS:
                for _ in range(40 if not thorough else 400):
                    l, r = rng.choice(vs), rng.choice(vs)
                    if op in ('shl', 'shr'):
                        r = rng.choice([-1, 0, 1, 7, 8, 15, 31, 32, 33, 63, 64, 65, rng.randint(0, 70)])
                    lines.append('S %s %d %s %d %d' % (op, G.SIZES[t], 's' if G.is_signed(t, sc) else 'u', l, r))
                    want.append(G.binop_spec(op, t, sc, l, r))
            for op in ('neg', 'plus', 'bnot', 'lnot'):
                for l in vs:
                    lines.append('N %s %d %s %d' % (op, G.SIZES[t], 's' if G.is_signed(t, sc) else 'u', l))
                    want.append(G.unop_spec(op, t, sc, l))
            for v in vs + [rng.randint(-(1 << 70), 1 << 70) for _ in range(20)]:
                lines.append('V %d %s %d' % (G.SIZES[t], 's' if G.is_signed(t, sc) else 'u', v))
                want.append(G.conv_spec(t, sc, v))
        rc, got, err = runlines(oracle, lines)
        stats['spec_crosschecks'] = len(lines)
        bad = [(l, g, w) for l, g, w in zip(lines, got, want)
               if (g == 'none') != (w is None) or (w is not None and int(g.split(' ')[1].replace('-', '-0x') if g.split(' ')[1].startswith('-') else '0x' + g.split(' ')[1], 16) != w)]
        ctx.ob('S: Python specification equals extracted CArith on %d operator/conversion instances' % len(lines), rc == 0 and len(got) == len(lines) and not bad)
        if rc != 0 or len(got) != len(lines) or bad:
            ctx.broken('correspondence', 'Python spec vs Coq CArith', 'first differences: %r' % (bad[:5],))

    ctx.log('spec cross-check done')
    # ------------------------------------------------------------------ K-unit
    if snap:
        hexe = os.path.join(ctx.tmp, 'h04')
        e = ctx.cc(hexe, [os.path.join(vlib.VERIF, 'harness/c04/harness.c')] + [os.path.join(snap, f) for f in ('type.c', 'targ.c', 'util.c')], incl=[snap])
        if e:
            # DESIGN 2.2: unit harnesses are accelerators; when the static functions were refactored away the
            # CLI-level suite (three times the volume) carries the correspondence alone
            ctx.notes.append('unit_harness: unavailable (harness/c04 does not build against this eval.c: %s); CLI-level suite enlarged' % e.strip().split('\n')[0][:200])
            unit_available = False
        elif oracle:
            jobs = []
            for targ in (TARGETS if thorough else TARGETS[:2]):
                sc = G.SIGNEDCHAR[targ]
                cases = gen_binary_cases(rng, sc, thorough)
                ntree = 40000 if not thorough else 400000
                cases += ['E ' + gen_tree(rng, sc, rng.randint(1, 5)) for _ in range(ntree)]
                for sh_ in shard(cases, max(4, vlib.NCPU // 2)):
                    jobs.append((targ, sc, sh_))

            def one(job):
                targ, sc, ls = job
                ls = ['T ' + targ] + ls
                return job, runlines(hexe, ls), runlines(oracle, [codeline(l, sc) for l in ls], timeout=900)
            for (targ, sc, ls), (rc1, real, e1), (rc2, model, e2) in vlib.parallel_map(one, jobs):
                ls = ['T ' + targ] + ls
                if rc1 != 0 or rc2 != 0 or len(real) != len(ls) or len(model) != len(ls):
                    unit_ok = False
                    ctx.broken('correspondence', 'c04 unit run incomplete', 'rc harness=%d oracle=%d lines %d/%d/%d\n%s\n%s' % (rc1, rc2, len(ls), len(real), len(model), e1[-500:], e2[-500:]))
                    continue
                for l, r, m in zip(ls[1:], real[1:], model[1:]):
                    stats['unit_cases'] += 1
                    k = {'B': 'unit_binary', 'U': 'unit_unary', 'K': 'unit_cast', 'E': 'unit_trees'}[l[0]]
                    stats[k] += 1
                    oc = m if m.startswith('stop') else ('folded' if (l[0] != 'E' or m.startswith('ok c ')) else 'partial')
                    stats['unit_outcomes'][oc] = stats['unit_outcomes'].get(oc, 0) + 1
                    if m == 'stop hostub':
                        # unreachable since the range tests reject NaN (C04_cast_const_never_host_ub); kept as a counter
                        stats['unit_hostub_skipped'] += 1
                        continue
                    nf = NONFINITE_CAST.match(l)
                    if nf and nf.group(1) in G.INT_TYPES and nf.group(1) != 'bool' and is_nonfinite(int(nf.group(2), 16)):
                        stats['unit_nonfinite_to_int'] += 1
                        stats['unit_nonfinite_to_int_diagnosed'] += (r == 'stop diag' and m == 'stop diag')
                    if l[0] != 'E' or ' b ' in l or ' k ' in l or ' - ' in l:
                        nontrivial.add(l)
                    if r != m:
                        if unit_ok:
                            ctx.broken('correspondence', 'Eval model vs eval.c', 'target %s case `%s`: real `%s` model `%s`' % (targ, l, r, m))
                        unit_ok = False
                        unit_disagreement(ctx, targ, sc, l, r, m)
                if len(samples) < 3:
                    j = rng.randrange(1, len(ls))
                    samples.append({'unit_case': ls[j], 'real': real[j], 'model': model[j]})
            ctx.ob('K-unit: eval.c binary/unary/cast/eval equal the extracted model on %d cases' % stats['unit_cases'], unit_ok)
            ctx.ob('K-unit: NaN / +inf / -inf constants converted to an integer type are diagnosed by eval.c and by the model (%d of %d cases), never host-undefined (%d)'
                   % (stats['unit_nonfinite_to_int_diagnosed'], stats['unit_nonfinite_to_int'], stats['unit_hostub_skipped']),
                   stats['unit_nonfinite_to_int'] > 0 and stats['unit_nonfinite_to_int_diagnosed'] == stats['unit_nonfinite_to_int'] and stats['unit_hostub_skipped'] == 0)

    ctx.log('K-unit done')
    # ------------------------------------------------------------------ K-CLI
    if snap and os.path.exists(os.path.join(snap, 'cproc-qbe')):
        nexpr = 800 if not thorough else 12000
        if not unit_available:
            nexpr *= 3
        per_unit = 25
        alljobs = []
        for targ in TARGETS:
            sc = G.SIGNEDCHAR[targ]
            gen = G.CGen(rng, sc)
            cases = []
            while len(cases) < nexpr:
                c = gen.gen(rng.randint(1, 5))
                if len(c[0]) < 1500:
                    cases.append(c)
            # a few expressions with float-suffixed literals that need rounding (finding float-literal-not-rounded),
            # kept out of the main stream so that one known root cause cannot flood the run
            geni = G.CGen(rng, sc, inexact_f=True)
            inexact = []
            for _ in range(4000):
                if len(inexact) >= (6 if not thorough else 40):
                    break
                c = geni.gen(rng.randint(1, 3))
                if classify(c[0], '') and len(c[0]) < 300:
                    inexact.append(c)
            for k, v in gen.stats.items():
                stats['generator'][k] = stats['generator'].get(k, 0) + v
            # validate the expected values with gcc (second opinion); drop what gcc disputes
            bad = gcc_validate(cases, sc, ctx.tmp, targ)
            stats['gcc_validated'] += len(cases) - len(bad)
            stats['gcc_spec_suspect'] += len(bad)
            for i in sorted(bad)[:5]:
                ctx.notes.append('spec_suspect (gcc disagrees with the Python specification): %s : %s = %r' % (cases[i][0], cases[i][1], cases[i][2]))
            cases = [c for i, c in enumerate(cases) if i not in bad]
            for j in range(0, len(cases), per_unit):
                alljobs.append((targ, sc, cases[j:j + per_unit]))
            badi = gcc_validate(inexact, sc, ctx.tmp, targ + '-inexact') if inexact else set()
            for i, c in enumerate(inexact):
                if i not in badi:
                    alljobs.append((targ, sc, [c]))

        def cone(job):
            targ, sc, cs = job
            src, exp = cli_unit(cs, sc)
            rc, out, err = ctx.qbe(src, target=targ, timeout=20)
            return job, src, exp, rc, out, err
        for (targ, sc, cs), src, exp, rc, out, err in vlib.parallel_map(cone, alljobs):
            stats['cli_units'] += 1
            stats['cli_exprs'] += len(cs)
            for c in cs:
                nontrivial.add(c[0])
            if rc != 0:
                # find the expression the compiler refuses / crashes on
                for c in cs:
                    s1, e1 = cli_unit([c], sc)
                    rc1, out1, err1 = ctx.qbe(s1, target=targ)
                    if rc1 != 0:
                        if viol('valid constant expression rejected (rc=%d, target %s): %s  [type %s, value %r]: %s' % (rc1, targ, c[0], c[1], c[2], err1.strip()[:200]),
                                '/* target: %s */\n%s' % (targ, min_unit(ctx, c, sc, targ)), classify(c[0], 'cli-reject', err1)):
                            cli_ok = False
                        break
                else:
                    cli_ok = False
                    viol('unit of valid constant expressions rejected (rc=%d): %s' % (rc, err[:200]), '/* target: %s */\n%s' % (targ, src), 'cli-reject')
                continue
            datas, funcs = parse_il(out)
            for ex in exp:
                stats['cli_observations'] += 1
                stats['cli_by_context'][ex[1]] = stats['cli_by_context'].get(ex[1], 0) + 1
                why = check_expect(ex, datas, funcs)
                if why:
                    c = cs[ex[0]]
                    if viol('constant expression folded wrongly in context %s (target %s): %s  [type %s, value %r]: %s' % (ex[1], targ, c[0], c[1], c[2], why),
                            '/* target: %s ; context %s ; expected value %r of type %s */\n%s' % (targ, ex[1], c[2], c[1], cli_unit([c], sc)[0]), classify(c[0], 'cli-fold:' + ex[1])):
                        cli_ok = False
                    break
            if len(samples) < 6:
                samples.append({'cli_expr': cs[0][0], 'type': cs[0][1], 'value': repr(cs[0][2]), 'target': targ})

        ctx.log('K-CLI random stream done')
        # hand-written regression corpus (fixes already in /repo) and corner cases, every target
        for targ in TARGETS:
            for src, exp in FIXED_CLI:
                rc, out, err = ctx.qbe(src, target=targ)
                stats['fixed_cli'] += 1
                bad = ['rc=%d %s' % (rc, err[:200])] if rc != 0 else check_fixed(out, exp)
                if bad:
                    cli_ok = False
                    viol('constant folding corpus (target %s): %s' % (targ, '; '.join(bad[:3])), '/* target: %s */\n%s' % (targ, src), 'cli-corpus:' + src[:30])
            for src in REJECT_CLI:
                rc, out, err = ctx.qbe(src, target=targ)
                stats['reject_cli'] += 1
                if rc != 1 and (src in MUST_REJECT or rc != 0):
                    cli_ok = False
                    viol('constant context with an undefined or oversized constant: exit status %d instead of a diagnostic (target %s): %s' % (rc, targ, err[:200]),
                         '/* target: %s */\n%s' % (targ, src), 'cli-must-diagnose:' + src.strip()[:30])
        # probes for the findings recorded in notes/C04.md
        for key, src, want in FINDING_PROBES:
            rc, out, err = ctx.qbe(src)
            detail = err.strip()[:160] if rc != 0 else ''
            if rc == 0 and want:
                detail = '; '.join(check_fixed(out, [want]))
            if rc != 0 or detail:
                hdr = '/* expect: %s %s %r */\n' % want if want else ''
                if viol('%s: `%s` -> exit status %d %s' % (key, src.strip(), rc, detail), hdr + src, key):
                    cli_ok = False
        # run-time twins executed under the Coq-defined IL semantics (ocaml/qbe oracle) and compared with a gcc-built native run:
        # constant conditions of ?: incl. floating ones, logical operators, case labels on narrow controlling types
        qexe = ctx.oracle('qbe')
        if qexe:
            for pi, psrc in enumerate(RUNTIME_PROGS):
                wd = os.path.join(ctx.tmp, 'rt%d' % pi)
                os.makedirs(wd, exist_ok=True)
                cfile = os.path.join(wd, 'p.c')
                open(cfile, 'w').write('void out_l(long);\n' + psrc)
                open(os.path.join(wd, 'shim.c'), 'w').write('#include <stdio.h>\nvoid out_l(long v){ printf("out_l %ld\\n", v); }\n')
                rcg, og, eg = sh('gcc -std=c11 -O0 -w -o %s/ref %s %s/shim.c && %s/ref' % (wd, cfile, wd, wd), timeout=60)
                rc, out, err = ctx.qbe(open(cfile).read())
                stats['runtime_twins'] = stats.get('runtime_twins', 0) + 1
                if rcg != 0:
                    ctx.notes.append('run-time twin %d: reference build failed: %s' % (pi, txt(eg)[:200]))
                    continue
                if rc != 0:
                    cli_ok = False
                    viol('valid run-time twin program rejected: %s' % err[:200], open(cfile).read(), 'runtime-twin-rejected')
                    continue
                ilf = os.path.join(wd, 'p.ssa')
                open(ilf, 'w').write(out)
                rr, ro, re_ = sh([qexe, 'run', ilf], timeout=60)
                got = [l for l in txt(ro).split('\n') if l.startswith('out_l')]
                want = [l for l in txt(og).split('\n') if l.startswith('out_l')]
                if got != want:
                    cli_ok = False
                    i = next((i for i, (a, b) in enumerate(zip(got, want)) if a != b), min(len(got), len(want)))
                    viol('compiled program computes %r where gcc computes %r (observation %d): constant folding / case label conversion differs from run-time evaluation'
                         % (got[i:i + 1], want[i:i + 1], i), open(cfile).read(), 'runtime-twin:%d' % pi)
        ctx.ob('K-CLI: %d expressions x 8 folding contexts x 3 targets agree with the specification (%d observations); corpus %d, diagnostics %d'
               % (stats['cli_exprs'], stats['cli_observations'], stats['fixed_cli'], stats['reject_cli']), cli_ok)
        if not unit_available:
            ctx.ob('K-unit: unavailable, correspondence carried by the enlarged CLI-level suite', cli_ok)

    cov = dict(evaluations=stats['unit_cases'] + stats['cli_observations'] + stats['fixed_cli'] + stats['reject_cli'] + stats['spec_crosschecks'],
               distinct_nontrivial=len(nontrivial),
               rule='unit cases are distinct by text and counted when they contain an operator, a cast or a negation (a bare constant leaf is trivial); '
                    'CLI expressions are distinct by text, each contains at least one operator/cast/literal conversion and is observed in 8 contexts',
               samples=samples, stats=stats,
               runtime_side='the run-time value of each CLI expression is checked against gcc only (_Static_assert + _Generic under gcc; cproc compiles '
                            'the function-body twin but its IL is not executed: no IL interpreter yet)',
               disagreements_checked=len(ctx.violations) + len(ctx.brokens))
    return ctx.finish(cov, assumptions=[
        'eval.c is tied to Model/Eval.v by exact differential runs of binary/unary/cast/eval (unit harness #including the snapshot eval.c), not by proof',
        'floating-point: the extracted model computes with Flocq binary64 (round to nearest even); the host evaluates with SSE2 doubles; NaN payloads are not compared; '
        'no theorem is stated about floating-point folding (partial), only the correspondence and the CLI checks cover it',
        'host `>>` on negative long long is arithmetic (gcc); strtoull/strtod of libc are trusted',
        'gcc 12 is used as a second opinion on the Python specification, never as the verdict',
        'literal typing (inttype), the parser and the usual arithmetic conversions are exercised through the CLI only (C05 owns their proofs)'])


def min_unit(ctx, c, sc, targ):
    """smallest context in which the case fails"""
    e, t, v = c
    for line in ('%s d0 = %s;' % (G.CNAME[t], e), '_Static_assert((%s) == 0 || 1, "");' % e, 'long long f0(void) { return %s; }' % e):
        src = PRELUDE + line + '\n'
        rc, out, err = ctx.qbe(src, target=targ)
        if rc != 0:
            return src
    return cli_unit([c], sc)[0]


UNIT_VIOL_LIMIT = 3
_unit_viol_count = {}
NONFINITE_CAST = re.compile(r'^E k (\w+) c (?:float|double) ([0-9a-f]+)$')


def unit_disagreement(ctx, targ, sc, line, real, model):
    """model and eval.c disagree on a unit case: decide against the SPECIFICATION whether the real code is wrong"""
    p = line.split(' ')
    if p[0] == 'E' and real == 'stop trap':
        # whatever the expression, the folder must not execute a trapping host division (SIGFPE kills the compiler)
        if _unit_viol_count.get('trap', 0) < UNIT_VIOL_LIMIT:
            _unit_viol_count['trap'] = _unit_viol_count.get('trap', 0) + 1
            ctx.violation('eval() executes a trapping division (SIGFPE) on the tree `%s`' % line, '/* unit case (harness/c04), target %s */\n// %s\n' % (targ, line), 'c', key='unit-trap')
        return
    nf = NONFINITE_CAST.match(line)
    if nf and nf.group(1) in G.INT_TYPES and nf.group(1) != 'bool' and is_nonfinite(int(nf.group(2), 16)) and real != 'stop diag':
        # a NaN or an infinity has no integral part (C11 6.3.1.4p1): folding it means executing an undefined host conversion,
        # and no run-time evaluation gives "the" value; eval() has to diagnose it like every other out-of-range constant
        c = int(nf.group(2), 16)
        kind = 'nan' if is_nan(c) else 'inf'
        if _unit_viol_count.get(kind, 0) < UNIT_VIOL_LIMIT:
            _unit_viol_count[kind] = _unit_viol_count.get(kind, 0) + 1
            ctx.violation('eval() folds the conversion of a %s constant (bits %x) to %s into `%s` instead of a diagnostic: undefined host conversion reached'
                          % ('NaN' if kind == 'nan' else 'infinite', c, nf.group(1), real),
                          '/* unit case (harness/c04), target %s */\n// %s\n' % (targ, line), 'c', key='unit-%s-to-int' % kind)
        return
    if p[0] != 'B' or p[1] not in G.BIN_OPS or p[2] not in G.INT_TYPES or p[2] == 'bool':
        return
    op, lt, t = p[1], p[2], p[3]
    want_t = 'int' if op in G.CMP_OPS else lt
    if t != want_t:
        return
    lc, rcar = int(p[4], 16), int(p[5], 16)
    # canonical operands only
    def val(c):
        return c - (1 << 64) if G.is_signed(lt, sc) and c >> 63 else c
    l, r = val(lc), val(rcar)
    if G.repr64(lt, sc, l) != lc or (op not in ('shl', 'shr') and G.repr64(lt, sc, r) != rcar):
        return
    v = G.binop_spec(op, lt, sc, l, r)
    if v is None or not real.startswith('v '):
        return
    if int(real[2:], 16) != G.repr64(t, sc, v):
        if _unit_viol_count.get(op, 0) >= UNIT_VIOL_LIMIT:
            return
        _unit_viol_count[op] = _unit_viol_count.get(op, 0) + 1
        ctx.violation('eval.c binary(): %s %s %s on %s = carrier 0x%s, C requires %d' % (l, G.COP[op], r, lt, real[2:], v),
                      '/* unit case (harness/c04): %s */\n%s x = %s %s %s;\n' % (line, G.CNAME[t], G.int_literal(lt, sc, l), G.COP[op], G.int_literal(lt, sc, r)),
                      'c', key='unit-fold:' + op)


def replay(ctx, path):
    snap = ctx.snapshot()
    src = open(path).read()
    m = re.search(r'unit case \(harness/c04\)[^\n]*?(?:target (\S+) \*/\n// |: )([BUKE] [^\n*]+)', src)
    if m:
        targ = m.group(1) or 'x86_64-sysv'
        line = m.group(2).strip()
        sc = G.SIGNEDCHAR[targ]
        hexe = os.path.join(ctx.tmp, 'h04')
        e = ctx.cc(hexe, [os.path.join(vlib.VERIF, 'harness/c04/harness.c')] + [os.path.join(snap, f) for f in ('type.c', 'targ.c', 'util.c')], incl=[snap])
        if e:
            print('unit harness does not build:', e[:500])
            return 1
        rc, real, err = runlines(hexe, ['T ' + targ, line])
        print('case :', line)
        print('real :', real[1:] if len(real) > 1 else (rc, err))
        oracle = ctx.oracle('c04')
        if oracle:
            rc2, model, err2 = runlines(oracle, [codeline('T ' + targ, sc), codeline(line, sc)])
            print('model:', model[1:])
            if len(real) > 1 and len(model) > 1 and real[1] == model[1] and real[1] != 'stop trap':
                print('real code and model agree')
                return 0
        return 1
    m = re.match(r'/\* target: (\S+)', src)
    targ = m.group(1) if m else 'x86_64-sysv'
    rc, out, err = ctx.qbe(src, target=targ)
    print('exit status', rc)
    print(out[:4000])
    print(err[:2000])
    what = path + '.what'
    if os.path.exists(what):
        print('recorded failure:', open(what).read().strip())
    # a replay still fails when the compiler rejects/crashes, or when the expected value noted in the header is not produced
    m = re.search(r'context (\S+) ; expected value (\S+) of type (\w+)', src)
    if rc != 0:
        return 1
    x = re.match(r'/\* expect: (\w+) (\w+) (\S+) \*/', src)
    if x:
        size = x.group(2) if x.group(2) in ('s', 'd') else int(x.group(2))
        val = float(x.group(3)) if size in ('s', 'd') else int(x.group(3))
        bad = check_fixed(out, [(x.group(1), size, val)])
        print('still failing:' if bad else 'now as expected', bad)
        return 1 if bad else 0
    if m:
        sc = G.SIGNEDCHAR[targ]
        t = m.group(3)
        v = float(m.group(2)) if t in ('double', 'float') else int(m.group(2))
        e = re.search(r'^%s d0 = (.*);$' % re.escape(G.CNAME[t]), src, re.M)
        if e:
            s2, exp = cli_unit([(e.group(1), t, v)], sc)
            datas, funcs = parse_il(out)
            bad = [check_expect(x, datas, funcs) for x in exp]
            bad = [b for b in bad if b]
            print('still failing:' if bad else 'now as expected', bad[:3])
            return 1 if bad else 0
    return 0
