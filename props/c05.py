# C05 - every expression is given the type C11 assigns it.   DESIGN.md section 5 (C05), notes/C05.md.
import json, os, re, sys
import vlib
from vlib import sh, txt, run_limited
sys.path.insert(0, os.path.join(vlib.VERIF, 'gen'))
import c05_tables, c05_spec as S, c05_probes as P

LEVEL = 'proof'
MODULE = 'Properties_C05'
PACK = 500
SRCS = ['attr.c', 'decl.c', 'eval.c', 'init.c', 'map.c', 'pp.c', 'scan.c', 'scope.c', 'stmt.c', 'targ.c', 'token.c',
        'tree.c', 'type.c', 'utf.c', 'util.c', 'qbe.c']


# ------------------------------------------------------------------------------- helpers
def run_lines(exe, lines, timeout=300):
    rc, out, err = run_limited([exe], input=('\n'.join(lines) + '\n').encode(), timeout=timeout, cap=512 << 20)
    return rc, out.decode('latin1').split('\n')[:-1]


def chunks(l, n):
    return [l[i:i + n] for i in range(0, len(l), n)]


def build_harness(ctx, snap):
    hexe = os.path.join(ctx.tmp, 'h05')
    e = ctx.cc(hexe, [os.path.join(vlib.VERIF, 'harness/c05/harness.c')] + [os.path.join(snap, f) for f in SRCS],
               flags='-O1 -g -Wl,--wrap=exit', incl=[snap])
    return (None, e) if e else (hexe, None)


def parse_cproc_data(il):
    return {m.group(1): int(m.group(2)) for m in re.finditer(r'^(?:export )?data \$(\w+) = align \d+ \{ w (-?\d+), \}', il, re.M)}


def cproc_packed(ctx, header, probes, target):
    """probes: list of (name, line).  -> {name: value | 'reject' | 'crash'}.  A probe the compiler refuses is
    found from the line number of the diagnostic (or by bisection when it dies without one) and dropped."""
    res = {}
    live = list(probes)
    hl = header.count('\n')
    for _ in range(60):
        if not live:
            break
        src = header + '\n'.join(l for _, l in live) + '\n'
        rc, out, err = ctx.qbe(src, target=target, timeout=20)
        if rc == 0:
            vals = parse_cproc_data(out)
            for n, _ in live:
                res[n] = vals.get(n, 'missing')
            return res
        m = re.search(r'<stdin>:(\d+):\d+: error', err)
        if m and hl < int(m.group(1)) <= hl + len(live):
            n, _ = live.pop(int(m.group(1)) - hl - 1)
            res[n] = 'reject'
            continue
        # no usable location (assert / internal error): bisect
        if os.environ.get('C05_DEBUG'):
            print('C05_DEBUG no location: rc=%s n=%d err=%r' % (rc, len(live), err[:300]), file=sys.stderr)
        if len(live) == 1:
            res[live[0][0]] = 'crash'
            live = []
            break
        mid = len(live) // 2
        res.update(cproc_packed(ctx, header, live[:mid], target))
        res.update(cproc_packed(ctx, header, live[mid:], target))
        return res
    for n, _ in live:
        res[n] = 'unresolved'
    return res


def cc_packed(kind, header, probes, triple=None):
    """second opinion: gcc (host) or clang --target; -> {name: value | 'reject'}"""
    res = {}
    live = list(probes)
    hl = header.count('\n')
    for _ in range(12):
        if not live:
            break
        src = (header + '\n'.join(l for _, l in live) + '\n').encode()
        if kind == 'clang':
            cmd = ['clang', '--target=' + triple, '-std=gnu2x', '-w', '-ferror-limit=0', '-S', '-emit-llvm', '-o', '-', '-x', 'c', '-']
        else:
            cmd = ['gcc', '-std=gnu11', '-w', '-fmax-errors=0', '-fno-common', '-S', '-o', '-', '-x', 'c', '-']
        rc, out, err = sh(cmd, input=src, timeout=120)
        if rc == 0:
            o = txt(out)
            if kind == 'clang':
                vals = {m.group(1): int(m.group(2)) for m in re.finditer(r'^@(\w+) = [^\n]*global i32 (-?\d+)', o, re.M)}
            else:
                vals = {}
                for m in re.finditer(r'^(\w+):\n\t\.(long|zero)\t(-?\d+)', o, re.M):
                    vals[m.group(1)] = int(m.group(3)) if m.group(2) == 'long' else 0
            for n, _ in live:
                res[n] = vals.get(n, 'missing')
            return res
        bad = sorted(set(int(x) for x in re.findall(r'<stdin>:(\d+):\d+: error', txt(err))), reverse=True)
        bad = [b for b in bad if hl < b <= hl + len(live)]
        if not bad:
            break
        for b in bad:
            n, _ = live.pop(b - hl - 1)
            res[n] = 'reject'
    for n, _ in live:
        res.setdefault(n, 'unresolved')
    return res


def replay_text(expect, src):
    return '// C05 %s\n%s' % (json.dumps(expect), src)


# ------------------------------------------------------------------------------- hand-written probes
# (name, source, {data name: expected value} or 'reject', key or None, gcc comparable)
HAND = [
    ('strlit-array-length', 'int a = __builtin_types_compatible_p(typeof("abc"), char[7]);\nint b = __builtin_types_compatible_p(typeof("abc"), char[4]);\n',
     {'a': 0, 'b': 1}, 'strlit-array-length'),
    ('strlit-ptr', 'char (*p)[4] = &"abc";\nint a = _Generic(&"abc", char (*)[4]: 1, default: 2), b = sizeof("abc"), c = sizeof(L"ab"), d = sizeof(u"ab"), e = sizeof(U"ab");\n',
     {'a': 1, 'b': 4, 'c': 12, 'd': 6, 'e': 12}, None),
    ('strlit-ptr-bad', 'char (*p)[7] = &"abc";\n', 'reject', 'strlit-array-length'),
    ('bitwise-float', 'int i = _Generic(1.0 | 2, default: 3);\n', 'reject', 'bitwise-float-operand'),
    ('bitwise-float2', 'double d; int f(void) { return d & 1; }\n', 'reject', 'bitwise-float-operand'),
    ('cond-char', 'int i = sizeof(1 ? (char)1 : (char)2);\nshort a, b; int j = _Generic(1 ? a : b, short: 1, int: 2);\n'
                  'struct S { unsigned f : 3; } s; int k = _Generic(1 ? s.f : s.f, unsigned: 1, int: 2);\n',
     {'i': 4, 'j': 2, 'k': 2}, 'cond-same-type-no-promotion'),
    ('assign-ptr', 'int *p; long *q; void f(void) { p = q; }\n', 'reject', 'assign-unchecked'),
    ('assign-int-ptr', 'int *p; void f(void) { p = 5; }\n', 'reject', 'assign-unchecked'),
    ('assign-struct-int', 'struct S { int x; } s; void f(void) { int r; r = s; }\n', 'reject', 'assign-unchecked'),
    ('assign-ok', 'int *p; const int *q; void *v; long l; void f(void) { q = p; v = p; p = v; p = 0; l = 1.5; p = (void *)0; }\nint a = 1;\n', {'a': 1}, None),
    ('init-ptr-bad', 'long *q; void f(void) { int *r = q; }\n', 'reject', None),
    ('init-qual-bad', 'const int *q; void f(void) { int *r = q; }\n', 'reject', None),
    ('ret-ptr-bad', 'long *q; int *f(void) { return q; }\n', 'reject', None),
    ('arg-ptr-bad', 'long *q; void g(int *); void f(void) { g(q); }\n', 'reject', None),
    # enumeration constants keep type int whenever every enumerator fits in int (boundaries of the underlying-type choice)
    ('enum-const-intmax', 'enum A { a0, a1 = 0x7fffffff }; enum B { b0 = 0x7ffffffe }; enum C { c0 = -1, c1 = 0x7fffffff }; enum D { d0 = -0x7fffffff - 1 };\n'
                          'int ka = _Generic(a1, int: 1, unsigned: 2, long: 3, unsigned long: 4, default: 9), kb = _Generic(b0, int: 1, unsigned: 2, default: 9),\n'
                          '    kc = _Generic(c1, int: 1, unsigned: 2, default: 9), kd = _Generic(d0, int: 1, unsigned: 2, long: 3, default: 9),\n'
                          '    na = a0 - 1 < 0, nb = b0 - 0x7fffffff < 0, ta = __builtin_types_compatible_p(enum A, unsigned), tc = __builtin_types_compatible_p(enum C, int),\n'
                          '    sa = sizeof(enum A), sd = sizeof(d0);\n',
     {'ka': 1, 'kb': 1, 'kc': 1, 'kd': 1, 'na': 1, 'nb': 1, 'ta': 1, 'tc': 1, 'sa': 4, 'sd': 4}, None),
    ('sizeof-plus-bitfield', 'struct S { int f : 7; } s; int a = sizeof(+s.f);\n', {'a': 4}, 'sizeof-unary-plus-bitfield'),
    ('suffix-lL', 'long long k = 1lL;\n', 'reject', 'int-suffix-lL'),
    ('suffix-bad', 'int k = 1uu;\n', 'reject', None),
    ('enum-llong', 'enum E : long long { A }; enum E e; unsigned long u; int i = _Generic(u + e, unsigned long long: 1, default: 2);\n',
     {'i': 1}, 'enum-llong-common-type'),
    ('npc-qualified-void', 'int i = _Generic(1 ? (const void *)0 : (int *)0, int *: 1, const void *: 2);\n', {'i': 2}, 'npc-qualified-void'),
    ('funcptr-voidptr', 'void *p; void f(void) { void (*h)(void) = p; }\n', 'reject', 'assign-funcptr-voidptr'),
    ('cond-ptr', 'const int *cp; int *p; volatile int *vp; void *v; const void *cv; long *lp;\n'
                 'int a = _Generic(1 ? cp : p, const int *: 1, int *: 2, default: 0);\n'
                 'int b = _Generic(1 ? vp : cp, const volatile int *: 1, default: 0);\n'
                 'int c = _Generic(1 ? p : v, void *: 1, int *: 2, default: 0);\n'
                 'int d = _Generic(1 ? cv : p, const void *: 1, default: 0);\n'
                 'int e = _Generic(1 ? p : 0, int *: 1, default: 0);\n'
                 'int f = _Generic(1 ? (void *)0 : cp, const int *: 1, default: 0);\n'
                 'int g = _Generic(1 ? v : cp, const void *: 1, default: 0);\n',
     {'a': 1, 'b': 1, 'c': 1, 'd': 1, 'e': 1, 'f': 1, 'g': 1}, None),
    # array-to-pointer conversion keeps the qualifiers an array inherits from its containing object or from a typedef
    ('decay-qual', 'struct S { int a[2]; struct { char name[4]; } in; union { short ua[2]; } u; int m[3][2]; }; const struct S cs; const struct S *pcs; volatile struct S vs; typedef int T[2]; const T ct;\n'
                   'int a = _Generic(cs.a, const int *: 1, int *: 2, default: 0), b = _Generic(pcs->a, const int *: 1, int *: 2, default: 0), c = _Generic(cs.in.name, const char *: 1, char *: 2, default: 0),\n'
                   '    d = _Generic(cs.u.ua, const short *: 1, short *: 2, default: 0), e = _Generic(vs.a, volatile int *: 1, int *: 2, default: 0), f = _Generic(ct, const int *: 1, int *: 2, default: 0),\n'
                   '    g = _Generic(cs.m[1], const int *: 1, int *: 2, default: 0), h = _Generic((const T){1, 2}, const int *: 1, int *: 2, default: 0);\n',
     {'a': 1, 'b': 1, 'c': 1, 'd': 1, 'e': 1, 'f': 1, 'g': 1, 'h': 1}, None),
    # a bit-field member inherits the qualifiers of the object it is reached through (6.5.2.3p3); the rejected
    # modifications show it (typeof of a bit-field is rejected by gcc and clang, so it cannot be validated)
    ('bitfield-qual-bad1', 'struct B { unsigned x : 3; int y : 5; }; const struct B cb; void f(void) { cb.x = 1; }\n', 'reject', None),
    ('bitfield-qual-bad2', 'struct B { unsigned x : 3; int y : 5; }; const struct B cb; void f(void) { cb.x++; }\n', 'reject', None),
    ('bitfield-qual-bad3', 'struct B { unsigned x : 3; int y : 5; }; const struct B *pcb; void f(void) { --pcb->x; }\n', 'reject', None),
    ('bitfield-qual-bad4', 'struct B { unsigned x : 3; int y : 5; }; const struct B *pcb; void f(void) { pcb->y += 2; }\n', 'reject', None),
    ('bitfield-qual-ok', 'struct B { unsigned x : 3; int y : 5; }; struct B nb, *pb; void f(void) { nb.x = 1; nb.y++; --pb->x; pb->y += 2; }\nint a = 1;\n', {'a': 1}, None),
    # the type of a concatenated string literal is decided by the prefixed part wherever it stands (6.4.5p5)
    ('strlit-concat-prefix', 'int a = sizeof(L"ab" "c"), b = sizeof("ab" L"c"), c = sizeof(u"a" "b" "c"), d = sizeof("a" "b" U"c"), e = sizeof(U"a" "b"),\n'
                             '    f = _Generic(u"ab" "c", unsigned short *: 1, char *: 2, default: 0), g = _Generic("ab" U"c", unsigned *: 1, char *: 2, default: 0),\n'
                             '    h = sizeof(L"a" "b" L"c"), i = sizeof("a" "b");\n',
     {'a': 16, 'b': 16, 'c': 8, 'd': 16, 'e': 12, 'f': 1, 'g': 1, 'h': 16, 'i': 3}, None),
    # a string literal initialises an array only if the element types agree (6.7.9p14-15): same width is not enough
    ('strinit-bad1', 'short a[] = u"ab";\n', 'reject', None),
    ('strinit-bad2', 'int a[] = U"ab";\n', 'reject', None),
    ('strinit-bad3', '_Bool a[] = "ab";\n', 'reject', None),
    ('strinit-bad4', 'unsigned short a[] = U"ab";\n', 'reject', None),
    ('strinit-bad5', 'char a[] = u"ab";\n', 'reject', None),
    ('strinit-bad6', 'float a[] = U"ab";\n', 'reject', None),
    ('strinit-ok', 'unsigned short a[] = u"ab"; unsigned b[] = U"ab"; unsigned char c[] = "ab"; signed char d[] = "ab"; char e[] = u8"ab"; unsigned char f[] = u8"ab"; const unsigned short g[3] = u"ab";\nint k = sizeof a + sizeof b + sizeof c;\n', {'k': 21}, None),
    ('tag-shadow-bad1', 'struct S { int a; } g; void f(void) { struct S { float a; } *p; p = &g; }\n', 'reject', None),
    ('tag-shadow-bad2', 'struct S { int a; } g; void h(struct S *); void f(void) { struct S { int a; } l; h(&l); }\n', 'reject', None),
    # a bit-field of a union promotes by its own width, whatever the size of the other members
    ('union-bitfield-promotion', 'union U2 { long l; unsigned a : 31; unsigned short h : 15; unsigned w : 32; long long q : 33; } u2;\n'
                                 'int k = _Generic(+u2.a, int: 1, unsigned: 2, default: 0), m = _Generic(+u2.h, int: 1, unsigned: 2, default: 0), n = _Generic(+u2.w, int: 1, unsigned: 2, default: 0),\n'
                                 '    o = _Generic(u2.a + 0, int: 1, unsigned: 2, default: 0), p = sizeof(+u2.h);\n',
     {'k': 1, 'm': 1, 'n': 2, 'o': 1, 'p': 4}, None),
    # every order of the type specifier multisets of 6.7.2p2 that have three and four keywords
    ('specifier-orders', 'int a = _Generic((unsigned short int)0, unsigned short: 1, default: 0), b = _Generic((short unsigned int)0, unsigned short: 1, default: 0), c = _Generic((int short unsigned)0, unsigned short: 1, default: 0),\n'
                         '    d = _Generic((int unsigned short)0, unsigned short: 1, default: 0), e = _Generic((signed short int)0, short: 1, default: 0), f = _Generic((long unsigned int long)0, unsigned long long: 1, default: 0),\n'
                         '    g = _Generic((int long signed long)0, long long: 1, default: 0), h = _Generic((long int unsigned)0, unsigned long: 1, default: 0), i = _Generic((signed int long)0, long: 1, default: 0),\n'
                         '    j = sizeof(unsigned short int), k = sizeof(short int), l = sizeof(long int signed), m = sizeof(int short signed), n = _Generic((double long)0, long double: 1, default: 0), o = _Generic((char unsigned)0, unsigned char: 1, default: 0);\n',
     {'a': 1, 'b': 1, 'c': 1, 'd': 1, 'e': 1, 'f': 1, 'g': 1, 'h': 1, 'i': 1, 'j': 2, 'k': 2, 'l': 8, 'm': 2, 'n': 1, 'o': 1}, None),
    # the comma operator has the type of its LAST operand, however many operands there are
    ('comma-type', 'char c; int i; long l; double d;\nint a = _Generic((c, i, l, d), double: 1, default: 0), b = sizeof (d, c, i), e = _Generic((d, c), char: 1, default: 0), f = sizeof((c, l, c)), g = sizeof (c, d, l, i, d);\n',
     {'a': 1, 'b': 4, 'e': 1, 'f': 1, 'g': 8}, None),
    ('decay-qual-bad1', 'struct S { int a[2]; }; const struct S cs; void f(void) { int *p = cs.a; }\n', 'reject', None),
    ('decay-qual-bad2', 'typedef int T[2]; const T ct; void g(int *); void f(void) { g(ct); }\n', 'reject', None),
    ('decay-qual-ok', 'struct S { int a[2]; }; const struct S cs; struct S s; void g(const int *); void f(void) { const int *p = cs.a; int *q = s.a; g(cs.a); g(q); }\nint a = 1;\n', {'a': 1}, None),
    ('cond-ptr-bad', 'int *p; long *lp; int a = sizeof(1 ? p : lp);\n', 'reject', None),
    ('cond-struct', 'struct S { int x; } s, t; struct T { int x; } u; int a = _Generic(1 ? s : t, struct S: 1, default: 0);\n', {'a': 1}, None),
    ('cond-struct-bad', 'struct S { int x; } s; struct T { int x; } u; int a = sizeof(1 ? s : u);\n', 'reject', None),
    ('ptr-arith', 'int *p; const char *s; int arr[5]; long l; unsigned char uc;\n'
                  'int a = _Generic(p + 1, int *: 1, default: 0), b = _Generic(1 + p, int *: 1, default: 0), c = _Generic(p - uc, int *: 1, default: 0);\n'
                  'int d = _Generic(p - p, long: 1, default: 0), e = _Generic(s + l, const char *: 1, default: 0), f = _Generic(arr + 1, int *: 1, default: 0);\n'
                  'int g = _Generic(&arr, int (*)[5]: 1, default: 0), h = _Generic(&arr[1] - arr, long: 1, default: 0), i = _Generic(*p, int: 1, default: 0);\n'
                  'int j = _Generic(p[1], int: 1, default: 0), k = _Generic(arr, int *: 1, default: 0), l2 = sizeof(arr), m = _Generic(p == 0, int: 1, default: 0), n = _Generic(p < p, int: 1, default: 0);\n',
     {'a': 1, 'b': 1, 'c': 1, 'd': 1, 'e': 1, 'f': 1, 'g': 1, 'h': 1, 'i': 1, 'j': 1, 'k': 1, 'l2': 20, 'm': 1, 'n': 1}, None),
    ('ptr-arith-bad1', 'int *p; int a = sizeof(1 - p);\n', 'reject', None),
    ('ptr-arith-bad2', 'int *p; int a = sizeof(p + p);\n', 'reject', None),
    ('ptr-arith-bad3', 'int *p; int a = sizeof(p + 1.0);\n', 'reject', None),
    ('ptr-arith-bad4', 'void *p; int f(void); int a = sizeof(p - (long *)0);\n', 'reject', None),
    ('ptr-arith-bad5', 'int *p; long *q; int a = sizeof(p - q);\n', 'reject', None),
    ('ptr-arith-bad6', 'int *p; long *q; int a = sizeof(p < q);\n', 'reject', None),
    ('ptr-arith-bad7', 'int *p; long *q; int a = sizeof(p == q);\n', 'reject', None),
    ('ptr-arith-bad8', 'struct S { int x; } s; int a = sizeof(s + 1);\n', 'reject', None),
    ('ptr-arith-bad9', 'int *p; int a = sizeof(p * 2);\n', 'reject', None),
    ('sizeof-type', 'int a = _Generic(sizeof(int), unsigned long: 1, default: 0), b = _Generic(_Alignof(int), unsigned long: 1, default: 0);\n'
                    'struct S { char c; int x; }; int c = _Generic(__builtin_offsetof(struct S, x), unsigned long: 1, default: 0);\n'
                    'int d = sizeof(sizeof(char)), e = sizeof(int[3]), f = _Alignof(long double), g = sizeof(long double), h = sizeof(_Bool);\n',
     {'a': 1, 'b': 1, 'c': 1, 'd': 8, 'e': 12, 'f': 16, 'g': 16, 'h': 1}, None),
    ('member-qual', 'struct S { int x; const int y; int a[2]; }; const struct S cs; struct S s; volatile struct S *vp;\n'
                    'int a = _Generic(&cs.x, const int *: 1, default: 0), b = _Generic(&s.y, const int *: 1, default: 0), c = _Generic(&s.x, int *: 1, default: 0);\n'
                    'int d = _Generic(&vp->x, volatile int *: 1, default: 0), e = _Generic(&vp->y, const volatile int *: 1, default: 0);\n'
                    'int f = _Generic(s.a, int *: 1, default: 0), g = _Generic(&s.a, int (*)[2]: 1, default: 0);\n',
     {'a': 1, 'b': 1, 'c': 1, 'd': 1, 'e': 1, 'f': 1, 'g': 1}, None),
    ('call-cast-assign', 'short fs(void); char *fp(int, ...); void fv(void); int (*pf)(int); short sh; unsigned char uc; float fl;\n'
                         'int a = _Generic(fs(), short: 1, default: 0), b = _Generic(fp(1, 2), char *: 1, default: 0), c = _Generic(pf(1), int: 1, default: 0);\n'
                         'int d = _Generic((*pf)(1), int: 1, default: 0), e = _Generic(fs, short (*)(void): 1, default: 0), f = _Generic(&fs, short (*)(void): 1, default: 0);\n'
                         'int g = _Generic((short)1, short: 1, default: 0), h = _Generic((unsigned char)1.5, unsigned char: 1, default: 0);\n'
                         'int i = _Generic(sh = 1L, short: 1, default: 0), j = _Generic(uc += 1.0, unsigned char: 1, default: 0), k = _Generic(sh++, short: 1, default: 0);\n'
                         'int l = _Generic(--uc, unsigned char: 1, default: 0), m = _Generic((sh, uc), unsigned char: 1, default: 0), n = _Generic(fl = 1, float: 1, default: 0);\n'
                         'int o = _Generic(*fs, short (*)(void): 1, default: 0), q = _Generic(sh <<= 40L, short: 1, default: 0);\n',
     {'a': 1, 'b': 1, 'c': 1, 'd': 1, 'e': 1, 'f': 1, 'g': 1, 'h': 1, 'i': 1, 'j': 1, 'k': 1, 'l': 1, 'm': 1, 'n': 1, 'o': 1, 'q': 1}, None),
    ('enum-const', 'enum E { A, B = -1, C = 0x7fffffff }; enum U { D, F = 5 };\n'
                   'int a = _Generic(A, int: 1, default: 0), b = _Generic(C, int: 1, default: 0), c = _Generic((enum E)0, int: 1, unsigned: 2, default: 0);\n'
                   'int d = _Generic((enum U)0, int: 1, unsigned: 2, default: 0), e = sizeof(enum E), f = _Generic(D, int: 1, default: 0);\n'
                   'int g = __builtin_types_compatible_p(enum E, int), h = __builtin_types_compatible_p(enum U, unsigned), i = __builtin_types_compatible_p(enum E, enum U);\n'
                   'int j = _Generic((enum U)0 + 0, unsigned: 2, int: 1, default: 0), k = _Generic(+(enum E)0, int: 1, default: 0);\n',
     {'a': 1, 'b': 1, 'c': 1, 'd': 2, 'e': 4, 'f': 1, 'g': 1, 'h': 1, 'i': 0, 'j': 2, 'k': 1}, None),
    ('enum-big', 'enum L { LA = 0x100000000, LB = -1 }; enum UL { UA = 0x100000000 };\n'
                 'int a = sizeof(enum L), b = _Generic((enum L)0, long: 1, default: 0), c = _Generic((enum UL)0, unsigned long: 1, default: 0), d = sizeof(LA);\n',
     {'a': 8, 'b': 1, 'c': 1, 'd': 8}, None),
    ('generic-rules', 'const int ci; int arr[3]; int fn(void);\n'
                      'int a = _Generic(ci, int: 1, default: 0), b = _Generic(arr, int *: 1, default: 0), c = _Generic(fn, int (*)(void): 1, default: 0);\n'
                      'int d = _Generic((const int)1, int: 1, default: 0), e = _Generic("a", char *: 1, default: 0), f = _Generic(&ci, const int *: 1, int *: 2, default: 0);\n',
     {'a': 1, 'b': 1, 'c': 1, 'd': 1, 'e': 1, 'f': 1}, None),
    ('generic-dup', 'enum E { A }; int a = _Generic(1u, unsigned: 1, enum E: 2);\n', 'reject', None),
    ('redecl-ok', 'extern int x[]; extern int x[3]; int f(int, char *); int f(const int a, char *const p); extern int (*g)(int[3]); extern int (*g)(int *);\nint a = sizeof(x);\n', {'a': 12}, None),
    ('redecl-bad1', 'extern int x[4]; extern int x[3];\n', 'reject', None),
    ('redecl-bad2', 'int f(int); int f(long);\n', 'reject', None),
    ('redecl-bad3', 'int f(int); int f(int, ...);\n', 'reject', None),
    ('redecl-bad4', 'extern char c; extern signed char c;\n', 'reject', None),
    ('redecl-bad5', 'extern const int *p; extern int *p;\n', 'reject', None),
    ('unary-bad1', 'int *p; int a = sizeof(-p);\n', 'reject', None),
    ('unary-bad2', 'int a = sizeof(~1.0);\n', 'reject', None),
    ('unary-bad3', 'struct S { int x; } s; int a = sizeof(!s);\n', 'reject', None),
    ('logical', 'int *p; double d; int a = _Generic(p && d, int: 1, default: 0), b = _Generic(!p, int: 1, default: 0), c = _Generic(d || 1, int: 1, default: 0);\n', {'a': 1, 'b': 1, 'c': 1}, None),
    ('shift-type', 'long l; unsigned char uc; int a = _Generic(uc << l, int: 1, default: 0), b = _Generic(l >> uc, long: 1, default: 0), c = _Generic(1u << 40L, unsigned: 1, default: 0);\n', {'a': 1, 'b': 1, 'c': 1}, None),
]
# deliberate C23 readings (DESIGN.md): f() is f(void); u8"..." has element type unsigned char
C23 = [
    # typeof_unqual of an array expression is the array type (no decay), like typeof
    ('c23-typeof-unqual-array', 'const short arr[7]; char g2[3][5]; struct M { typeof_unqual(arr) a; char c; typeof_unqual(g2[1]) r; typeof_unqual("abc") s; };\n'
                                'int a = sizeof(typeof_unqual(arr)), b = sizeof(typeof_unqual(g2[1])), c = sizeof(typeof_unqual("abcd")), d = sizeof(struct M), e = sizeof(typeof(arr));\n',
     {'a': 14, 'b': 5, 'c': 5, 'd': 24, 'e': 14}),
    ('c23-empty-params', 'int a = __builtin_types_compatible_p(int (*)(), int (*)(void)), b = __builtin_types_compatible_p(int (*)(), int (*)(int));\n', {'a': 1, 'b': 0}),
    ('c23-u8', 'int a = _Generic(u8"a", unsigned char *: 1, char *: 2, default: 0), b = _Generic(u8\'a\', unsigned char: 1, default: 0);\n', {'a': 1, 'b': 1}),
    ('c23-bool-nullptr', 'int a = _Generic(true, _Bool: 1, default: 0), b = sizeof(nullptr), c = _Generic(1 ? nullptr : (int *)0, int *: 1, default: 0);\n', {'a': 1, 'b': 8, 'c': 1}),
]


def run_hand(ctx, name, src, expect, key, targets, stats, what_prefix=''):
    bad = []
    for tg in targets:
        rc, out, err = ctx.qbe(src, target=tg, timeout=10)
        stats['cli_probes'] += 1
        if expect == 'reject':
            ok = rc != 0 and 'error' in err and 'internal error' not in err
            got = 'accepted' if rc == 0 else err.strip()[:120]
        else:
            vals = parse_cproc_data(out) if rc == 0 else {}
            ok = rc == 0 and all(vals.get(k) == v for k, v in expect.items())
            got = {k: vals.get(k) for k in expect} if rc == 0 else 'rejected: ' + err.strip()[:120]
        if not ok:
            bad.append((tg, got))
    if bad:
        ctx.violation('%s%s: on %s got %s, C11 expects %s' % (what_prefix, name, bad[0][0], bad[0][1], expect),
                      replay_text({'expect': expect, 'target': bad[0][0]}, src), 'c', key=key or ('cli-hand:' + name))
    return not bad


# ------------------------------------------------------------------------------- K-unit
def k_unit(ctx, snap, oracle, stats, samples, nontrivial):
    thorough = ctx.tier == 'thorough'
    hexe, e = build_harness(ctx, snap)
    if e:
        ctx.broken('correspondence', 'c05 unit harness does not build against the snapshot (expr.c/type.c interface changed)', e)
        return
    cases = P.unit_cases(ctx.rng, thorough)
    parts = chunks(cases, max(2000, len(cases) // (vlib.NCPU * 2) + 1))

    def one(part):
        lines = [c['line'] for c in part]
        r1, real = run_lines(hexe, lines)
        r2, model = run_lines(oracle, lines, timeout=900)
        return part, r1, real, r2, model
    ndev = {}
    drift = []
    viol = []
    for part, r1, real, r2, model in vlib.parallel_map(one, parts):
        if r1 != 0 or r2 != 0 or len(real) != len(part) or len(model) != len(part):
            ctx.broken('correspondence', 'c05 unit harness/oracle run failed',
                       'harness rc=%s (%d answers) oracle rc=%s (%d answers) for %d cases; first line %s'
                       % (r1, len(real), r2, len(model), len(part), part[0]['line']))
            continue
        for c, a, m in zip(part, real, model):
            stats['unit_cases'] += 1
            stats['unit_' + c['kind']] = stats.get('unit_' + c['kind'], 0) + 1
            sp = P.unit_spec(c)
            if a not in ('B6', 'none', '0', '1'):
                nontrivial.add(c['line'])
            if a != m:
                # no opinion of the specification (out-of-domain input, helper without a C11 rule of its own),
                # or the code still meets it: model drift; the code contradicts the specification: violation
                if sp is None or P.unit_same(a, sp):
                    drift.append((c['line'], a, m, sp))
                else:
                    viol.append((c['line'], a, m, sp))
            elif sp is not None and not P.unit_same(a, sp):
                k = P.known_unit_deviation(c, a)
                if k:
                    ndev[k] = ndev.get(k, 0) + 1
                else:
                    drift.append((c['line'], a, m, sp))
        if len(samples) < 3:
            samples.append({'unit': part[len(part) // 2]['line'], 'real': real[len(part) // 2], 'model': model[len(part) // 2]})
    stats['unit_known_deviation_classes'] = ndev
    for line, a, m, sp in viol[:3]:
        ctx.violation('unit: real code answers %s, model %s, specification %s for `%s`' % (a, m, sp, line),
                      line + '\n', 'cmd', key='unit:' + line.split()[0])
    if drift:
        ctx.broken('correspondence', 'Types model vs type.c/expr.c (unit level)',
                   '%d cases; first: `%s` real=%s model=%s spec=%s' % ((len(drift),) + drift[0]))
    ctx.ob('K-unit:type.c/expr.c answer-exact vs extracted model (%d cases)' % stats['unit_cases'], not drift and not viol)


# ------------------------------------------------------------------------------- K-CLI
def operand_type(o):
    if o['enum']:
        i = [t for t, _, _, _ in P.CLI_ENUMS].index(o['enum']) + 10
        return ('E', i, o['b'])
    return ('B', o['b'])


def strip_array_quals(t):
    if t[0] == 'A':
        return ('A', 0, t[2], strip_array_quals(t[3]))
    return t


def enum_under_qual(a, b, q):
    if a[0] != b[0]:
        return q != 0 and {a[0], b[0]} == {'E', 'B'}
    k = a[0]
    if k == 'P':
        return enum_under_qual(a[2], b[2], a[1] | b[1])
    if k == 'A':
        return enum_under_qual(a[3], b[3], a[1] | b[1])
    if k == 'F':
        return enum_under_qual(a[4], b[4], a[1] | b[1]) or any(enum_under_qual(x, y, 0) for x, y in zip(a[3], b[3]))
    return False


def model_line(meta, tgi):
    w = lambda o: o['w'] if o['w'] is not None else S.NOWIDTH
    c = meta['cls']
    if c == 'binop':
        return 'binop %d %d %d - %d - %s %s' % (tgi, meta['op'], w(meta['a']), w(meta['b']), S.tok(operand_type(meta['a'])), S.tok(operand_type(meta['b'])))
    if c == 'cond':
        return 'cond %d %d - %d - %s %s' % (tgi, w(meta['a']), w(meta['b']), S.tok(operand_type(meta['a'])), S.tok(operand_type(meta['b'])))
    if c == 'unop':
        return 'unop %d %d %d %s' % (tgi, meta['u'], w(meta['a']), S.tok(operand_type(meta['a'])))
    return None


def k_cli(ctx, snap, oracle, stats, samples, nontrivial):
    thorough = ctx.tier == 'thorough'
    rng = ctx.rng
    cat = P.Catalogue()
    names = c05_tables.names(snap)
    if names != S.TARGETS:
        ctx.broken('table', 'target names', 'alltargs names %r, expected %r' % (names, S.TARGETS))
        return
    jobs = []          # (tgi, header, [(name, line)], {name: (expected value, meta, gcc_ok, text)})
    singles = []       # (tgi, src, meta, text)   probes the specification rejects
    for tgi in range(3):
        abi = S.ABIS[tgi]
        probes = P.cli_arith_probes(cat, rng, thorough, abi)
        # random nesting
        for _ in range(3000 if not thorough else 20000):
            e = P.rand_expr(rng, cat, abi, rng.choice([2, 3, 3, 4]))
            # the type of a bare bit-field designator is the declared type; gcc has its own idea for non-int ones
            probes.append((e[0], e[1], e[3] and not re.match(r'^bf\.\w+$', e[0]), dict(cls='nest')))
        for t, b, meta in P.literal_probes(abi):
            probes.append((t, b, meta.get('base') != 'b', meta))
        valid = []
        for text, b, gcc_ok, meta in probes:
            if b is None:
                singles.append((tgi, cat.header() + 'int k0 = sizeof(%s);\n' % text, meta, text))
            else:
                valid.append((text, b, gcc_ok, meta))
        items = []
        for i, (text, b, gcc_ok, meta) in enumerate(valid):
            items.append(('k%d' % i, P.probe_generic(i, text), P.GENERIC_INDEX[b], meta, gcc_ok, text))
            if i % 5 == 0:
                if not re.match(r'^\(*bf\.\w+\)*$', text):      # sizeof of a bare bit-field is a constraint violation
                    items.append(('z%d' % i, 'int z%d = sizeof(%s);' % (i, text), S.BITS[b] // 8, meta, gcc_ok, text))
            if i % 11 == 0 and not re.match(r'^\(*bf\.\w+\)*$', text):      # typeof(bit-field) is itself a constraint violation
                other = S.INT if b != S.INT else S.LONG
                items.append(('c%d' % i, 'int c%d = __builtin_types_compatible_p(typeof(%s), %s) * 2 + __builtin_types_compatible_p(typeof(%s), %s);'
                              % (i, text, S.BASICS[b], text, S.BASICS[other]), 2, meta, gcc_ok, text))
        for part in chunks(items, PACK):
            jobs.append((tgi, part))

    hdr = cat.header()
    ghdr = cat.header(for_gcc=True)

    def one(job):
        tgi, part = job
        real = cproc_packed(ctx, hdr, [(n, l) for n, l, _, _, _, _ in part], S.TARGETS[tgi])
        cl = cc_packed('clang', hdr, [(n, l) for n, l, _, _, _, _ in part], S.CLANG_TRIPLES[tgi])
        gc = {}
        if tgi == 0:
            gc = cc_packed('gcc', ghdr, [(n, l) for n, l, _, _, g, _ in part if g])
        lines = [(n, model_line(m, tgi)) for n, l, _, m, _, _ in part if n[0] == 'k' and model_line(m, tgi)]
        rc, mo = run_lines(oracle, [l for _, l in lines]) if lines else (0, [])
        return job, real, cl, gc, dict(zip([n for n, _ in lines], mo))
    sval = dict(clang=0, gcc=0, clang_bad=[], gcc_bad=[])
    devs = {}
    drift = []
    for (tgi, part), real, cl, gc, mo in vlib.parallel_map(one, jobs):
        stats['cli_units'] += 1
        for n, line, want, meta, gcc_ok, text in part:
            stats['cli_probes'] += 1
            got = real.get(n)
            cls = meta.get('cls')
            stats['cli_' + cls] = stats.get('cli_' + cls, 0) + 1
            if want not in (1, 4, 2):
                nontrivial.add((tgi, text))
            # second opinions on the specification
            if n in cl:
                sval['clang'] += 1
                if cl[n] != want:
                    sval['clang_bad'].append((S.TARGETS[tgi], line, cl[n], want))
            if n in gc:
                sval['gcc'] += 1
                if gc[n] != want:
                    sval['gcc_bad'].append((line, gc[n], want))
            if got != want:
                k = P.known_cli_deviation(meta)
                devs.setdefault(k or ('cli-type:' + cls), []).append((tgi, line, got, want))
            elif n in mo:
                mt = S.parse_tok(mo[n]) if mo[n] != 'none' else None
                mb = S.erase(mt) if mt else None
                if mb is None or P.GENERIC_INDEX[mb] != want:
                    drift.append((S.TARGETS[tgi], text, mo[n], want))
        if len(samples) < 6:
            samples.append({'cli': part[len(part) // 3][1], 'target': S.TARGETS[tgi], 'got': real.get(part[len(part) // 3][0])})
    for k, l in devs.items():
        tgi, line, got, want = l[0]
        src = hdr + line + '\n'
        nm = line.split()[1]
        ctx.violation('expression typed wrongly (%d probes of this class): `%s` gives %s on %s, C11 gives %s'
                      % (len(l), line[:150], got, S.TARGETS[tgi], want),
                      replay_text({'expect': {nm: want}, 'target': S.TARGETS[tgi]}, src), 'c', key=k)
    stats['cli_deviation_classes'] = {k: len(v) for k, v in devs.items()}
    if os.environ.get('C05_DEBUG'):
        import collections
        for k, l in devs.items():
            print('C05_DEBUG dev', k, collections.Counter((t, str(g)) for t, _, g, _ in l).most_common(6), file=sys.stderr)
    if drift:
        ctx.broken('correspondence', 'Types model vs compiler (CLI level)', '%d probes; first %r' % (len(drift), drift[0]))

    # probes the specification rejects: one per run
    def sone(s):
        tgi, src, meta, text = s
        rc, out, err = ctx.qbe(src, target=S.TARGETS[tgi], timeout=10)
        return s, rc, err
    if not thorough:
        singles = [s for s in singles if s[2].get('cls') != 'binop' or (s[2]['a']['w'] is None and s[2]['b']['w'] is None)]
    acc = {}
    for (tgi, src, meta, text), rc, err in vlib.parallel_map(sone, singles):
        stats['cli_probes'] += 1
        stats['cli_reject_expected'] = stats.get('cli_reject_expected', 0) + 1
        if rc == 0:
            k = P.known_cli_deviation(meta) or ('cli-accepts:' + meta.get('cls', '?'))
            acc.setdefault(k, []).append((tgi, src, text))
    for k, l in acc.items():
        tgi, src, text = l[0]
        ctx.violation('constraint violation accepted (%d probes of this class): `%s` on %s' % (len(l), text, S.TARGETS[tgi]),
                      replay_text({'expect': 'reject', 'target': S.TARGETS[tgi]}, src), 'c', key=k)

    # ---- compatibility of random derived-type pairs
    npairs = 1500 if not thorough else 20000
    pairs = []
    while len(pairs) < npairs:
        a = P.rand_type(rng, 3)
        b = P.mutate(rng, a) if rng.random() < 0.7 else P.rand_type(rng, 3)
        if rng.random() < 0.1:
            b = a
        if 'N' in S.tok(a).split() or 'N' in S.tok(b).split():
            continue
        a, b = P.norm(a), P.norm(b)
        # __builtin_types_compatible_p ignores top-level qualifiers; those of an array element count as such for gcc/clang
        pairs.append((strip_array_quals(a), strip_array_quals(b)))
    pre = '\n'.join(S.prelude([t for p in pairs for t in p])) + '\n'
    items = [('c%d' % i, 'int c%d = __builtin_types_compatible_p(%s, %s);' % (i, S.ctype(a), S.ctype(b)), int(S.compatible(a, b)), (a, b))
             for i, (a, b) in enumerate(pairs)]

    def cone(part):
        pl = [(n, l) for n, l, _, _ in part]
        real = cproc_packed(ctx, pre, pl, S.TARGETS[0])
        cl = cc_packed('clang', pre, pl, S.CLANG_TRIPLES[0])
        rc, mo = run_lines(oracle, ['compat %s %s' % (S.tok(a), S.tok(b)) for _, _, _, (a, b) in part])
        return part, real, cl, mo
    cbad = []
    ncompat = 0
    for part, real, cl, mo in vlib.parallel_map(cone, chunks(items, PACK)):
        stats['cli_units'] += 1
        for (n, line, want, (a, b)), m in zip(part, mo):
            stats['cli_probes'] += 1
            stats['cli_compat'] = stats.get('cli_compat', 0) + 1
            ncompat += want
            nontrivial.add(line)
            # gcc and clang do not see `const enum E` ~ `const long` (they compare the qualified type with the
            # unqualified underlying type); 6.7.3p10 makes them compatible: not used as a second opinion there
            if n in cl and not enum_under_qual(a, b, 0):
                sval['clang'] += 1
                if cl[n] != want:
                    sval['clang_bad'].append((S.TARGETS[0], line, cl[n], want))
            if real.get(n) != want:
                cbad.append((line, real.get(n), want))
            elif m != str(want):
                drift.append(('compat', line, m, want))
    stats['cli_compat_true'] = ncompat
    if cbad:
        line, got, want = cbad[0]
        ctx.violation('compatibility judged wrongly (%d pairs): `%s` gives %s, 6.2.7 gives %s' % (len(cbad), line, got, want),
                      replay_text({'expect': {line.split()[1]: want}, 'target': S.TARGETS[0]}, pre + line + '\n'), 'c', key='cli-compat')
    # redeclaration and pointer-initialisation checks must agree with the same judgement
    rd = []
    for i, (a, b) in enumerate(pairs[:250 if not thorough else 3000]):
        if a[0] == 'V' or b[0] == 'V':
            continue
        want = S.compatible(a, b)
        rd.append(('redecl', pre + 'extern %s;\nextern %s;\n' % (S.ctype(a, 'r'), S.ctype(b, 'r')), want))
        pa, pb = ('P', 0, a), ('P', 0, b)
        rd.append(('ptrinit', pre + 'extern %s;\nvoid f(void) { %s = p; }\n' % (S.ctype(pa, 'p'), S.ctype(pb, 'q')), want))

    def rone(x):
        kind, src, want = x
        rc, out, err = ctx.qbe(src, timeout=10)
        return x, rc, err
    rbad = {}
    for (kind, src, want), rc, err in vlib.parallel_map(rone, rd):
        stats['cli_probes'] += 1
        stats['cli_' + kind] = stats.get('cli_' + kind, 0) + 1
        if (rc == 0) != want:
            rbad.setdefault(kind, []).append((src, rc, want))
    for kind, l in rbad.items():
        src, rc, want = l[0]
        ctx.violation('%s check disagrees with 6.2.7 compatibility (%d cases): %s although the types are %scompatible'
                      % (kind, len(l), 'accepted' if rc == 0 else 'rejected', '' if want else 'in'),
                      replay_text({'expect': 'accept' if want else 'reject', 'target': S.TARGETS[0]}, src), 'c', key='cli-' + kind)

    # ---- hand-written probes (known defects, operators on pointers, members, calls, casts, enums...)
    for name, src, expect, key in HAND:
        run_hand(ctx, name, src, expect, key, S.TARGETS, stats)
        nontrivial.add(name)
        if expect != 'reject' and key is None:
            # the expectation itself is checked against gcc and clang
            for kind in ('gcc', 'clang'):
                lines = [(str(i), l) for i, l in enumerate(src.strip().split('\n'))]
                rc, out, err = sh(['gcc', '-std=gnu11', '-w', '-S', '-o', '-', '-x', 'c', '-'] if kind == 'gcc' else
                                  ['clang', '-std=gnu2x', '-w', '-S', '-emit-llvm', '-o', '-', '-x', 'c', '-'], input=src.encode(), timeout=60)
                o = txt(out)
                if kind == 'clang':
                    vals = {m.group(1): int(m.group(2)) for m in re.finditer(r'^@(\w+) = [^\n]*global i32 (-?\d+)', o, re.M)}
                else:
                    vals = {m.group(1): (int(m.group(3)) if m.group(2) == 'long' else 0) for m in re.finditer(r'^(\w+):\n\t\.(long|zero)\t(-?\d+)', o, re.M)}
                sval[kind] += 1
                if rc != 0 or any(vals.get(k) != v for k, v in expect.items()):
                    if not (kind == 'gcc' and ('nullptr' in src or ' : ' in src and 'enum' in src)):
                        sval[kind + '_bad'].append((name, rc, {k: vals.get(k) for k in expect}, expect))
    for name, src, expect in C23:
        run_hand(ctx, name, src, expect, None, S.TARGETS, stats, what_prefix='(C23 reading) ')
    # ---- ABI facts of the specification against clang's predefined macros
    for tgi, triple in enumerate(S.CLANG_TRIPLES):
        rc, out, err = sh(['clang', '--target=' + triple, '-dM', '-E', '-x', 'c', '/dev/null'], timeout=60)
        d = dict(re.findall(r'^#define (\w+) (.*)$', txt(out), re.M))
        facts = (('__CHAR_UNSIGNED__' not in d) == S.ABIS[tgi][0], d.get('__WCHAR_TYPE__') == S.BASICS[S.ABIS[tgi][1]].replace('unsigned', 'unsigned int'),
                 d.get('__SIZE_TYPE__') == 'long unsigned int', d.get('__PTRDIFF_TYPE__') == 'long int', d.get('__CHAR16_TYPE__') == 'unsigned short',
                 d.get('__CHAR32_TYPE__') == 'unsigned int', d.get('__SIZEOF_LONG__') == '8', d.get('__SIZEOF_INT__') == '4')
        sval['clang'] += len(facts)
        if not all(facts):
            sval['clang_bad'].append((triple, 'predefined macros', facts, 'all true'))
    stats['spec_validated_vs_clang'] = sval['clang']
    stats['spec_validated_vs_gcc'] = sval['gcc']
    if os.environ.get('C05_DEBUG'):
        print('C05_DEBUG sval', len(sval['clang_bad']), len(sval['gcc_bad']), sval['clang_bad'][:6], sval['gcc_bad'][:6], file=sys.stderr)
    if sval['clang_bad'] or sval['gcc_bad']:
        ctx.broken('correspondence', 'specification (gen/c05_spec.py) vs clang/gcc',
                   'clang disagrees on %d, gcc on %d; first: %r' % (len(sval['clang_bad']), len(sval['gcc_bad']), (sval['clang_bad'][:4] + sval['gcc_bad'][:4])))
    ctx.ob('S-validation: %d probe answers of the specification equal clang (3 targets), %d equal gcc (host)' % (sval['clang'], sval['gcc']),
           not sval['clang_bad'] and not sval['gcc_bad'])
    ctx.ob('K-CLI:%d probes in %d units: types equal the specification and the extracted model' % (stats['cli_probes'], stats['cli_units']),
           not drift and not [v for v in ctx.violations if v['key'] not in
                              set(k['key'] for k in ctx.known() if k.get('kind') == 'known')])


# ------------------------------------------------------------------------------- entry points
def run(ctx):
    snap = ctx.snapshot()
    ok = ctx.coq(['Properties/%s.vo' % MODULE, 'Extract/Extract_c05.vo'])
    if ok:
        ctx.assumptions(MODULE, ctx.theorem_names(MODULE))
    oracle = ctx.oracle('c05') if ok else None
    stats = dict(unit_cases=0, cli_probes=0, cli_units=0)
    samples, nontrivial = [], set()
    if snap and oracle:
        # ---- G: tables re-read from the snapshot = tables of the model
        try:
            src = c05_tables.source_tables(snap)
        except Exception as e:       # the source no longer has the shape the reader knows
            src = ['unreadable: %r' % (e,)]
        rc, mod = run_lines(oracle, ['tables'])
        same = src == mod
        ctx.ob('G:INTTYPE/FLTTYPE rows, typerank switch, limits[], alltargs, inttypes, sizeof/ptrdiff types = model tables (%d rows)' % len(mod), same)
        if not same:
            diff = [l for l in src if l not in mod] + ['model: ' + l for l in mod if l not in src]
            ctx.broken('table', 'typing tables of type.c/expr.c/targ.c/decl.c differ from Model/Types.v', '\n'.join(diff[:20]))
        k_unit(ctx, snap, oracle, stats, samples, nontrivial)
        if os.path.exists(os.path.join(snap, 'cproc-qbe')):
            k_cli(ctx, snap, oracle, stats, samples, nontrivial)
    cov = dict(evaluations=stats['unit_cases'] + stats['cli_probes'], distinct_nontrivial=len(nontrivial),
               rule='unit cases whose answer is not the default (int / reject / 0 / 1) and CLI probes whose expected type is not int, '
                    'counted once per distinct (target, expression) or command line',
               samples=samples, stats=stats,
               distribution='unit: every (target, type, width) for typepromote, every pair over widths {-1,1,8,31,32,33,64} (thorough: 11 widths) '
                            'for typecommonreal, every operator x type x type, boundary values +-2 for typehasint/inttype, random derived types '
                            '(70% one-step mutations of the partner); CLI: all operator x basic x basic (thorough: all catalogue operands incl. '
                            'bit-fields {1,7,8,15,16,31,32,33,63,64} and 8 enum types), sampled bit-field/enum partners, literals of every base/suffix/'
                            'boundary, random nesting depth 2-4, random derived-type pairs; three targets',
               disagreements_checked=len(ctx.violations) + len(ctx.brokens))
    return ctx.finish(cov, assumptions=[
        'type.c/expr.c are tied to Model/Types.v by answer-exact differential runs (unit harness on the snapshot, CLI probes), not by proof',
        'pointer identity of struct type objects is modelled structurally (Model/Types.v header; compat_refl/cond_same_pointer justify it)',
        'bit-fields of declared type wider than int keep the declared type when wider than 32 bits (implementation-defined; clang reading)',
        'deliberate C23 readings: f() is f(void); u8 strings have element type unsigned char',
        'gcc 12 / clang 14 used as second opinion for the Python copy of the specification; Coq Spec/CTypes.v and gen/c05_spec.py are kept equal by hand '
        '(both are compared with the model on every unit case)'])


def replay(ctx, path):
    snap = ctx.snapshot()
    text = open(path).read()
    if path.endswith('.cmd'):
        hexe, e = build_harness(ctx, snap)
        oracle = ctx.oracle('c05')
        lines = [l for l in text.split('\n') if l]
        _, real = run_lines(hexe, lines)
        _, model = run_lines(oracle, lines)
        print('real :', real)
        print('model:', model)
        return 0 if real == model else 1
    m = re.match(r'// C05 (\{.*\})\n', text)
    exp = json.loads(m.group(1)) if m else {'expect': 'accept', 'target': S.TARGETS[0]}
    src = text[m.end():] if m else text
    rc, out, err = ctx.qbe(src, target=exp['target'], timeout=10)
    print('target', exp['target'], 'rc', rc)
    print(err.strip()[:500])
    e = exp['expect']
    if e == 'reject':
        ok = rc != 0 and 'internal error' not in err
    elif e == 'accept':
        ok = rc == 0
    else:
        vals = parse_cproc_data(out)
        print('got', {k: vals.get(k) for k in e}, 'expected', e)
        ok = rc == 0 and all(vals.get(k) == v for k, v in e.items())
    print('OK' if ok else 'STILL FAILS')
    return 0 if ok else 1
