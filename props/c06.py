# C06 - object layout equals the platform ABI.   DESIGN.md section 5 (C06), notes/C06.md.
#
# K-CLI: type definitions generated from a grammar are probed through cproc-qbe on all three targets
#   unsigned long vN[] = {sizeof(T), _Alignof(T), __builtin_offsetof(T, path)...};   T xN_k = {.path = -1};
# and compared with (a) the extracted Coq model (Model/Layout.v: addmember, finish, typemember, designator,
# enum loop, array size) - must be equal exactly, (b) the extracted Coq specification (Spec/AbiLayout.v) and
# (c) the platform compilers: gcc (host x86-64) and clang --target=<triple> -S for all three targets.
# A disagreement of cproc with the platform compiler is a violation; of the model with cproc, model drift;
# of the specification with the platform compilers, an unvalidated specification.
import os, re, json, copy, itertools
import vlib
from vlib import sh, txt, run_limited

LEVEL = 'proof'
MODULE = 'Properties_C06'
M64 = (1 << 64) - 1
TARGETS = [('x86_64-sysv', 'x86_64-linux-gnu', 'sysv'), ('aarch64', 'aarch64-linux-gnu', 'aapcs64'), ('riscv64', 'riscv64-linux-gnu', 'sysv')]

# id, C spelling, size, align, is integer, signed
SCALARS = [
    (0, '_Bool', 1, 1, 1, 0), (1, 'char', 1, 1, 1, 1), (2, 'signed char', 1, 1, 1, 1), (3, 'unsigned char', 1, 1, 1, 0),
    (4, 'short', 2, 2, 1, 1), (5, 'unsigned short', 2, 2, 1, 0), (6, 'int', 4, 4, 1, 1), (7, 'unsigned', 4, 4, 1, 0),
    (8, 'long', 8, 8, 1, 1), (9, 'unsigned long', 8, 8, 1, 0), (10, 'long long', 8, 8, 1, 1), (11, 'unsigned long long', 8, 8, 1, 0),
    (12, 'float', 4, 4, 0, 0), (13, 'double', 8, 8, 0, 0), (14, 'long double', 16, 16, 0, 0),
    (15, 'void *', 8, 8, 0, 0), (16, 'FNPTR', 8, 8, 0, 0), (17, 'char *', 8, 8, 0, 0),
]
GENERIC = ', '.join('%s: %d' % (s[1], s[0]) for s in SCALARS[:12])


class Ty:
    def __init__(self, kind, **kw):
        self.kind = kind
        self.__dict__.update(kw)


SC = {s[0]: Ty('scalar', id=s[0], cname=s[1], size=s[2], align=s[3], isint=bool(s[4]), signed=bool(s[5])) for s in SCALARS}


def decl(ty, name):
    """C declaration of an object/member `name` of type ty (without ';')"""
    dims = ''
    while ty.kind == 'array':
        dims += '[%s]' % ('' if ty.n is None else ty.n)
        ty = ty.base
    if ty.kind == 'scalar':
        if ty.cname == 'FNPTR':
            return 'void (*%s%s)(int)' % (name, dims)
        return '%s %s%s' % (ty.cname, name, dims)
    if ty.kind == 'enum':
        return 'enum E%d %s%s' % (ty.id, name, dims)
    return '%s S%d %s%s' % ('struct' if ty.is_struct else 'union', ty.id, name, dims)


def rec_body(ty):
    out = []
    for it in ty.items:
        al = '_Alignas(%d) ' % it['alignas'] if it.get('alignas') else ''
        if it.get('alignas_type'):
            al = '_Alignas(%s) ' % it['alignas_type']
        for x, before in it.get('alignas_extra', []):       # several specifiers: the strictest one counts (6.7.5p6)
            al = ('_Alignas(%d) ' % x + al) if before else (al + '_Alignas(%d) ' % x)
        if it['kind'] == 'u':
            t = it['ty']
            tn = t.cname if t.kind == 'scalar' else 'T%d' % t.id     # typedef name for enums (enum E : w would be ambiguous)
            out.append('%s : %d;' % (tn, it['width']))
        elif it['kind'] == 'a':
            r = it['ty']
            out.append('%s%s%s { %s };' % (al, 'struct' if r.is_struct else 'union', ' __attribute__((packed))' if r.pack else '', rec_body(r)))
        elif it.get('width') is not None:
            out.append('%s%s : %s;' % (al, decl(it['ty'], 'm%d' % it['name']), it['width']))
        else:
            out.append('%s%s;' % (al, decl(it['ty'], 'm%d' % it['name'])))
    return ' '.join(out)


def rec_def(ty):
    return '%s%s S%d { %s };' % ('struct' if ty.is_struct else 'union', ' __attribute__((packed))' if ty.pack else '', ty.id, rec_body(ty))


class TU:
    """a translation unit under construction: types in definition order, oracle script"""
    def __init__(self, rng):
        self.rng = rng
        self.types = []
        self.nextid = 200
        self.nextname = 1
        self.script = []
        for s in SCALARS:
            self.script.append('scalar %d %d %d %d %d' % (s[0], s[2], s[3], s[4], s[5]))

    def newid(self):
        self.nextid += 1
        return self.nextid

    def newname(self):
        self.nextname += 1
        return self.nextname

    def add(self, ty):
        self.types.append(ty)
        if ty.kind == 'array':
            self.script.append('array %d %d %s 1' % (ty.id, ty.base.id, 'none' if ty.n is None else ty.n))
        elif ty.kind == 'rec':
            self.script.append('rec %d %d %d' % (ty.id, ty.is_struct, ty.pack))
            for it in ty.items:
                if it['kind'] == 'u':
                    self.script.append('u %d %d' % (it['ty'].id, it['width']))
                elif it['kind'] == 'a':
                    self.script.append('a %d %d' % (it['ty'].id, it.get('alignas') or 0))
                else:
                    self.script.append('m %d %d %d %s' % (it['ty'].id, it['name'], it.get('alignas') or 0,
                                                        'none' if it.get('width') is None else it['width']))
            self.script.append('end')
        elif ty.kind == 'enum':
            self.script += ty.script
        return ty


# ------------------------------------------------------------------------------------------ generators
def contains(ty, pred):
    """does the type (transitively) contain a record satisfying pred"""
    if ty.kind == 'array':
        return contains(ty.base, pred)
    if ty.kind != 'rec':
        return False
    return pred(ty) or any(contains(it['ty'], pred) for it in ty.items)


def has_unnamed_bf(r):
    return any(it['kind'] == 'u' for it in r.items)


def is_union_unnamed(r):
    return (not r.is_struct) and any(it['kind'] == 'u' and it['width'] > 0 for it in r.items)


def is_packed_alignas(r):
    return r.pack and any(it.get('alignas') for it in r.items)


def has_flex(ty):
    return ty.kind == 'rec' and ty.flex


def nat_align(ty):
    """natural alignment, only used by the generator to choose a valid _Alignas value"""
    if ty.kind == 'scalar':
        return ty.align
    if ty.kind == 'enum':
        return ty.size
    if ty.kind == 'array':
        return nat_align(ty.base)
    a = 1
    for it in ty.items:
        if it['kind'] == 'u':
            a = max(a, it['ty'].size)      # counts on aarch64 only; being generous keeps the choice valid everywhere
        elif it.get('width') is not None:
            a = max(a, it['ty'].size)
        else:
            a = max(a, it.get('alignas') or (1 if ty.pack else nat_align(it['ty'])))
    return a


def int_types(tu):
    return [SC[i] for i in range(12)] + [t for t in tu.types if t.kind == 'enum']


def pick_width(rng, size, isbool, pos_hint):
    if isbool:
        return 1
    bits = 8 * size
    r = rng.random()
    if r < 0.2:
        return rng.choice([1, bits, bits - 1, max(1, bits // 2)])
    if r < 0.4 and pos_hint is not None:
        # aim at the boundary of the current unit: remaining bits -1, exact, +1
        rem = bits - (pos_hint % bits)
        w = rem + rng.choice([-1, 0, 1])
        return min(max(1, w), bits)
    return rng.randint(1, bits)


def gen_array(tu, base):
    rng = tu.rng
    t = base
    for _ in range(1 if rng.random() < 0.75 else 2):
        t = tu.add(Ty('array', id=tu.newid(), base=t, n=rng.choice([1, 2, 3, 5, 7])))
    return t


def gen_rec(tu, depth, allow_flex=False, force_struct=None, style='main'):
    """style: main | packed_alignas | union_unnamed"""
    rng = tu.rng
    is_struct = rng.random() < 0.72 if force_struct is None else force_struct
    pack = is_struct and (rng.random() < 0.14 or style == 'packed_alignas')
    if style == 'union_unnamed':
        is_struct, pack = False, False
    items = []
    n = rng.randint(1, 7 if depth == 0 else 4)
    pos = 0            # rough bit position to aim bit-field widths at unit boundaries
    named = 0
    flex = False
    for k in range(n):
        r = rng.random()
        if r < 0.30 and not pack:
            t = rng.choice(int_types(tu))
            isbool = t.kind == 'scalar' and t.id == 0
            if rng.random() < 0.25:
                w = rng.choice([0, 0, rng.randint(0, 8 * t.size)]) if not isbool else rng.choice([0, 1])
                items.append(dict(kind='u', ty=t, width=w))
                pos = pos + w if w else (pos + 8 * t.size - 1) // (8 * t.size) * (8 * t.size)
            else:
                w = pick_width(rng, t.size, isbool, pos)
                items.append(dict(kind='m', ty=t, name=tu.newname(), width=w))
                named += 1
                pos += w
            continue
        alignas = 0
        if r < 0.62:
            t = rng.choice(list(SC.values()) + [x for x in tu.types if x.kind == 'enum'])
            sz = t.size
        elif r < 0.74:
            t = gen_array(tu, rng.choice(list(SC.values())))
            sz = 8
        elif r < 0.88 and depth < 3:
            sub = gen_rec(tu, depth + 1, allow_flex=(allow_flex and not is_struct))
            t = sub
            if rng.random() < 0.3 and not sub.flex:
                t = gen_array(tu, sub)
            sz = 8
        elif depth < 3:
            sub = gen_rec(tu, depth + 1, allow_flex=(allow_flex and not is_struct))
            if rng.random() < 0.5 and (not pack or style == 'packed_alignas'):
                alignas = rng.choice([0, 0] + [a for a in (16, 32, 64) if a >= nat_align(sub)])
            items.append(dict(kind='a', ty=sub, alignas=alignas))
            named += 1
            pos += 64
            continue
        else:
            t = rng.choice(list(SC.values()))
            sz = t.size
        nat = nat_align(t)
        if (not pack and rng.random() < 0.16) or (style == 'packed_alignas' and rng.random() < 0.6):
            alignas = rng.choice([a for a in (1, 2, 4, 8, 16, 32, 64) if a >= nat] or [0])
        it = dict(kind='m', ty=t, name=tu.newname(), alignas=alignas)
        if alignas and t.kind == 'scalar' and rng.random() < 0.15:
            it['alignas'] = 0
            cand = [s for s in SC.values() if s.align >= t.align and s.cname not in ('FNPTR',)]
            at = rng.choice(cand)
            # _Alignas(type-name) means _Alignas(_Alignof(type-name)): for arrays and structs that is NOT their size
            form = rng.choice(['%s', '%s', '%s[3]', '%s[2][2]', 'struct { char c_; %s x_; }', 'union { %s x_; char c_[13]; }'])
            it['alignas_type'] = form % at.cname
            it['alignas'] = at.align
        if it['alignas'] and rng.random() < 0.3:
            it['alignas_extra'] = [(rng.choice([0] + [a for a in (1, 2, 4, 8, 16, 32) if nat <= a <= it['alignas']]), rng.random() < 0.5)
                                   for _ in range(rng.randint(1, 2))]
        items.append(it)
        named += 1
        pos += 8 * sz
    if named == 0:
        items.append(dict(kind='m', ty=SC[rng.choice([1, 4, 6, 8])], name=tu.newname(), alignas=0))
    if allow_flex and is_struct and rng.random() < 0.25 and not any(contains(it['ty'], lambda r: r.flex) for it in items):
        items.append(dict(kind='m', ty=tu.add(Ty('array', id=tu.newid(), base=rng.choice([SC[1], SC[4], SC[6], SC[8], SC[13]]), n=None)),
                          name=tu.newname(), alignas=0))
        flex = True
    flex = flex or any(it['ty'].kind == 'rec' and it['ty'].flex for it in items)
    return tu.add(Ty('rec', id=tu.newid(), is_struct=is_struct, pack=pack, items=items, flex=flex))


def leaf_paths(ty, prefix_c, prefix_o, out, rng, deep):
    """enumerate probe paths inside record ty.  entries: (c_path, oracle_tokens, kind, leafsize, isbool)"""
    for it in ty.items:
        if it['kind'] == 'u':
            continue
        if it['kind'] == 'a':
            leaf_paths(it['ty'], prefix_c, prefix_o, out, rng, deep)
            continue
        nm = 'm%d' % it['name']
        c = prefix_c + ('.' if prefix_c else '') + nm
        o = prefix_o + [('.%d' % it['name']) if prefix_o else '%d' % it['name']]
        t = it['ty']
        if it.get('width') is not None:
            out.append((c, o, 'img', t.size, t.kind == 'scalar' and t.id == 0))
            continue
        out.append((c, o, 'off', None, False))
        if not deep:
            continue
        while t.kind == 'array' and t.n:
            i = rng.randrange(t.n)
            c += '[%d]' % i
            o = o + ['[%d]' % i]
            t = t.base
            out.append((c, o, 'off', None, False))
        if t.kind == 'rec':
            leaf_paths(t, c, o, out, rng, deep)


def gen_enum(tu, style='main'):
    """an enum definition with boundary values; returns Ty(enum) (size is the expected size, checked against the model)"""
    rng = tu.rng
    eid = tu.newid()
    fixed = None
    if style == 'fixed_unsigned_implicit':
        fixed = SC[rng.choice([3, 5, 7, 9, 11])]
    elif rng.random() < 0.35:
        fixed = SC[rng.choice([2, 3, 4, 5, 6, 7, 8, 9, 10, 11])]
    script = ['enum %d %s' % (eid, fixed.id if fixed else 'none')]
    names = []
    parts = []
    n = rng.randint(1, 6)
    for k in range(n):
        nm = 'K%d_%d' % (eid, k)
        r = rng.random()
        if style == 'fixed_unsigned_implicit' and k == 0:
            r = 1.0
        if r < 0.5:
            if fixed:
                bits = 8 * fixed.size
                lo, hi = (-(1 << (bits - 1)), (1 << (bits - 1)) - 1) if fixed.signed else (0, (1 << bits) - 1)
                pool = [lo, hi, 0, 1, hi - 1, lo + 1, rng.randint(lo, hi)]
                if style == 'malformed':
                    pool += [hi + 1, lo - 1]
                v = rng.choice(pool)
                ct = SC[rng.choice([6, 8, 9, 10, 11])] if rng.random() < 0.5 else fixed
            else:
                pool = [0, 1, -1, 5, 2147483647, 2147483648, -2147483648, -2147483649, 4294967295, 4294967296,
                        (1 << 63) - 1, -(1 << 63), (1 << 64) - 1, 1 << 63, rng.randint(-300, 300), rng.randint(-(1 << 40), 1 << 40)]
                v = rng.choice(pool)
                ct = SC[rng.choice([2, 3, 4, 5, 6, 7, 8, 9, 10, 11])]
            bits = 8 * ct.size
            u = v & ((1 << bits) - 1)
            if ct.signed and u >> (bits - 1):
                u |= M64 ^ ((1 << bits) - 1)
            parts.append('%s = (%s)0x%xull' % (nm, ct.cname, v & M64))
            script.append('e %d %d' % (u, ct.id))
        elif r < 0.58 and k > 0:
            j = rng.randrange(k)
            parts.append('%s = sizeof(%s)' % (nm, names[j]))
            script.append('z %d' % j)
        else:
            parts.append(nm)
            script.append('i')
        names.append(nm)
    script.append('endenum')
    text = 'enum E%d%s { %s };' % (eid, ' : %s' % fixed.cname if fixed else '', ', '.join(parts))
    return Ty('enum', id=eid, text=text, script=script, names=names, fixed=fixed, size=None, align=None, isint=True)


# ------------------------------------------------------------------------------------------ running things
def run_oracle(oracle, lines):
    rc, out, err = run_limited([oracle], input=('\n'.join(lines) + '\n').encode(), timeout=120, cap=64 << 20)
    return out.decode('latin1').split('\n')[:-1]


def parse_oracle(lines):
    """group the oracle output: records (in order), arrays, enums, offs"""
    recs, arrays, enums, offs, steps = [], [], [], [], []
    i = 0
    cur_steps = []
    while i < len(lines):
        p = lines[i].split(' ')
        if p[0] == 'm':
            cur_steps.append(lines[i])
            i += 1
        elif p[0] == 'rec':
            r = dict(ok=p[1] == 'ok', steps=cur_steps, spec={})
            cur_steps = []
            i += 1
            if r['ok']:
                r.update(size=int(p[2]), align=int(p[3]), flex=int(p[4]), members=[])
                for _ in range(int(p[5])):
                    r['members'].append(tuple(int(x) for x in lines[i].split(' ')[1:]))
                    i += 1
            else:
                r['err'] = p[2]
            for _ in range(2):
                q = lines[i].split(' ')
                i += 1
                if q[2] == 'ok':
                    s = dict(size=int(q[3]), align=int(q[4]), flex=int(q[5]), members=[])
                    for _ in range(int(q[6])):
                        s['members'].append(tuple(int(x) for x in lines[i].split(' ')[1:]))
                        i += 1
                    r['spec'][q[1]] = s
                else:
                    r['spec'][q[1]] = None
            recs.append(r)
        elif p[0] == 'array':
            arrays.append(dict(ok=p[1] == 'ok', size=int(p[2]) if p[1] == 'ok' else None, err=None if p[1] == 'ok' else p[2],
                               spec=int(p[5]) if p[1] == 'ok' else None))
            i += 1
        elif p[0] == 'e':
            steps.append(lines[i])
            i += 1
        elif p[0] == 'enum':
            e = dict(ok=p[1] == 'ok', steps=steps, consts=[])
            steps = []
            i += 1
            if e['ok']:
                e.update(base=int(p[2]), size=int(p[3]), signed=int(p[4]))
                for _ in range(int(p[5])):
                    q = lines[i].split(' ')
                    e['consts'].append(dict(u=int(q[1]), tid=int(q[2]), size=int(q[3]), signed=int(q[4]), v=int(q[5])))
                    i += 1
            else:
                e['err'] = p[2]
            q = lines[i].split(' ')
            i += 1
            e['spec'] = None if q[1] == 'none' else dict(base=int(q[2]), size=int(q[3]), signed=int(q[4]), allint=int(q[5]),
                                                         values=[int(x) for x in q[6].split(',')])
            enums.append(e)
        elif p[0] == 'off':
            offs.append((int(p[2]), int(p[3]), int(p[4]), p[6]) if p[1] == 'ok' else None)
            i += 1
        else:
            i += 1
    return dict(recs=recs, arrays=arrays, enums=enums, offs=offs)


def parse_il_data(il):
    """cproc-qbe data definitions -> name -> bytes"""
    res = {}
    for m in re.finditer(r'^(?:export )?data \$([\w.]+) = (?:align \d+ )?\{(.*?)\}\s*$', il, re.M):
        b = bytearray()
        for item in m.group(2).split(','):
            t = item.split()
            if not t:
                continue
            if t[0] == 'z':
                if int(t[1]) > (1 << 22) or len(b) > (1 << 22):
                    res[m.group(1)] = b'<object larger than 4 MiB>'
                    b = None
                    break
                b += bytes(int(t[1]))
            elif t[0] in 'bhwl' and len(t[0]) == 1:
                n = {'b': 1, 'h': 2, 'w': 4, 'l': 8}[t[0]]
                for v in t[1:]:
                    if v.startswith('"'):
                        return_str = v
                        b += b'?'
                    else:
                        b += (int(v) & ((1 << (8 * n)) - 1)).to_bytes(n, 'little')
            else:
                b += b'?'
        if b is not None:
            res[m.group(1)] = bytes(b)
    return res


DIRS = {'.byte': 1, '.short': 2, '.hword': 2, '.half': 2, '.value': 2, '.2byte': 2, '.word': 4, '.long': 4, '.4byte': 4, '.int': 4,
        '.xword': 8, '.quad': 8, '.dword': 8, '.8byte': 8}


def parse_asm_data(text):
    """gcc / clang -S output -> name -> bytes (data objects only)"""
    res = {}
    cur = None
    for line in text.split('\n'):
        line = line.split('//')[0].split('#')[0].strip()
        if not line:
            continue
        m = re.match(r'^([A-Za-z_][\w$]*):$', line)
        if m:
            cur = m.group(1)
            res[cur] = bytearray()
            continue
        p = line.split(None, 1)
        d = p[0]
        if d in DIRS and cur is not None and len(p) > 1:
            for v in p[1].split(','):
                try:
                    res[cur] += (int(v.strip(), 0) & ((1 << (8 * DIRS[d])) - 1)).to_bytes(DIRS[d], 'little')
                except ValueError:
                    res[cur] += b'?' * DIRS[d]
        elif d in ('.zero', '.space', '.skip') and cur is not None:
            res[cur] += bytes(int(p[1].split(',')[0], 0))
        elif d in ('.comm', '.lcomm'):
            a = p[1].split(',')
            res[a[0].strip()] = bytearray(int(a[1], 0))
        elif d in ('.text',):
            cur = None
    return {k: bytes(v) for k, v in res.items()}


def u64s(b):
    return [int.from_bytes(b[i:i + 8], 'little') for i in range(0, len(b), 8)]


_ctr = itertools.count()


def compile_ref(ctx, src, triple, cc):
    """returns (ok, name->bytes)"""
    f = os.path.join(ctx.tmp, 'r%d.c' % next(_ctr))
    with open(f, 'w') as o:
        o.write(src)
    if cc == 'gcc':
        cmd = ['gcc', '-std=gnu2x', '-w', '-S', '-fno-common', '-o', '-', f]
    else:
        cmd = ['clang', '--target=' + triple, '-std=c2x', '-w', '-S', '-fno-common', '-o', '-', f]
    rc, out, err = sh(cmd, timeout=60)
    os.unlink(f)
    if rc != 0:
        return False, txt(err)[:300]
    return True, parse_asm_data(txt(out))


def image(size, off, before, after, tsize, isbool):
    lo = 8 * off + before
    hi = 8 * (off + tsize) - after
    if isbool:
        hi = lo + 1
    v = ((1 << (hi - lo)) - 1) << lo if hi > lo else 0
    v &= (1 << (8 * size)) - 1 if size > 0 else 0
    return v.to_bytes(max(size, 0), 'little') if size >= 0 else b''


# ------------------------------------------------------------------------------------------ one layout case
class Case:
    """a translation unit with record probes"""
    def __init__(self, tu, tops, style):
        self.tu = tu
        self.style = style
        self.recs = [t for t in tu.types if t.kind == 'rec']
        self.tops = tops
        self.probes = {}     # rec id -> list of (c_path, oracle tokens, kind, leafsize, isbool)
        for r in self.recs:
            ps = []
            leaf_paths(r, '', [], ps, tu.rng, deep=(r in tops))
            if len(ps) > 14:
                keep = [p for p in ps if p[2] == 'img'][:8]
                rest = [p for p in ps if p not in keep]
                tu.rng.shuffle(rest)
                ps = keep + rest[:14 - len(keep)]
            self.probes[r.id] = ps

    def script(self):
        s = list(self.tu.script)
        for r in self.recs:
            for c, o, kind, ls, ib in self.probes[r.id]:
                s.append('off %d %s' % (r.id, ' '.join(o)))
        return s

    def source(self, only=None):
        out = []
        for t in self.tu.types:
            if t.kind == 'enum':
                out.append(t.text)
                out.append('typedef enum E%d T%d;' % (t.id, t.id))
            elif t.kind == 'rec':
                out.append(rec_def(t))
        for r in self.recs:
            if only is not None and r.id not in only:
                continue
            kw = 'struct' if r.is_struct else 'union'
            tn = '%s S%d' % (kw, r.id)
            vals = ['sizeof(%s)' % tn, '_Alignof(%s)' % tn]
            k = 0
            for c, o, kind, ls, ib in self.probes[r.id]:
                if kind == 'off':
                    vals.append('__builtin_offsetof(%s, %s)' % (tn, c))
            out.append('unsigned long v%d[] = { %s };' % (r.id, ', '.join(vals)))
            for c, o, kind, ls, ib in self.probes[r.id]:
                if kind == 'img':
                    out.append('%s x%d_%d = { .%s = -1 };' % (tn, r.id, k, c))
                    k += 1
        return '\n'.join(out) + '\n'

    def expected(self, orc):
        """model predictions: rec id -> (values list, images list) or None when the model reports an error"""
        res = {}
        oi = 0
        for idx, r in enumerate(self.recs):
            m = orc['recs'][idx] if idx < len(orc['recs']) else dict(ok=False)
            vals, imgs = None, None
            if m['ok']:
                vals = [m['size'], m['align']]
                imgs = []
            for c, o, kind, ls, ib in self.probes[r.id]:
                off = orc['offs'][oi] if oi < len(orc['offs']) else None
                oi += 1
                if vals is None:
                    continue
                if off is None:
                    vals = None
                    continue
                if kind == 'off':
                    vals.append(off[0])
                else:
                    imgs.append(image(m['size'], off[0], off[1], off[2], ls, ib))
            res[r.id] = (vals, imgs) if vals is not None else None
        return res

    def observed(self, data):
        """name->bytes from a compiler -> rec id -> (values, images)"""
        res = {}
        for r in self.recs:
            v = data.get('v%d' % r.id)
            if v is None:
                continue
            imgs = []
            k = 0
            for c, o, kind, ls, ib in self.probes[r.id]:
                if kind == 'img':
                    imgs.append(data.get('x%d_%d' % (r.id, k)))
                    k += 1
            res[r.id] = (u64s(v), imgs)
        return res

    def spec_direct(self, orc, idx, rules):
        """(size, align) from the Coq specification for record #idx, None if the spec rejects"""
        s = orc['recs'][idx]['spec'].get(rules)
        return None if s is None else (s['size'], s['align'], s['members'])


def classify(case, r, tgt_rules, model_agrees, spec_agrees_ref):
    """narrow key for a cproc-vs-platform-compiler layout disagreement"""
    if model_agrees and spec_agrees_ref:
        if tgt_rules == 'aapcs64' and contains(r, has_unnamed_bf):
            return 'aarch64-unnamed-bitfield-align'
        if contains(r, is_packed_alignas):
            return 'packed-alignas-size-not-rounded'
    if contains(r, is_union_unnamed) and tgt_rules == 'sysv':
        return 'union-unnamed-bitfield-size'        # fixed in /repo; a reappearance is reported under the old key
    return 'layout-mismatch'


def shrink_case(ctx, case, rid, tname, triple, key_fn):
    """drop members of record rid (and unrelated records) while the same disagreement persists; returns source text"""
    case = copy.deepcopy(case)
    r = next(x for x in case.recs if x.id == rid)

    def still(c2):
        src = c2.source(only=[rid])
        rc, out, err = ctx.qbe(src, target=tname)
        ok, ref = compile_ref(ctx, src, triple, 'clang')
        if rc != 0 or not ok:
            return False
        a = c2.observed(parse_il_data(out)).get(rid)
        b = c2.observed(ref).get(rid)
        return a is not None and b is not None and a != b
    changed = True
    rounds = 0
    while changed and rounds < 6:
        changed = False
        rounds += 1
        for i in range(len(r.items) - 1, -1, -1):
            if len(r.items) <= 1:
                break
            saved = r.items[:]
            del r.items[i]
            if not any(it['kind'] != 'u' for it in r.items):
                r.items[:] = saved
                continue
            c2 = Case(case.tu, [r], case.style)
            try:
                okk = still(c2)
            except Exception:
                okk = False
            if okk:
                changed = True
            else:
                r.items[:] = saved
    c2 = Case(case.tu, [r], case.style)
    # only the types the record needs
    need = set()

    def walk(t):
        if t.id in need:
            return
        need.add(t.id)
        if t.kind == 'array':
            walk(t.base)
        elif t.kind == 'rec':
            for it in t.items:
                walk(it['ty'])
    walk(r)
    c2.tu = TU.__new__(TU)
    c2.tu.types = [t for t in case.tu.types if t.id in need]
    c2.tu.rng = case.tu.rng
    c2.recs = [t for t in c2.tu.types if t.kind == 'rec']
    return c2.source(only=[rid])


# ------------------------------------------------------------------------------------------ table checks (G)
def table_checks(ctx, snap):
    def rd(f):
        return open(os.path.join(snap, f), errors='replace').read()
    util, typ, declc, cch = rd('util.h'), rd('type.c'), rd('decl.c'), rd('cc.h')
    ok = True
    facts = []

    def need(cond, what):
        nonlocal ok
        facts.append((what, bool(cond)))
        if not cond:
            ok = False
            ctx.broken('table', what, 'the source no longer matches what Model/Layout.v assumes: ' + what)
    need(re.search(r'#define ALIGNDOWN\(x, n\) \(\(x\) & -\(n\)\)', util), 'util.h ALIGNDOWN(x,n) = x & -n')
    need(re.search(r'#define ALIGNUP\(x, n\) ALIGNDOWN\(\(x\) \+ \(n\) - 1, n\)', util), 'util.h ALIGNUP(x,n) = ALIGNDOWN(x+n-1,n)')
    sizes = dict(re.findall(r'struct type type(\w+)\s*= (?:INT|FLT)TYPE\(TYPE\w+, (\d+)', typ))
    want = dict(bool='1', char='1', schar='1', uchar='1', short='2', ushort='2', int='4', uint='4', long='8', ulong='8',
                llong='8', ullong='8', float='4', double='8', ldouble='16')
    need(sizes == want, 'type.c basic type sizes %r' % (sizes,))
    signs = dict(re.findall(r'struct type type(\w+)\s*= INTTYPE\(TYPE\w+, \d+, (\w+)', typ))
    need(signs == dict(bool='false', char='true', schar='true', uchar='false', short='true', ushort='false', int='true', uint='false',
                       long='true', ulong='false', llong='true', ullong='false'), 'type.c basic type signedness')
    need(re.search(r'#define INTTYPE\(k, n, s, p\) \{ \\\s*\.kind = k, \.size = n, \.align = n,', typ), 'INTTYPE: align = size')
    m = re.search(r'inttypes\[\]\[2\] = \{(.*?)\};', declc, re.S)
    lad = re.findall(r'\{&type(\w+), &type(\w+)\}', m.group(1)) if m else None
    need(lad == [('uint', 'int'), ('ulong', 'long'), ('ullong', 'llong')], 'decl.c tagspec inttypes ladder %r' % (lad,))
    need(re.search(r'unsigned bits;', declc) and re.search(r'struct bitfield \{\s*short before;[^}]*short after;', cch),
         'structbuilder.bits is unsigned, bitfield.before/after are short')
    need(re.search(r'int align;\s*unsigned long long size;', cch), 'struct type: int align; unsigned long long size')
    need('min <= 0x80000000 && max <= 0x7fffffff' in declc, 'tagspec int-range test')
    need(re.search(r't->size \+= \(width - b->bits \+ 7\) / 8;\s*b->bits = \(b->bits - width\) % 8;', declc), 'addmember bit-field advance')
    need('m->offset = ALIGNDOWN(t->size - !!b->bits, mt.type->size);' in declc, 'addmember bit-field unit offset')
    need(re.search(r'if \(!b\.pack\)\s*t->size = ALIGNUP\(t->size, t->align\);', declc), 'tagspec final ALIGNUP unless packed')
    targs = re.findall(r'\.name = "([\w-]+)"', rd('targ.c'))
    need(targs[:3] == ['x86_64-sysv', 'aarch64', 'riscv64'], 'targ.c targets %r' % (targs,))
    ctx.ob('G:source facts the model relies on (%d re-read from the snapshot)' % len(facts), ok)
    return facts


# ------------------------------------------------------------------------------------------ the check
def run(ctx):
    rng = ctx.rng
    thorough = ctx.tier == 'thorough'
    rdir = os.path.join(vlib.VERIF, 'evidence', 'replay')
    for fn in os.listdir(rdir) if os.path.isdir(rdir) else []:
        if fn.startswith('C06-'):
            os.unlink(os.path.join(rdir, fn))       # replays of earlier runs of this property
    snap = ctx.snapshot()
    ok = ctx.coq(['Properties/%s.vo' % MODULE, 'Extract/Extract_c06.vo'])
    if ok:
        ctx.assumptions(MODULE, ctx.theorem_names(MODULE))
    oracle = ctx.oracle('c06') if ok else None
    stats = dict(units=0, records=0, probes=0, images=0, targets=3, enums=0, enum_consts=0, arrays=0, malformed=0,
                 ref_rejected=0, gcc_units=0, clang_units=0, known_hits={}, bitfields=0, unnamed_bf=0, packed=0, unions=0,
                 anon=0, alignas=0, flex=0, spec_checked=0)
    samples = []
    nontrivial = set()
    vio_budget = {}

    def report(what, src, key):
        n = vio_budget.get(key, 0)
        vio_budget[key] = n + 1
        stats['known_hits'][key] = stats['known_hits'].get(key, 0) + 1
        if n < 2:
            ctx.violation(what, src, 'c', key=key)

    if snap and oracle and os.path.exists(os.path.join(snap, 'cproc-qbe')):
        table_checks(ctx, snap)
        run_corpus(ctx, stats, report)
        # ---------------------------------------------------------------- layout stream
        plan = [('main', 520 if not thorough else 6000), ('packed_alignas', 10 if not thorough else 80),
                ('union_unnamed', 16 if not thorough else 120)]
        cases = []
        for style, n in plan:
            for _ in range(n):
                tu = TU(rng)
                for _ in range(rng.randint(0, 2)):
                    e = gen_enum_known(tu)
                    if e is not None:
                        tu.add(e)
                tops = []
                for _ in range(rng.randint(1, 3) if style == 'main' else 1):
                    if style == 'main':
                        tops.append(gen_rec(tu, 0, allow_flex=True))
                    elif style == 'packed_alignas':
                        inner = gen_rec(tu, 1, force_struct=True, style='packed_alignas')
                        tops.append(inner)
                        if rng.random() < 0.5:
                            tops.append(tu.add(Ty('rec', id=tu.newid(), is_struct=True, pack=False, flex=False, items=[
                                dict(kind='m', ty=SC[1], name=tu.newname(), alignas=0),
                                dict(kind='m', ty=inner, name=tu.newname(), alignas=0),
                                dict(kind='m', ty=SC[1], name=tu.newname(), alignas=0)])))
                    else:
                        inner = gen_rec(tu, 2, style='union_unnamed')
                        if not is_union_unnamed(inner):
                            inner.items.insert(0, dict(kind='u', ty=SC[rng.choice([6, 8, 4])], width=rng.choice([9, 17, 31])))
                            tu.script = None
                        tops.append(inner)
                if tu.script is None:
                    # the union was edited after registration: rebuild the script
                    types = tu.types
                    tu2 = TU(rng)
                    tu2.nextid, tu2.nextname = tu.nextid, tu.nextname
                    for t in types:
                        tu2.add(t)
                    tu = tu2
                cases.append(Case(tu, tops, style))

        def do_case(case):
            orc = parse_oracle(run_oracle(oracle, case.script()))
            src = case.source()
            res = {}
            for tname, triple, rules in TARGETS:
                rc, out, err = ctx.qbe(src, target=tname)
                res[tname] = (rc, parse_il_data(out) if rc == 0 else err[:300])
                res['clang:' + tname] = compile_ref(ctx, src, triple, 'clang')
            res['gcc'] = compile_ref(ctx, src, None, 'gcc')
            return case, orc, src, res

        def do_case_safe(case):
            try:
                return do_case(case)
            except Exception as ex:
                return case, None, case.source(), ex
        for case, orc, src, res in vlib.parallel_map(do_case_safe, cases):
            if orc is None:
                ctx.broken('correspondence', 'layout case could not be evaluated (%s)' % type(res).__name__, '%r\n%s' % (res, src[:3000]))
                continue
            stats['units'] += 1
            exp = case.expected(orc)
            for r in case.recs:
                stats['records'] += 1
                stats['unions'] += not r.is_struct
                stats['packed'] += r.pack
                for it in r.items:
                    stats['bitfields'] += it['kind'] == 'm' and it.get('width') is not None
                    stats['unnamed_bf'] += it['kind'] == 'u'
                    stats['anon'] += it['kind'] == 'a'
                    stats['alignas'] += bool(it.get('alignas'))
                stats['flex'] += bool(r.flex)
                if len(r.items) > 1 or r.pack or not r.is_struct:
                    nontrivial.add(rec_def(r))
            model_err = [r.id for r in case.recs if exp[r.id] is None]
            if model_err:
                # the generator only builds valid types: a model error means cproc (as modelled) rejects a valid definition
                rcs = [res[t[0]][0] for t in TARGETS]
                if all(rc != 0 for rc in rcs) and res['gcc'][0]:
                    report('valid type definition rejected (model: %s): %s' % (orc['recs'][[r.id for r in case.recs].index(model_err[0])].get('err'), res[TARGETS[0][0]][1]),
                           src, 'valid-definition-rejected')
                elif any(rc == 0 for rc in rcs):
                    ctx.broken('correspondence', 'Layout model rejects a definition cproc accepts', src[:3000])
                continue
            for tname, triple, rules in TARGETS:
                rc, data = res[tname]
                if rc != 0:
                    if res['clang:' + tname][0]:
                        report('valid type definition rejected by cproc-qbe -t %s: %s' % (tname, data), src, 'valid-definition-rejected')
                        ctx.broken('correspondence', 'Layout model accepts a definition cproc rejects', src[:3000])
                    continue
                obs = case.observed(data)
                okr, refd = res['clang:' + tname]
                ref = case.observed(refd) if okr else None
                if okr:
                    stats['clang_units'] += 1
                else:
                    stats['ref_rejected'] += 1
                gref = None
                if tname == 'x86_64-sysv' and res['gcc'][0]:
                    gref = case.observed(res['gcc'][1])
                    stats['gcc_units'] += 1
                for idx, r in enumerate(case.recs):
                    e = exp[r.id]
                    o = obs.get(r.id)
                    stats['probes'] += len(e[0])
                    stats['images'] += len(e[1])
                    model_agrees = (o == e)
                    sp = case.spec_direct(orc, idx, rules)
                    for which, rr in (('clang', ref), ('gcc', gref)):
                        if rr is None or r.id not in rr:
                            continue
                        rv = rr[r.id]
                        spec_ok = sp is not None and (sp[0], sp[1]) == (rv[0][0], rv[0][1])
                        stats['spec_checked'] += 1
                        if o != rv:
                            key = classify(case, r, rules, model_agrees, spec_ok)
                            what = ('%s S%d on %s: cproc sizeof/_Alignof/offsets %r images %r, %s has %r %r'
                                    % ('struct' if r.is_struct else 'union', r.id, tname, o[0] if o else None,
                                       [x.hex() if x else None for x in (o[1] if o else [])][:4], which, rv[0], [x.hex() if x else None for x in rv[1]][:4]))
                            if vio_budget.get(key, 0) < 2:
                                try:
                                    small = shrink_case(ctx, case, r.id, tname, triple, None)
                                    dd = [x for x in compare_source(ctx, small) if x[0] == tname]
                                    if dd:
                                        what = '%s on %s: %s' % ('struct' if r.is_struct else 'union', tname, '; '.join(x[2] for x in dd[:3]))
                                except Exception as ex:
                                    small = src
                                report(what, '// cproc-qbe -t %s vs %s --target=%s\n%s' % (tname, which, triple, small), key)
                            else:
                                report(what, src, key)
                        elif not spec_ok and not (rules == 'sysv' and False):
                            ctx.broken('correspondence', 'AbiLayout specification (%s) disagrees with %s on %s' % (rules, which, tname),
                                       'spec %r, compiler %r\n%s' % (sp and sp[:2], rv[0][:2], rec_def(r)))
                    if not model_agrees:
                        ctx.broken('correspondence', 'Layout model vs cproc-qbe -t %s' % tname,
                                   'record S%d: cproc %r / model %r\n%s' % (r.id, o, e, src[:3000]))
            if len(samples) < 3:
                samples.append({'unit': src[:500], 'model': {str(k): v[0] for k, v in exp.items() if v}})
        ctx.ob('K-CLI:layout %d units / %d records / %d offsets+sizes / %d bit-field images x 3 targets = model; vs clang(3 targets)+gcc'
               % (stats['units'], stats['records'], stats['probes'], stats['images']),
               not any(b[0] == 'correspondence' for b in ctx.brokens) and not any(k in ('layout-mismatch', 'valid-definition-rejected') for k in vio_budget))

        # ---------------------------------------------------------------- enum stream
        run_enums(ctx, oracle, stats, nontrivial, samples, report, thorough)
        # ---------------------------------------------------------------- malformed / array stream
        run_malformed(ctx, oracle, stats, nontrivial, report, thorough)

    if os.environ.get('C06_DEBUG'):
        with open(os.environ['C06_DEBUG'], 'w') as f:
            for k, nm, d in ctx.brokens:
                f.write('=== %s %s\n%s\n' % (k, nm, d))
            for v in ctx.violations:
                f.write('=== VIOLATION %s\n%s\n%s\n' % (v['key'], v['what'][:600], v['replay'][:1500]))
    cov = dict(evaluations=stats['units'] * 3 + stats['enums'] * 3 + stats['malformed'] + stats['arrays'],
               distinct_nontrivial=len(nontrivial),
               rule='distinct record definitions with more than one member or packed or union (by text), distinct enum definitions whose '
                    'values leave the int range or have a fixed base, distinct malformed definitions and array bounds; counted by source text',
               samples=samples, stats=stats, violation_classes=vio_budget,
               disagreements_checked=len(ctx.violations) + len(ctx.brokens))
    return ctx.finish(cov, assumptions=[
        'decl.c/type.c/expr.c are tied to Model/Layout.v by exact differential runs through cproc-qbe on three targets, not by proof',
        'the specification Spec/AbiLayout.v is validated against gcc 12 (x86-64) and clang 14 (--target=x86_64/aarch64/riscv64) on the same generated types',
        'bit positions are read from static data images, i.e. through init.c/qbe.c emitdata (property C07)',
        'bit-fields in packed structs and GNU aligned(n) are rejected by cproc (checked), not laid out'])


def gen_enum_known(tu):
    """small enums usable as member / bit-field types: the size is known by construction"""
    rng = tu.rng
    eid = tu.newid()
    r = rng.random()
    if r < 0.4:
        text, script, size = 'enum E%d { K%d_0, K%d_1 = 5 };' % (eid, eid, eid), ['enum %d none' % eid, 'i', 'e 5 6', 'endenum'], 4
    elif r < 0.6:
        text, script, size = 'enum E%d { K%d_0 = -1, K%d_1 = 0x100000000 };' % (eid, eid, eid), ['enum %d none' % eid, 'e %d 6' % M64, 'e 4294967296 8', 'endenum'], 8
    else:
        b = SC[rng.choice([2, 3, 4, 5, 7, 9, 10])]
        text, script, size = 'enum E%d : %s { K%d_0 = 1 };' % (eid, b.cname, eid), ['enum %d %d' % (eid, b.id), 'e 1 6', 'endenum'], b.size
    return Ty('enum', id=eid, text=text, script=script, size=size, align=size, isint=True, names=[], fixed=None)


def run_enums(ctx, oracle, stats, nontrivial, samples, report, thorough):
    rng = ctx.rng
    n = 420 if not thorough else 6000
    enums = []
    for i in range(n):
        tu = TU(rng)
        style = 'main' if i % 20 else 'fixed_unsigned_implicit'
        if i % 20 == 1:
            style = 'malformed'
        e = gen_enum(tu, style)
        tu.add(e)
        enums.append((tu, e, style))

    def one(x):
        tu, e, style = x
        orc = parse_oracle(run_oracle(oracle, tu.script))['enums'][0]
        vals = ['sizeof(enum E%d)' % e.id, '(enum E%d)-1 < 0' % e.id, '_Generic((enum E%d)0, %s, default: 99)' % (e.id, GENERIC)]
        for nm in e.names:
            vals += ['(unsigned long)%s' % nm, 'sizeof(%s)' % nm, '(__typeof__(%s))-1 < 0' % nm, '_Generic(%s, %s, default: 99)' % (nm, GENERIC)]
        src = '%s\nunsigned long v[] = { %s };\n' % (e.text, ', '.join(vals))
        res = {}
        for tname, triple, rules in TARGETS:
            rc, out, err = ctx.qbe(src, target=tname)
            res[tname] = (rc, u64s(parse_il_data(out).get('v', b'')) if rc == 0 else err[:200])
        okc, d = compile_ref(ctx, src, 'x86_64-linux-gnu', 'clang')
        res['clang'] = (okc, u64s(d.get('v', b'')) if okc else d)
        return tu, e, style, orc, src, res

    agree = True
    for tu, e, style, orc, src, res in vlib.parallel_map(one, enums):
        stats['enums'] += 1
        stats['enum_consts'] += len(e.names)
        if e.fixed or (orc['ok'] and orc['size'] == 8) or not orc['ok']:
            nontrivial.add(e.text)
        # model prediction
        if orc['ok']:
            base = orc['base']
            exp = [orc['size'], orc['signed'], base]
            for c in orc['consts']:
                tid = c['tid'] if c['tid'] != 100 else base
                exp += [c['u'], c['size'], c['signed'], tid]
        else:
            exp = None
        okc, cl = res['clang']
        for tname, triple, rules in TARGETS:
            rc, got = res[tname]
            if (rc == 0) != (exp is not None):
                agree = False
                ctx.broken('correspondence', 'enum model vs cproc-qbe -t %s (accept/reject)' % tname, 'model %r cproc rc=%d %r\n%s' % (orc.get('err'), rc, got, src))
                continue
            if rc == 0 and got != exp:
                agree = False
                ctx.broken('correspondence', 'enum model vs cproc-qbe -t %s' % tname, 'cproc %r\nmodel %r\n%s' % (got, exp, src))
            wide = orc['ok'] and not e.fixed and not (orc['spec'] and orc['spec']['allint'])
            clc = cl
            if rc == 0 and okc and wide and len(got) == len(cl):
                # C23 (N3029): when a value does not fit int every enumerator has the enumerated type once the enum is
                # complete; clang 14 still gives the in-range ones type int.  Only the enum itself and the values are compared.
                got = got[:3] + [x for i, x in enumerate(got[3:]) if i % 4 == 0]
                clc = cl[:3] + [x for i, x in enumerate(cl[3:]) if i % 4 == 0]
            if rc == 0 and okc and got != clc:
                # enumerator types while the enum is being defined are C23-specific; clang 14 implements the older GNU rule
                # for the *type* of an enumerator used inside its own enum (sizeof probes); compare everything else
                report('enum on %s: cproc [sizeof, signed, compatible type, (value, sizeof, signed, type)*] = %r, clang %r' % (tname, got, clc), src,
                       'enum-mismatch')
            if rc != 0 and okc and orc['spec'] is not None:
                key = 'enum-valid-rejected'
                first_err = next((i for i, l in enumerate(orc['steps']) if l.startswith('e err')), None)
                if orc.get('err') == 'EEnumNoType' and first_err == 0:
                    key = 'enum-fixed-unsigned-implicit-zero-rejected'      # fixed in /repo; a reappearance keeps the old key
                elif orc.get('err') == 'EEnumNoType':
                    # previous value + 1 has no type of the predecessor's signedness (LLONG_MAX + 1, ULLONG_MAX + 1):
                    # C23 6.7.2.2 makes this a constraint violation (gcc >= 13 "overflow in enumeration values"); clang 14 only warns
                    stats['enum_overflow_rejected'] = stats.get('enum_overflow_rejected', 0) + 1
                    continue
                if tname == 'x86_64-sysv':
                    report('valid enum rejected by cproc (%s), accepted by clang: %s' % (got, e.text), src, key)
        # the Coq specification against clang
        if okc and orc['ok'] and orc['spec'] is not None and len(cl) >= 3:
            sp = orc['spec']
            if [sp['size'], sp['signed'], sp['base']] != cl[:3] or [v & M64 for v in sp['values']] != cl[3::4]:
                ctx.broken('correspondence', 'enum specification disagrees with clang', 'spec %r clang %r\n%s' % (sp, cl, src))
        if len(samples) < 5 and orc['ok'] and orc['size'] == 8:
            samples.append({'enum': e.text, 'model': exp})
    ctx.ob('K-CLI:enum %d definitions / %d enumerators x 3 targets = model; vs clang -std=c2x' % (stats['enums'], stats['enum_consts']), agree)


MALFORMED = [
    # (name, source, oracle script or None, expect_reference_rejects)
    ('after-flex', 'struct S { int n; char d[]; int z; };', ['array 300 1 none 1', 'rec 301 1 0', 'm 6 1 0 none', 'm 300 2 0 none', 'm 6 3 0 none', 'end'], True),
    ('incomplete-member', 'struct U; struct S { int n; struct U u; };', ['raw 300 0 0 0 0 1 0 0 0', 'rec 301 1 0', 'm 6 1 0 none', 'm 300 2 0 none', 'end'], True),
    ('function-member', 'struct S { int n; int f(void); };', ['raw 300 0 1 0 0 0 0 1 0', 'rec 301 1 0', 'm 6 1 0 none', 'm 300 2 0 none', 'end'], True),
    ('nested-flex', 'struct F { int n; char d[]; }; struct S { int k; struct F f; };',
     ['array 300 1 none 1', 'rec 301 1 0', 'm 6 1 0 none', 'm 300 2 0 none', 'end', 'rec 302 1 0', 'm 6 3 0 none', 'm 301 4 0 none', 'end'], False),
    ('alignas-less-strict', 'struct S { char c; _Alignas(2) int i; };', ['rec 301 1 0', 'm 1 1 0 none', 'm 6 2 2 none', 'end'], True),
    ('bitfield-float', 'struct S { char c; float f : 3; };', ['rec 301 1 0', 'm 1 1 0 none', 'm 12 2 0 3', 'end'], True),
    ('bitfield-alignas', 'struct S { char c; _Alignas(8) int f : 3; };', ['rec 301 1 0', 'm 1 1 0 none', 'm 6 2 8 3', 'end'], True),
    ('bitfield-packed', 'struct __attribute__((packed)) S { char c; int f : 3; };', ['rec 301 1 1', 'm 1 1 0 none', 'm 6 2 0 3', 'end'], False),
    ('bitfield-zero-named', 'struct S { char c; int f : 0; };', ['rec 301 1 0', 'm 1 1 0 none', 'm 6 2 0 0', 'end'], True),
    ('bitfield-too-wide', 'struct S { char c; int f : 33; };', ['rec 301 1 0', 'm 1 1 0 none', 'm 6 2 0 33', 'end'], True),
    ('bitfield-too-wide-char', 'struct S { char c; unsigned char f : 9; };', ['rec 301 1 0', 'm 1 1 0 none', 'm 3 2 0 9', 'end'], True),
    ('bitfield-too-wide-long', 'union S { char c; long f : 65; };', ['rec 301 0 0', 'm 1 1 0 none', 'm 8 2 0 65', 'end'], True),
    ('only-unnamed', 'struct S { int : 3; };', ['rec 301 1 0', 'u 6 3', 'end'], False),
    ('bitfield-width-ullmax', 'struct S { char c; int f : 0xffffffffffffffff; };', ['rec 301 1 0', 'm 1 1 0 none', 'm 6 2 0 18446744073709551615', 'end'], True),
    ('bitfield-width-huge', 'struct S { char c; int f : 0xfffffffffffffffe; };', ['rec 301 1 0', 'm 1 1 0 none', 'm 6 2 0 18446744073709551614', 'end'], True),
    ('union-packed-attr', 'union __attribute__((packed)) S { char c; int i; };', None, False),
    ('gnu-aligned-member', 'struct S { char c; int x __attribute__((aligned(8))); };', None, False),
    ('gnu-aligned-struct', 'struct __attribute__((aligned(8))) S { char c; };', None, False),
    ('array-of-incomplete', 'struct U; struct S { int n; struct U a[2]; };', ['raw 300 0 0 0 0 1 0 0 0', 'array 301 300 2 1'], True),
]


def run_malformed(ctx, oracle, stats, nontrivial, report, thorough):
    rng = ctx.rng
    agree = True

    def one(m):
        name, src, script, refrej = m
        full = src + ' unsigned long v[] = { sizeof(' + ('union S' if src.startswith('union') or 'union S' in src else 'struct S') + ') };\n'
        model_err = None
        if script is not None:
            lines = run_oracle(oracle, TU(rng).script + script)
            model_err = any(' err ' in l for l in lines)
        rcs = [ctx.qbe(full, target=t[0])[0] for t in TARGETS]
        okg, dg = compile_ref(ctx, full, None, 'gcc')
        return m, full, model_err, rcs, okg
    for (name, src, script, refrej), full, model_err, rcs, okg in vlib.parallel_map(one, MALFORMED):
        stats['malformed'] += 1
        nontrivial.add(src)
        rejected = all(rc != 0 for rc in rcs)
        if len(set(rc != 0 for rc in rcs)) != 1:
            agree = False
            ctx.broken('correspondence', 'malformed definition %s: targets disagree %r' % (name, rcs), full)
        if model_err is not None and model_err != rejected:
            agree = False
            ctx.broken('correspondence', 'Layout model vs cproc on malformed definition %s' % name, 'model error=%r cproc rcs=%r\n%s' % (model_err, rcs, full))
        if refrej and not okg and not rejected:
            key = 'bitfield-width-ullmax-accepted' if name == 'bitfield-width-ullmax' else 'accepts-invalid:' + name
            report('cproc accepts a definition that violates a constraint (gcc rejects it): %s' % src, full, key)
        if name.startswith('gnu-aligned') and not rejected:
            # if aligned(n) is ever accepted it must have the effect gcc gives it
            rc, out, err = ctx.qbe(full)
            got = u64s(parse_il_data(out).get('v', b''))
            okg2, dg2 = compile_ref(ctx, full, None, 'gcc')
            if okg2 and got != u64s(dg2.get('v', b'')):
                report('GNU aligned(n) accepted but ignored: sizeof %r, gcc %r' % (got, u64s(dg2.get('v', b''))), full, 'gnu-aligned-ignored')
    # array sizes: the overflow check of declarator
    arrs = []
    for _ in range(80 if not thorough else 800):
        # element types that are huge themselves: the product overflows although the length is tiny
        esz = rng.choice([1, 2, 4, 8, 16, 24, 1 << 33, 1 << 40, 1 << 62, 3 << 40])
        et = {1: 'char', 2: 'short', 4: 'int', 8: 'long', 16: 'long double', 24: 'struct { long a, b, c; }', 1 << 33: 'struct { char x[1ull << 33]; }',
              1 << 40: 'struct { short x[1ull << 39]; }', 1 << 62: 'struct { char x[1ull << 62]; }', 3 << 40: 'struct { char x[3ull << 40]; }'}[esz]
        tot = rng.choice([1 << 64, 1 << 63, 1 << 62, (1 << 64) - 1, rng.randint(1, 1 << 20)])
        n = max(0, tot // esz + rng.choice([-1, 0, 0, 1]))
        signed = rng.random() < 0.3
        nl = ('(long)0x%xull' % (n & M64)) if signed else ('0x%xull' % (n & M64))
        arrs.append((esz, et, n & M64, signed, nl))

    def aone(a):
        esz, et, n, signed, nl = a
        src = 'typedef %s E; typedef E A[%s]; unsigned long v[] = { sizeof(A) };\n' % (et, nl)
        lines = run_oracle(oracle, ['scalar 300 %d %d 0' % (esz, 2 if esz == 1 << 40 else 1 if esz > 24 else min(esz, 16)), 'array 301 300 %d %d' % (n, signed)])
        rc, out, err = ctx.qbe(src)
        okg, dg = compile_ref(ctx, src, None, 'gcc')
        return a, src, lines[0], rc, u64s(parse_il_data(out).get('v', b'')) if rc == 0 else err[:200], (okg, u64s(dg.get('v', b'')) if okg else None)
    for a, src, ml, rc, got, (okg, gv) in vlib.parallel_map(aone, arrs):
        stats['arrays'] += 1
        nontrivial.add(src)
        p = ml.split(' ')
        if n_zero(a):
            continue
        if (p[1] == 'ok') != (rc == 0) or (rc == 0 and got != [int(p[2])]):
            agree = False
            ctx.broken('correspondence', 'array_type model vs cproc', 'model %r cproc rc=%d %r\n%s' % (ml, rc, got, src))
        if rc == 0 and p[1] == 'ok' and int(p[2]) != int(p[5]) % (1 << 64):
            agree = False
            ctx.broken('correspondence', 'array size wrapped', ml)
        if rc == 0 and okg and got != gv:
            report('sizeof array: cproc %r gcc %r' % (got, gv), src, 'array-size-mismatch')
    ctx.ob('K-CLI:%d malformed definitions and %d array bounds: accept/reject and sizes = model' % (stats['malformed'], stats['arrays']), agree)


def n_zero(a):
    return a[2] == 0


def compare_source(ctx, src):
    """cproc vs clang on the three targets: list of (target, kind, detail) differences; kind in reject/accept/value"""
    diffs = []
    for tname, triple, rules in TARGETS:
        rc, out, err = ctx.qbe(src, target=tname)
        okc, ref = compile_ref(ctx, src, triple, 'clang')
        if rc != 0 and okc:
            diffs.append((tname, 'reject', err.strip()[:160]))
        elif rc == 0 and not okc:
            diffs.append((tname, 'accept', 'clang: ' + str(ref).strip()[:160]))
        elif rc == 0:
            got = parse_il_data(out)
            for k in sorted(ref):
                if k[0] in 'vx' and got.get(k) != ref[k]:
                    a, b = got.get(k), ref[k]
                    diffs.append((tname, 'value', '%s: cproc %s, clang %s' % (k, (u64s(a) if k[0] == 'v' else a.hex()) if a is not None else None,
                                                                            u64s(b) if k[0] == 'v' else b.hex())))
    return diffs


def run_corpus(ctx, stats, report):
    d = os.path.join(vlib.VERIF, 'corpus', 'findings')
    files = sorted(f for f in os.listdir(d) if f.startswith('C06-') and f.endswith('.c')) if os.path.isdir(d) else []
    ok = True
    for fn in files:
        src = open(os.path.join(d, fn)).read()
        m = re.match(r'// C06 key=(\S+) status=(\w+)(?: expect=(\w+))?', src)
        if not m:
            continue
        key, status, expect = m.groups()
        mt = re.search(r'^// targets=(\S+)', src, re.M)
        diffs = compare_source(ctx, src)
        if mt:
            diffs = [x for x in diffs if x[0] in mt.group(1).split(',')]
        stats['corpus'] = stats.get('corpus', 0) + 1
        ma = re.search(r'^// aligns: (.*)$', src, re.M)
        if ma:
            # alignment of the emitted definitions themselves (the byte images do not show it)
            want = dict((kv.split('=')[0], int(kv.split('=')[1])) for kv in ma.group(1).split())
            for tname, triple, rules in TARGETS:
                rc, out, err = ctx.qbe(src, target=tname)
                got = dict((m.group(1), int(m.group(2) or 0)) for m in
                           re.finditer(r'^(?:export )?(?:thread )?data \$([\w.]+) = (?:align (\d+) )?\{', out, re.M)) if rc == 0 else {}
                for name, al in sorted(want.items()):
                    if got.get(name) != al:
                        diffs.append((tname, 'value', 'definition of %s has alignment %s, the ABI alignment of its type is %d' % (name, got.get(name), al)))
        if expect == 'reject':
            rcs = [ctx.qbe(src, target=t[0])[0] for t in TARGETS]
            if any(rc == 0 for rc in rcs):
                report('regression (%s): cproc accepts %s' % (fn, src.split('\n')[2][:120]), src, key)
            continue
        if diffs:
            report('%s %s: %s' % ('known finding' if status == 'known' else 'REGRESSION of a fixed defect', fn,
                                  '; '.join('%s %s' % (t, dd) for t, k, dd in diffs[:4])), src, key)
            if status != 'known':
                ok = False
        elif status == 'known':
            ctx.notes.append('known finding %s (corpus %s) no longer reproduces' % (key, fn))
    ctx.ob('K-CLI:regression corpus corpus/findings/C06-*.c (%d files): fixed defects stay fixed' % len(files), ok)


def replay(ctx, path):
    snap = ctx.snapshot()
    src = open(path).read()
    bad = 0
    mt = re.search(r'^// targets=(\S+)', src, re.M)
    for tname, triple, rules in TARGETS:
        if mt and tname not in mt.group(1).split(','):
            continue
        rc, out, err = ctx.qbe(src, target=tname)
        okc, ref = compile_ref(ctx, src, triple, 'clang')
        got = parse_il_data(out) if rc == 0 else None
        print('== %s: cproc rc=%d %s' % (tname, rc, err.strip()[:200]))
        if not okc:
            print('   clang rejects: %s' % (ref,))
            if rc == 0:
                bad += 1
            continue
        if got is None:
            print('   clang accepts')
            bad += 1
            continue
        for k in sorted(ref):
            if k in got or k.startswith(('v', 'x')):
                a, b = got.get(k), ref[k]
                flag = '' if a == b else '   <-- differs'
                if a != b:
                    bad += 1
                if k.startswith('v'):
                    print('   %s cproc %r clang %r%s' % (k, u64s(a) if a else None, u64s(b), flag))
                else:
                    print('   %s cproc %s clang %s%s' % (k, a.hex() if a else None, b.hex(), flag))
    return 1 if bad else 0
