# C07 - initialised objects contain exactly the specified initial image.   DESIGN.md section 5 (C07), notes/C07.md.
#
# Four views of every generated (type, initializer) pair are compared byte for byte (relocations as symbol+addend):
#   S  the Python reference of C11 6.7.9 (gen/c07_gen.py: SpecMachine)         validated against G
#   G  gcc: the same declaration compiled, linked with a dumper and run (x86-64 only)
#   C  cproc: the `data` definition decoded / the stores of the function executed (static / automatic object)
#   M  the extracted Coq models: parseinit -> initadd list -> emitdata items / funcinit stores, InitSpec.image
# C != S is a violation (the code contradicts the specification), M != C with C == S is model drift (broken),
# S != G is a defect of the reference (broken).
import os, re, sys, json, struct, hashlib, time, base64, pickle
import vlib
from vlib import sh, txt, run_limited
sys.path.insert(0, os.path.join(vlib.VERIF, 'gen'))
import c07_gen as G

LEVEL = 'proof'
MODULE = 'Properties_C07'
M64 = G.M64
STYLES = ['full', 'part', 'desig', 'mixed']
HEADER = 'typedef void (*fnptr)(void);\n' + G.PRELUDE + 'void sink(void *);\n'


# ---------------------------------------------------------------------------------------- cases
class Case:
    pass


def make_case(rng, target, uid, auto, style=None):
    for _ in range(50):
        g = G.Gen(rng, target, uid)
        root = g.gen_root()
        if auto and root.kind == 'arr' and root.n is None and rng.random() < 0.5:
            continue
        try:
            toks, m = g.gen_init(root, auto, style or rng.choice(STYLES))
        except G.SpecError:
            continue
        if m.size() == 0 or m.size() > 600:
            continue
        c = Case()
        c.gen, c.root, c.toks, c.m, c.auto, c.target, c.uid = g, root, toks, m, auto, target, uid
        c.size = m.size()
        c.params = list(getattr(g, 'params', []))
        c.opaque = {vid: val for _, vid, val, _ in c.params}
        c.name = ('x%d' if auto else 'g%d') % uid
        c.align = root.align
        c.bc = G.brace_complete(toks, m)
        m2 = G.replay_tokens(root, toks, g)
        if [(l.pos, l.width, l.kind) for l in m2.leaves] != [(l.pos, l.width, l.kind) for l in m.leaves] or m2.size() != c.size:
            raise RuntimeError('reference machine is not deterministic on ' + G.c_init(toks))
        return c
    raise RuntimeError('generator failed')


def case_decl(c, storage=''):
    return '%s%s = %s;' % (storage, c.root.decl(c.name), G.c_init(c.toks))


def case_source(c):
    """the declarations of one case (types, then the object or the function)"""
    out = [s.definition() for s in c.gen.structs]
    if c.auto:
        out.append('void f%d(%s) { %s sink(&%s); }' % (c.uid, ', '.join(p[0] for p in c.params) or 'void', case_decl(c), c.name))
    else:
        out.append(case_decl(c, getattr(c, 'storage', '')))
    return '\n'.join(out) + '\n'


def literals(c):
    """anonymous objects the initializer points to: sym id -> bytes"""
    out = {}
    for t in c.toks:
        if t[0] != 'e':
            continue
        e = t[1]
        if e.kind == 'str' and e.w == 1:
            out[e.sym] = bytes(e.data)
        elif e.kind == 'clit':
            out[e.sym] = bytes(e.lit[1].data) if e.lit[0] == 'str' else e.lit[1]
    return out


def numeric(img, rel, resolve):
    """bytes with the relocations applied through G.symaddr; resolve(sym) -> id or None"""
    b = bytearray(img)
    ok = True
    for off, (sym, add) in rel.items():
        i = resolve(sym)
        if i is None:
            ok = False
            i = 0xbad
        b[off:off + 8] = ((G.symaddr(i) + add) & M64).to_bytes(8, 'little')
    return bytes(b), ok


# ------------------------------------------------------------------------- decoding `data` text
DATA_RE = re.compile(r'^(thread )?(export )?data (\$\S+) = align (\d+) \{ (.*)\}$')


def decode_items(body):
    """items of a data definition -> (bytes, {off: (symname, addend)}, [item kinds])"""
    out = bytearray()
    rel = {}
    kinds = []
    i, n = 0, len(body)
    while i < n:
        while i < n and body[i] in ' ,':
            i += 1
        if i >= n:
            break
        letter = body[i]
        if letter not in 'bhwlsdz' or i + 1 >= n or body[i + 1] != ' ':
            raise ValueError('bad item at %d: %r' % (i, body[i:i + 20]))
        i += 2
        size = {'b': 1, 'h': 2, 'w': 4, 'l': 8, 's': 4, 'd': 8, 'z': 0}[letter]
        kinds.append(letter)
        while i < n and body[i] != ',':
            if body[i] == ' ':
                i += 1
                continue
            if body[i] == '"':
                j = i + 1
                while body[j] != '"':
                    if body[j] == '\\':
                        out.append(int(body[j + 1:j + 4], 8))
                        j += 4
                    else:
                        out.append(ord(body[j]))
                        j += 1
                i = j + 1
                kinds[-1] = 'str'
                continue
            j = i
            while j < n and body[j] not in ' ,':
                j += 1
            word = body[i:j]
            i = j
            if word.startswith('$'):
                add = 0
                mm = re.match(r' \+ (\d+)', body[i:])
                if mm:
                    add = int(mm.group(1))
                    i += mm.end()
                rel[len(out)] = (word, add & M64)
                out += bytes(8)
                kinds[-1] = 'ref'
            elif word.startswith('s_') or word.startswith('d_'):
                f = float(word[2:])
                out += struct.pack('<f', f) if letter == 's' else struct.pack('<d', f)
            elif letter == 'z':
                out += bytes(int(word))
            else:
                out += (int(word) & ((1 << (8 * size)) - 1)).to_bytes(size, 'little')
    return bytes(out), rel, kinds


def parse_il(il):
    """-> ({$name: dict(align, bytes, rel, kinds, thread, export)}, {$name: (signature, [lines])})"""
    datas, funcs = {}, {}
    cur = None
    for line in il.split('\n'):
        if cur is not None:
            if line == '}':
                cur = None
            else:
                cur.append(line.strip())
            continue
        m = DATA_RE.match(line)
        if m:
            b, rel, kinds = decode_items(m.group(5))
            datas[m.group(3)] = dict(align=int(m.group(4)), bytes=b, rel=rel, kinds=kinds, thread=bool(m.group(1)), export=bool(m.group(2)), text=line)
            continue
        m = re.match(r'^function (?:\S+ )?(\$\S+)\((.*)\) \{$', line)
        if m:
            cur = []
            funcs[m.group(1)] = (m.group(2), cur)
    return datas, funcs


def resolve_rel(datas, rel, lits_by_content):
    """relocations of a cproc definition with anonymous targets replaced by the id of their content"""
    out = {}
    for off, (sym, add) in rel.items():
        name = sym[1:]
        if name in G.SYMS:
            out[off] = (G.SYMS[name], add)
        elif sym in datas and (sym.startswith('$.L')):
            out[off] = (lits_by_content.get(datas[sym]['bytes'], ('?', datas[sym]['bytes'].hex())), add)
        else:
            out[off] = (('?', sym), add)
    return out


# -------------------------------------------------------------------------- executing the stores
class ILError(Exception):
    pass


def run_function(sig, lines, params):
    """straight-line evaluation of one function; returns (object image cells, store events)
    values: int | ('p', base, off);  memory cells: int | ('pb', value, k)"""
    env = {}
    regions = {}
    nalloc = [0]
    k = 0
    for part in [p.strip() for p in sig.split(',') if p.strip()]:
        if part == '...':
            continue
        cls, name = part.split(' ')
        if k >= len(params):
            raise ILError('more parameters than expected')
        val = params[k][2]
        k += 1
        if cls.startswith(':'):
            regions[('param', k)] = list(val)
            env[name] = ('p', ('param', k), 0)
        else:
            env[name] = int.from_bytes(val, 'little')
    events = []
    target = [None]

    def val(a, cls):
        a = a.strip()
        if a.startswith('%'):
            v = env[a]
        elif a.startswith('$'):
            return ('p', a, 0)
        elif a.startswith('s_'):
            return struct.unpack('<I', struct.pack('<f', float(a[2:])))[0]
        elif a.startswith('d_'):
            return struct.unpack('<Q', struct.pack('<d', float(a[2:])))[0]
        else:
            v = int(a) & M64
        if isinstance(v, int) and cls in 'ws':
            v &= 0xffffffff
        return v

    def store(addr, width, v):
        if not (isinstance(addr, tuple) and addr[1] in regions):
            raise ILError('store to %r' % (addr,))
        reg, off = regions[addr[1]], addr[2]
        if off < 0 or off + width > len(reg):
            raise ILError('store out of bounds: %d+%d > %d' % (off, width, len(reg)))
        if isinstance(v, tuple):
            if width != 8:
                raise ILError('narrow pointer store')
            cells = [('pb', v, j) for j in range(8)]
        else:
            cells = list((v & ((1 << (8 * width)) - 1)).to_bytes(width, 'little'))
        reg[off:off + width] = cells
        events.append((addr[1], off, width, tuple(cells)))

    def load(addr, width, signed):
        if not (isinstance(addr, tuple) and addr[1] in regions):
            raise ILError('load from %r' % (addr,))
        reg, off = regions[addr[1]], addr[2]
        if off < 0 or off + width > len(reg):
            raise ILError('load out of bounds')
        cells = reg[off:off + width]
        if all(isinstance(c, int) for c in cells):
            v = int.from_bytes(bytes(cells), 'little')
            if signed and v >> (8 * width - 1):
                v -= 1 << (8 * width)
            return v & M64
        if width == 8 and all(isinstance(c, tuple) and c[1] == cells[0][1] and c[2] == j for j, c in enumerate(cells)):
            return cells[0][1]
        raise ILError('load of mixed cells')

    def fl(bits, cls):
        return struct.unpack('<f', struct.pack('<I', bits & 0xffffffff))[0] if cls == 's' else struct.unpack('<d', struct.pack('<Q', bits & M64))[0]

    def unfl(f, cls):
        return struct.unpack('<I', struct.pack('<f', f))[0] if cls == 's' else struct.unpack('<Q', struct.pack('<d', f))[0]

    def sx(v, bits):
        v &= (1 << bits) - 1
        return (v - (1 << bits)) & M64 if v >> (bits - 1) else v

    for line in lines:
        if not line or line.startswith('@'):
            continue
        if line == 'ret' or line.startswith('ret '):
            break
        m = re.match(r'^(%\S+) =(\w) (\w+) (.*)$', line)
        if m:
            dst, cls, op, args = m.groups()
            a = [x.strip() for x in args.split(',')]
            bits = 32 if cls in 'ws' else 64
            mask = (1 << bits) - 1
            if op.startswith('alloc'):
                nalloc[0] += 1
                rid = ('alloc', nalloc[0])
                regions[rid] = [0xAA] * int(a[0])
                env[dst] = ('p', rid, 0)
                continue
            if op.startswith('load'):
                w, s = {'loadub': (1, 0), 'loadsb': (1, 1), 'loaduh': (2, 0), 'loadsh': (2, 1), 'loadw': (4, 0), 'loadsw': (4, 1), 'loaduw': (4, 0),
                        'loadl': (8, 0), 'loads': (4, 0), 'loadd': (8, 0)}[op]
                v = load(val(a[0], 'l'), w, s)
                env[dst] = v & mask if isinstance(v, int) else v
                continue
            x = val(a[0], cls)
            y = val(a[1], cls) if len(a) > 1 else None
            if op == 'copy':
                r = x
            elif op in ('add', 'sub') and (isinstance(x, tuple) or isinstance(y, tuple)):
                if isinstance(x, tuple) and isinstance(y, int):
                    d = sx(y, 64)
                    d = d - (1 << 64) if d >> 63 else d
                    r = ('p', x[1], x[2] + (d if op == 'add' else -d))
                elif op == 'add' and isinstance(y, tuple) and isinstance(x, int):
                    d = sx(x, 64)
                    d = d - (1 << 64) if d >> 63 else d
                    r = ('p', y[1], y[2] + d)
                else:
                    raise ILError('pointer arithmetic: ' + line)
            elif isinstance(x, tuple) or isinstance(y, tuple):
                raise ILError('pointer operand: ' + line)
            elif op == 'add':
                r = (x + y) & mask
            elif op == 'sub':
                r = (x - y) & mask
            elif op == 'mul':
                r = (x * y) & mask
            elif op == 'neg':
                r = (x ^ (1 << (bits - 1))) if cls in 'sd' else (-x) & mask
            elif op == 'and':
                r = x & y & mask
            elif op == 'or':
                r = (x | y) & mask
            elif op == 'xor':
                r = (x ^ y) & mask
            elif op == 'shl':
                r = (x << (y % bits)) & mask
            elif op == 'shr':
                r = (x & mask) >> (y % bits)
            elif op == 'sar':
                r = (sx(x, bits) if bits == 64 else sx(x, 32))
                r = ((r - (1 << 64) if r >> 63 else r) >> (y % bits)) & mask
            elif op in ('extsw', 'extuw', 'extsh', 'extuh', 'extsb', 'extub'):
                b = {'w': 32, 'h': 16, 'b': 8}[op[4]]
                xv = val(a[0], 'l') & ((1 << b) - 1)
                r = (sx(xv, b) if op[3] == 's' else xv) & mask
            elif op in ('cned', 'cnes', 'ceqd', 'ceqs'):
                fx, fy = fl(val(a[0], op[3]), op[3]), fl(val(a[1], op[3]), op[3])
                r = int((fx != fy) if op[1] == 'n' else (fx == fy))
            elif op in ('dtosi', 'dtoui', 'stosi', 'stoui'):
                r = int(fl(val(a[0], op[0]), op[0])) & mask
            elif op in ('swtof', 'sltof', 'uwtof', 'ultof'):
                b = 32 if op[1] == 'w' else 64
                xv = val(a[0], 'l') & ((1 << b) - 1)
                if op[0] == 's' and xv >> (b - 1):
                    xv -= 1 << b
                r = unfl(float(xv), cls)
            elif op == 'exts':
                r = unfl(fl(val(a[0], 's'), 's'), 'd')
            elif op == 'truncd':
                r = unfl(fl(val(a[0], 'd'), 'd'), 's')
            elif op in ('cnew', 'cnel', 'ceqw', 'ceql'):
                xs, ys = val(a[0], op[3]), val(a[1], op[3])
                r = int((xs != ys) if op[1] == 'n' else (xs == ys))
            else:
                raise ILError('unsupported op: ' + line)
            env[dst] = r
            continue
        m = re.match(r'^store(\w) (.*), (\S+)$', line)
        if m:
            w = {'b': 1, 'h': 2, 'w': 4, 'l': 8, 's': 4, 'd': 8}[m.group(1)]
            store(val(m.group(3), 'l'), w, val(m.group(2), 'l' if w == 8 else 'w'))
            continue
        m = re.match(r'^call \$sink\(l (%\S+)\)$', line)
        if m:
            target[0] = env[m.group(1)]
            continue
        raise ILError('unsupported line: ' + line)
    if target[0] is None:
        raise ILError('no call to sink')
    rid = target[0][1]
    return regions[rid], [(off, w, cells) for r, off, w, cells in events if r == rid]


def cells_numeric(cells, resolve):
    """memory cells -> bytes with pointers made numeric; resolve(base) -> sym id or None"""
    out = bytearray()
    ok = True
    for c in cells:
        if isinstance(c, int):
            out.append(c)
        else:
            _, v, k = c
            i = resolve(v[1])
            if i is None:
                ok = False
                i = 0xbad
            out.append((((G.symaddr(i) + v[2]) & M64) >> (8 * k)) & 255)
    return bytes(out), ok


# ------------------------------------------------------------------------ the oracle (Coq model)
def oracle_input(c):
    tt = G.TypeTable(c.gen)
    root = tt.add(c.root)
    s = tt.text() + 'R %d\nA %d\n' % (root, c.root.align)
    for vid, val in c.opaque.items():
        s += 'O %d %s\n' % (vid, val.hex())
    s += 'K ' + G.oracle_tokens(c.toks, c.gen) + '\n'
    if c.bc:
        s += 'L ' + G.oracle_tokens(c.toks, c.gen) + '\n'
    return s + 'G\n'


def run_oracle(oracle, cases):
    inp = ''.join(oracle_input(c) for c in cases)
    rc, out, err = sh([oracle], input=inp.encode(), timeout=600)
    blocks = txt(out).split('.\n')
    res = []
    for b in blocks[:len(cases)]:
        d = dict(P=None, I=[], D=None, DB=None, DN=None, F=None, FM=None, E=None)
        for line in b.split('\n'):
            if not line:
                continue
            k, _, rest = line.partition(' ')
            if k == 'I':
                d['I'].append(rest.split(' '))
            elif k in d:
                d[k] = rest
            elif k == '?':
                d['P'] = 'err ORACLE-INPUT ' + rest
        res.append(d)
    while len(res) < len(cases):
        res.append(dict(P='err ORACLE-DIED ' + txt(err)[-200:], I=[], D=None, DB=None, DN=None, F=None, FM=None, E=None))
    return res


def model_events(fline, opaque, size):
    """the model's op list executed in Python: store events and final memory (garbage 0xAA)"""
    mem = bytearray([0xAA] * (size + 16))
    events = []

    def num(v):
        if v[0] == 'c':
            return int(v[1:])
        if v[0] == 'f':
            return int(v.split('.')[1])
        if v[0] == 'a':
            s, o = v[1:].split('+')
            return (G.symaddr(int(s)) + int(o)) & M64
        return int.from_bytes(opaque[int(v[1:])], 'little')

    def put(off, w, x):
        b = (x & ((1 << (8 * w)) - 1)).to_bytes(w, 'little')
        if off + w > len(mem):
            raise ILError('model store out of bounds')
        mem[off:off + w] = b
        events.append((off, w, b))

    for op in fline.split(' ')[1:]:
        f = op.split(':')
        if f[0] == 'Z':
            put(int(f[1]), int(f[2]), 0)
        elif f[0] == 'S':
            put(int(f[1]), int(f[2]), num(f[3]))
        elif f[0] == 'B':
            off, sz, before, aft = map(int, f[1:5])
            cls = (1 << 32) if sz <= 4 else (1 << 64)
            mask = ((M64 >> (64 - sz * 8 + before + aft)) << before) & M64
            old = int.from_bytes(mem[off:off + sz], 'little')
            v = (num(f[5]) << before) % cls
            put(off, sz, (v & mask) | (old & ~mask & (cls - 1)))
        elif f[0] == 'C':
            off, sz, al, vid = map(int, f[1:5])
            a = al if al in (1, 2, 4) else 8
            src = opaque[vid]
            k = 0
            while True:
                put(off + k, a, int.from_bytes(src[k:k + a].ljust(a, b'\0'), 'little'))
                k += a
                if k >= sz:
                    break
    return events, bytes(mem)


# ------------------------------------------------------------------------------- gcc reference
DUMPER = r'''
#include <stdio.h>
static void dumpobj(const char *n, const void *p, unsigned long sz, unsigned long al) {
	printf("OBJ %s %lu %lu ", n, sz, al);
	for (unsigned long i = 0; i < sz; i++) printf("%02x", ((const unsigned char *)p)[i]);
	printf("\n");
}
static void dumpanon(const char *n, const void *obj, unsigned long off, long addend, unsigned long len) {
	const unsigned char *q = *(const unsigned char *const *)((const char *)obj + off);
	printf("ANON %s %lu ", n, off);
	q -= addend;
	for (unsigned long i = 0; i < len; i++) printf("%02x", q[i]);
	printf("\n");
}
void gfn(void) {} void gfn2(void) {} void sink(void *p) {}
'''


def gcc_reference(tmp, tag, cases, cc='gcc'):
    """compile the static cases with gcc, run the dumper; -> {uid: dict(size, align, bytes, anon, syms)} or error text per uid"""
    def build(cs, name):
        src = HEADER + ''.join(case_source(c) for c in cs) + DUMPER + 'int main(void) {\n'
        for n in G.SYMS:
            src += '\tprintf("SYM %s %%lu\\n", (unsigned long)%s%s);\n' % (n, '' if n in ('gfn', 'gfn2', 'garr', 'gsh', 'gsa', 'gbuf') else '&', n)
        for c in cs:
            src += '\tdumpobj("%s", &%s, sizeof %s, _Alignof(%s));\n' % (c.name, c.name, c.name, c.root.decl('').replace('[]', '[%d]' % (c.size // max(c.root.elem.size, 1))) if c.root.kind == 'arr' and c.root.n is None else c.root.decl(''))
            _, rel = G.image(c.m.leaves, c.size, c.opaque)
            lits = literals(c)
            for off, (sym, add) in rel.items():
                if sym >= 1000:
                    sadd = add - (1 << 64) if add >> 63 else add
                    src += '\tdumpanon("%s", &%s, %d, %d, %d);\n' % (c.name, c.name, off, sadd, len(lits[sym]))
        src += '\treturn 0;\n}\n'
        p = os.path.join(tmp, name)
        open(p + '.c', 'w').write(src)
        rc, o, e = sh('%s -std=gnu11 -w -O0 -fno-pie -no-pie -o %s %s.c' % (cc, p, p), timeout=120)
        if rc != 0:
            return None, txt(e)[-1500:]
        rc, o, e = run_limited([p], timeout=20)
        if rc != 0:
            return None, 'dumper failed rc=%d' % rc
        return txt(o), None

    res = {}
    out, err = build(cases, 'gcc_%s' % tag)
    groups = [(cases, out, err)]
    if out is None and len(cases) > 1:
        groups = []
        for c in cases:
            o, e = build([c], 'gcc_%s_%d' % (tag, c.uid))
            groups.append(([c], o, e))
    for cs, o, e in groups:
        if o is None:
            for c in cs:
                res[c.uid] = dict(error=e)
            continue
        syms = {}
        objs = {}
        anon = {}
        for line in o.split('\n'):
            f = line.split(' ')
            if f[0] == 'SYM':
                syms[f[1]] = int(f[2])
            elif f[0] == 'OBJ':
                objs[f[1]] = (int(f[2]), int(f[3]), bytes.fromhex(f[4]) if len(f) > 4 else b'')
            elif f[0] == 'ANON':
                anon[(f[1], int(f[2]))] = bytes.fromhex(f[3]) if len(f) > 3 else b''
        for c in cs:
            if c.name in objs:
                sz, al, b = objs[c.name]
                res[c.uid] = dict(size=sz, align=al, bytes=b, anon={k[1]: v for k, v in anon.items() if k[0] == c.name}, syms=syms)
            else:
                res[c.uid] = dict(error='object missing in dump')
    return res


def gcc_compare(c, g):
    """reference image vs the gcc dump; returns None when equal else a description"""
    img, rel = G.image(c.m.leaves, c.size, c.opaque)
    if g['size'] != c.size:
        return 'size: reference %d gcc %d' % (c.size, g['size'])
    if g['align'] != c.root.align:
        return 'align: reference %d gcc %d' % (c.root.align, g['align'])
    gb = bytearray(g['bytes'])
    lits = literals(c)
    inv = {v: k for k, v in G.SYMS.items()}
    for off, (sym, add) in rel.items():
        p = int.from_bytes(gb[off:off + 8], 'little')
        gb[off:off + 8] = bytes(8)
        if sym >= 1000:
            if g['anon'].get(off) != lits[sym]:
                return 'anonymous target at %d: reference %s gcc %s' % (off, lits[sym].hex(), (g['anon'].get(off) or b'').hex())
        else:
            if p != (g['syms'][inv[sym]] + add) & M64:
                return 'pointer at %d: expected %s+%d' % (off, inv[sym], add)
    ref = bytearray(img)
    for off in rel:
        ref[off:off + 8] = bytes(8)
    if bytes(gb) != bytes(ref):
        return 'bytes: reference %s gcc %s' % (bytes(ref).hex(), bytes(gb).hex())
    return None


# -------------------------------------------------------------------------- checking one batch
def lit_map(cases):
    m = {}
    for c in cases:
        for sym, b in literals(c).items():
            m.setdefault(b, sym)
    return m


def canon_rel(c, rel, lmap):
    """reference relocations with literal ids replaced by the batch-wide id of their content"""
    return dict(rel)          # literal ids are hashes of the content already


def has_cover_leaves(c):
    """a leaf write nested in an earlier, larger one (the known defect of funcinit applies)"""
    ls = c.m.leaves
    return any(p.pos <= l.pos and l.pos + l.width <= p.pos + p.width and p.width > l.width for k, l in enumerate(ls) for p in ls[:k])


def has_cover(o):
    """an entry of the model's init list nested in an earlier one"""
    spans = []
    for f in o['I']:
        s, e, b, a = map(int, f[:4])
        bs, be = 8 * s + b, 8 * e - a
        if any(ps <= bs and be <= pe for ps, pe in spans):
            return True
        spans.append((bs, be))
    return False


def features(c, o):
    f = set()
    if any(t[0] == 'd' for t in c.toks):
        f.add('designator')
    if c.m.elided:
        f.add('elision')
    if c.root.kind == 'arr' and c.root.n is None:
        f.add('unknown-size')
    for lf in c.m.leaves:
        if lf.kind == 'str':
            n = lf.width // (8 * lf.w)
            f.add('string-' + ('short' if len(lf.data) < n else 'exact' if len(lf.data) == n else 'noterm' if len(lf.data) == n + 1 else 'long'))
            if lf.w > 1:
                f.add('string-wide')
        if lf.kind == 'addr':
            f.add('reloc-lit' if lf.sym >= 1000 else 'reloc')
        if lf.kind == 'opq':
            f.add('runtime-value')
        if lf.pos % 8 or lf.width % 8:
            f.add('bitfield')
    spans = sorted((lf.pos, lf.pos + lf.width) for lf in c.m.leaves)
    seen = []
    for k, lf in enumerate(c.m.leaves):
        for p in c.m.leaves[:k]:
            if p.pos < lf.pos + lf.width and lf.pos < p.pos + p.width:
                f.add('override')
                if not (p.pos >= lf.pos and p.pos + p.width <= lf.pos + lf.width):
                    f.add('override-partial')
    if o and has_cover(o):
        f.add('nested-entry')
    if o and o['D'] and ' z=' in o['D']:
        f.add('gap')
    return f


class Runner:
    def __init__(self, ctx, oracle):
        self.ctx, self.oracle = ctx, oracle
        self.stats = dict(static=0, auto=0, gcc=0, gcc_skipped=0, elab=0, model_err=0, files=0, events=0)
        self.feat = {}
        self.samples = []
        self.seen = set()
        self.nontrivial = set()
        self.viol = []          # (what, key, case)
        self.drift = []
        self.specbad = []
        self.quirks = []
        self.qbe_oracle = None
        self.qbe_bad = []

    # one file per batch: static cases -> data definitions, automatic cases -> functions
    def run_batch(self, cases, target, with_gcc):
        ctx = self.ctx
        src = HEADER + ''.join(case_source(c) for c in cases)
        rc, il, err = ctx.qbe(src, target=target)
        per = {}
        if rc != 0:
            # some case is rejected or crashes: run them one by one
            for c in cases:
                rc1, il1, err1 = ctx.qbe(HEADER + case_source(c), target=target)
                per[c.uid] = (rc1, il1, err1)
        self.stats['files'] += 1
        ora = run_oracle(self.oracle, cases)
        gref = gcc_reference(ctx.tmp, '%s_%d' % (target, cases[0].uid), [c for c in cases if not c.auto]) if with_gcc else {}
        lmap = lit_map(cases)
        if rc == 0:
            try:
                datas, funcs = parse_il(il)
            except ValueError as e:
                ctx.broken('correspondence', 'data-decoder', '%s\n%s' % (e, il[-2000:]))
                return
        for c, o in zip(cases, ora):
            if rc != 0:
                rc1, il1, err1 = per[c.uid]
                if rc1 != 0:
                    self.rejected(c, o, rc1, err1)
                    continue
                try:
                    datas, funcs = parse_il(il1)
                except ValueError as e:
                    ctx.broken('correspondence', 'data-decoder', str(e))
                    continue
                lm = lit_map([c])
            else:
                lm = lmap
            try:
                self.check_case(c, o, datas, funcs, lm, gref.get(c.uid))
            except ILError as e:
                ctx.broken('correspondence', 'il-evaluator', '%s\n%s' % (e, case_source(c)))
        if rc == 0:
            self.run_under_qbe(cases, target)

    def run_under_qbe(self, cases, target):
        """second opinion for the automatic objects: the whole IL (functions, a dumping `sink`, a `main` that calls
        every function) executed by the shared IL semantics (ocaml/qbe/oracle run, coq/Model/Qbe.v)"""
        if not self.qbe_oracle:
            return
        sel = [c for c in cases if c.auto and not any(lf.kind == 'addr' for lf in c.m.leaves)
               and all(t.kind in ('int', 'bool', 'ptr') for _, _, _, t in c.params)]     # (by-value aggregates: QBE's :type layout is C08's business)
        if not sel:
            return
        src = HEADER.replace('void sink(void *);\n', '') + 'void out_l(long);\nstatic unsigned long cursz;\n' \
            'void sink(void *p) { unsigned char *q = p; unsigned long i; for (i = 0; i < cursz; i++) out_l(q[i]); }\n'
        body = ''
        for c in sel:
            src += case_source(c).replace('void sink(void *);', '')
            args = []
            for decl, vid, val, t in c.params:
                if t.kind in ('struct', 'union'):
                    # (padded: QBE's own layout of the parameter's :type may be larger than the C object - C08's business)
                    src += '_Alignas(16) static unsigned char pv%d_%d[%d] = { %s };\n' % (c.uid, vid, len(val) + 64, ', '.join(map(str, val)))
                    args.append('*(%s *)pv%d_%d' % (t.decl(''), c.uid, vid))
                elif t.kind == 'ptr':
                    args.append('(%s)%dul' % (t.decl('').strip(), int.from_bytes(val, 'little')))
                else:
                    v = int.from_bytes(val, 'little', signed=bool(t.signed))
                    args.append('(%s)%s' % (t.decl('').strip(), ('%dl' % v) if v > -(1 << 63) else '(-9223372036854775807l - 1)') if t.size < 8 or t.signed
                                else '%dul' % v)
            body += '\tcursz = %d; f%d(%s);\n' % (c.size, c.uid, ', '.join(args))
        src += 'int main(void) {\n' + body + '\treturn 0;\n}\n'
        rc, il, err = self.ctx.qbe(src, target=target)
        if rc != 0:
            self.stats['qbe_skipped'] = self.stats.get('qbe_skipped', 0) + len(sel)
            return
        p = os.path.join(self.ctx.tmp, 'run_%s_%d.ssa' % (target, sel[0].uid))
        open(p, 'w').write(il)
        rc, out, err = run_limited([self.qbe_oracle, 'run', p, '3000000', 'main'], timeout=120)
        vals = []
        status = None
        for line in txt(out).split('\n'):
            if line.startswith('out_l '):
                vals.append(int(line[6:]) & 255)
            elif line and not line.startswith('#'):
                status = line
        if status != 'status 0':
            self.stats['qbe_skipped'] = self.stats.get('qbe_skipped', 0) + len(sel)
            self.ctx.notes.append('Qbe.run did not finish a batch: %s' % status)
            return
        k = 0
        for c in sel:
            got = bytes(vals[k:k + c.size])
            k += c.size
            img, rel = G.image(c.m.leaves, c.size, c.opaque)
            self.stats['qbe_run'] = self.stats.get('qbe_run', 0) + 1
            if got != img and not (has_cover_leaves(c)):
                self.qbe_bad.append(('Qbe.run of the emitted IL gives %s, the reference %s (%s)' % (got.hex(), img.hex(), status), c))

    def rejected(self, c, o, rc, err):
        """cproc rejects (or dies on) a valid initializer"""
        first = (err.strip().split('\n') or [''])[-1][:200]
        if rc < 0 or rc > 1 or 'Assertion' in err:
            key = 'cproc-crash'
            if 'cur->expr->kind == EXPRSTRING' in err and getattr(c, 'union_switch', False):
                key = 'union-two-members-initialised'
            self.viol.append(('cproc dies on a valid initializer (rc=%d): %s' % (rc, first), key, c))
        else:
            self.viol.append(('cproc rejects a valid initializer: %s' % first, 'cproc-rejects-valid', c))
        if o['P'] and o['P'].startswith('ok') and not (o['D'] or '').startswith('err'):
            self.drift.append(('model accepts what cproc rejects: %s' % first, c))

    def check_case(self, c, o, datas, funcs, lmap, gref):
        st = self.stats
        img, rel = G.image(c.m.leaves, c.size, c.opaque)
        crel = canon_rel(c, rel, lmap)
        S, _ = numeric(img, crel, lambda s: s)
        text = case_source(c)
        h = hashlib.sha1((c.target + text).encode()).hexdigest()
        new = h not in self.seen
        self.seen.add(h)
        fs = features(c, o)
        for f in fs:
            self.feat[f] = self.feat.get(f, 0) + 1
        if new and fs:
            self.nontrivial.add(h)
        if len(self.samples) < 6 and fs and len(text) < 500:
            self.samples.append(text.strip().split('\n')[-1])
        # ---- reference vs gcc
        if gref is not None:
            d = ('gcc rejects the declaration: ' + gref['error'][-300:]) if 'error' in gref else gcc_compare(c, gref)
            st['gcc'] += 1
            if d:
                # second opinion: clang (gcc mis-places, or rejects as "excess elements", a string literal that follows
                # designated items or a brace-elided character array)
                cref = gcc_reference(self.ctx.tmp, 'clang_%d' % c.uid, [c], cc='clang').get(c.uid, {})
                if 'error' not in cref and gcc_compare(c, cref) is None:
                    st['gcc_quirk'] = st.get('gcc_quirk', 0) + 1
                    self.quirks.append(case_source(c).strip().split('\n')[-1][:300])
                else:
                    self.specbad.append(('reference differs from gcc (and clang): ' + d, c))
        # ---- the model's own consistency
        if not (o['P'] or '').startswith('ok'):
            st['model_err'] += 1
            self.drift.append(('model rejects a valid initializer: %s' % o['P'], c))
            mok = False
        else:
            mok = True
            msize = int(o['P'].split(' ')[1])
            if msize != c.size or int(o['P'].split(' ')[2]) != 0:
                self.drift.append(('model: object size %d (reference %d), tokens left %s' % (msize, c.size, o['P'].split(' ')[2]), c))
                mok = False
        Mdn = bytes.fromhex(o['DN']) if mok and o['DN'] is not None else None
        if c.bc and mok:
            st['elab'] += 1
            if o['E'] is None or o['E'] in ('none', 'bad') or bytes.fromhex(o['E']) != S:
                self.drift.append(('InitSpec.elab image %s differs from the reference %s' % (o['E'], S.hex()), c))
        if not c.auto:
            st['static'] += 1
            name = '$' + c.name
            if name not in datas:
                self.viol.append(('no data definition emitted', 'static-missing', c))
                return
            d = datas[name]
            C, cok = numeric(d['bytes'], resolve_rel(datas, d['rel'], lmap), lambda s: s if isinstance(s, int) else None)
            if len(d['bytes']) != c.size:
                self.viol.append(('definition has %d bytes, the object %d' % (len(d['bytes']), c.size), 'static-size', c))
            elif d['align'] < c.align:
                self.viol.append(('definition aligned to %d, the object needs %d' % (d['align'], c.align), 'static-align', c))
            elif C != S or not cok:
                self.viol.append(('static image differs: cproc %s  expected %s  (%s)' % (C.hex(), S.hex(), d['text'][:300]), self.classify(c, o, 'static-image-mismatch'), c))
            if getattr(c, 'storage', '').startswith('_Thread_local') and not d['thread']:
                self.viol.append(('thread storage lost', 'static-thread', c))
            if mok:
                if (o['D'] or '').startswith('ok'):
                    MB = bytes.fromhex(o['DB'])
                    if MB != C or not cok:
                        self.drift.append(('emitdata model bytes %s, cproc %s' % (MB.hex(), C.hex()), c))
                    if Mdn != MB and not has_cover(o):
                        self.drift.append(('model: image of the init list %s differs from its emitdata bytes %s' % (Mdn.hex(), MB.hex()), c))
                else:
                    self.drift.append(('emitdata model fails (%s) where cproc emits a definition' % o['D'], c))
        else:
            st['auto'] += 1
            name = '$f%d' % c.uid
            if name not in funcs:
                self.viol.append(('function not emitted', 'auto-missing', c))
                return
            cells, events = run_function(funcs[name][0], funcs[name][1], c.params)
            inv_l = {}
            for sym, b in literals(c).items():
                inv_l[b] = lmap[b]

            def res(base):
                if isinstance(base, str):
                    n = base[1:]
                    if n in G.SYMS:
                        return G.SYMS[n]
                    if base in datas:
                        return inv_l.get(datas[base]['bytes'])
                return None
            A, aok = cells_numeric(cells, res)
            agrees = False
            if mok:
                if (o['F'] or '').startswith('ok'):
                    mev, mmem = model_events(o['F'], c.opaque, c.size)
                    if mmem != bytes.fromhex(o['FM']):
                        self.drift.append(('AutoInit.exec (Coq) and the Python reading of the operations disagree', c))
                    cev = [(off, w, cells_numeric(cl, res)[0]) for off, w, cl in events]
                    st['events'] += len(cev)
                    agrees = cev == mev
                    if not agrees:
                        k = next((i for i, (x, y) in enumerate(zip(cev, mev)) if x != y), min(len(cev), len(mev)))
                        self.drift.append(('funcinit model: store #%d differs: cproc %s model %s (of %d/%d)' % (
                            k, cev[k] if k < len(cev) else None, mev[k] if k < len(mev) else None, len(cev), len(mev)), c))
                else:
                    self.drift.append(('funcinit model fails: %s' % o['F'], c))
            if len(A) != c.size:
                self.viol.append(('automatic object allocated with %d bytes, needs %d' % (len(A), c.size), 'auto-size', c))
            elif A != S or not aok:
                # the known defect: exactly the modelled store sequence, with an entry nested in an earlier one
                key = self.classify(c, o, 'auto-image-mismatch') if agrees else 'auto-image-mismatch'
                self.viol.append(('automatic object differs: stores give %s  expected %s' % (A.hex(), S.hex()), key, c))

    def classify(self, c, o, default):
        if getattr(c, 'union_switch', False):
            return 'union-two-members-initialised'
        if c.auto and o and has_cover(o):
            return 'funcinit-zero-after-covered-entry'
        if getattr(c, 'lead_unnamed', False):
            return 'focus-first-member-offset-zero'
        return default


# ------------------------------------------------------------------------------- fixed corpus
# (declarations, object, expected bytes hex or None = take gcc's, key when it is a known/fixed finding)
REGRESS = [
    ('struct S1 { char s[4]; }; struct S1 r1 = { "abc", .s[3] = \'d\' };', 'r1', 'initadd-replaces-same-end-cover'),
    ('struct S2 { char s[8]; }; struct S2 r2 = { "abc", .s[6] = \'x\' };', 'r2', 'emitdata-patch-beyond-string'),
    ('struct W2 { int s[8]; }; struct W2 r3 = { L"abc", .s[5] = \'x\' };', 'r3', 'emitdata-patch-beyond-string'),
    ('struct S4 { int a; struct { int x; int y; }; int b; int c; }; struct S4 r4 = { 5, 6, 7, 8, .y = 1, 2 };', 'r4', 'findmember-anonymous-parent-cursor-stale'),
    ('struct S5 { int a; struct { int x; int y; }; int b; int c; }; struct S5 r5 = { .c = 5, .y = 1, 2 };', 'r5', 'findmember-anonymous-parent-cursor-stale'),
    ('struct S6 { int a; struct { int x; int y; }; int b; int c; }; struct S6 r6 = { .y = 1, 2 };', 'r6', 'findmember-anonymous-parent-cursor-stale'),
    ('struct S7 { int :32; int a; int b; }; struct S7 r7 = { 7, 8 };', 'r7', 'focus-first-member-offset-zero'),
    ('struct S8 { char s[8]; int c; }; struct S8 r8 = { "abcdef", .s[1] = \'x\', .c = 1 };', 'r8', None),
    ('union U9 { int a; char b; }; union U9 r9 = { .b = 2, .a = 1 };', 'r9', None),
    ('struct S10 { int a:3; int b:5; unsigned c:12; long d:40; char e; }; struct S10 r10 = { -1, 9, 0xabc, -2, \'e\' };', 'r10', None),
    ('short r11[] = { [3] = 1, 2, [1] = 7 };', 'r11', None),
    ('struct E15 { int p; }; struct A15 { struct E15 a[3]; int b; }; struct A15 r15 = { { { 1 }, { }, { 5 } }, 7 };', 'r15', None),
    ('struct S16 { int :32; int a; int b; }; struct S16 r16 = { .a = 7, 8 };', 'r16', None),
    # arrays of unknown size: the size is the largest index ever designated plus what follows it, whatever the order
    ('int r23[] = { [5] = 50, [1] = 10, 20 };', 'r23', None),
    ('struct P24 { char c; short s[2]; }; struct P24 r24[] = { [3].c = 1, [0] = { 2, { 3, 4 } }, [1].s[1] = 5 };', 'r24', None),
    ('char r25[][3] = { [2] = "ab", [0] = "c", "d" };', 'r25', None),
    # designator chains that reach five and more levels down before a braced sub-list
    ('struct cube27 { int cell[2][2][2][2][2][2]; int n; }; struct cube27 r27 = { .cell[1][0][1][0][1] = {7, 8}, 9 };', 'r27', None),
    ('struct leaf28 { int v[2]; int w; }; struct tree28 { struct { struct { struct { struct { struct leaf28 e; int d4; } d; int d3; } c; int d2; } b; int d1; } a; int top; };'
     ' struct tree28 r28 = { .a.b.c.d.e.v = {1, 2}, 3, 4, 5, 6, 7, 8 };', 'r28', None),
    # concatenated literals take the prefix of whichever part has one
    ('unsigned short r31[] = u"ab" "cd";', 'r31', None),
    ('struct W32 { int w[6]; unsigned short h[4]; }; struct W32 r32 = { L"ab" "c", "x" u"y" };', 'r32', None),
    # an override of the element right after a string literal's terminator, and further on
    ('struct S35 { char s[8]; } r35 = { "abc", .s[4] = \'x\' };', 'r35', None),
    ('struct S36 { unsigned s[8]; } r36 = { U"abcde", .s[6] = 1, .s[7] = 2 };', 'r36', None),
    ('struct S37 { unsigned short s[6]; } r37 = { u"ab", .s[3] = 7 };', 'r37', None),
    ('struct S38 { char s[6]; } r38 = { "a", .s[2] = 1, .s[3] = 2, .s[4] = 3 };', 'r38', None),
    # wide arrays longer than their string literal: the zero padding is counted in bytes; the members after them keep their offsets
    ('unsigned r39[8] = U"ab";', 'r39', None),
    ('struct S40 { unsigned s[4]; int n; } r40 = { U"q", 77 };', 'r40', None),
    ('unsigned short r41[5] = u"abc";', 'r41', None),
    # wide literals with more elements than the array (the terminator does not fit, or not even all characters: 6.7.9p14 allows the first; gcc truncates both)
    ('unsigned short r43[3] = u"abc";', 'r43', None),
    ('struct S44 { unsigned short tag[2]; int n; } r44 = { u"xy", 7 };', 'r44', None),
    # an initializer belongs to its own declarator only
    ('_Thread_local int r42a = 7, r42; int r45a = 3, r45, r46 = 4;', 'r42', None),
    # objects declared before their type is complete: image, size and alignment of the completed type
    ('struct L17 r17; struct L17 { long a; char c; }; struct L17 r17 = { 5, 6 };', 'r17', None),
    ('union L18 r18; union L18 { char c[3]; int i; };', 'r18', None),
    ('extern struct L19 r19; struct L19 { char c; _Alignas(16) short h; }; struct L19 r19 = { 1, 2 };', 'r19', None),
    # a numeric escape followed by non-ASCII source characters in the same literal: the characters are still encoded
    ('struct S20 { char s[8]; char t[6]; }; struct S20 r20 = { "\\1\u00e9", "\\x7f\u20ac" };', 'r20', None),
    ('unsigned short r21[] = u"\\1\U0001f600\\2\u00e9";', 'r21', None),
    ('char r22[] = "\\33[1m\u00b5s" "\\0\u00b5";', 'r22', None),
]
# known findings: probed on every run (static objects; expected bytes from gcc)
KNOWN_STATIC = [
    ('struct P13 { int x, y; }; struct Q13 { struct P13 a; } k13 = { .a.x = 1, .a = { .y = 2 } };', 'k13', 'braced-override-keeps-earlier-members'),
    ('struct E14 { int p; }; struct A14 { struct E14 a[3]; int b; }; struct A14 k14 = { { { }, { 5 } }, 7 };', 'k14', 'empty-braces-first-item-not-consumed'),
]
# automatic objects: (declarations, body of `void f(void)`, object, size, key)
AUTO_PROBES = [
    ('struct S20 { char s[8]; int c; };', 'struct S20 x = { "abcdef", .s[1] = \'x\', .c = 1 };', 12, 'funcinit-zero-after-covered-entry'),
    ('struct S21 { int a:3; int b:5; unsigned c:12; long d:40; char e; short f; };', 'struct S21 x = { -1, 9, 0xabc, -2, \'e\' };', 16, None),
    ('struct S22 { char a; int b[3]; char c; };', 'struct S22 x = { .b[1] = 7, .c = 3 };', 20, None),
    ('union U23 { int a; char b; };', 'union U23 x = { .a = 1, .b = 2 };', 4, None),
    ('', 'int x[] = { [5] = 50, [1] = 10, 20 };', 24, None),
    # copies of aggregates aligned to 16 and more move every byte
    ('struct V33 { _Alignas(16) long a; long b; long c; long d; };', 'struct V33 s = { 1, 2, 3, 4 }; struct V33 x = s;', 32, None),
    # an automatic compound literal with empty braces is zero
    ('struct E50 { int a[6]; };', 'struct E50 *q = &(struct E50){}; struct E50 x = *q;', 24, None),
    # the tail of a wide character array after a shorter string literal is zero
    ('', 'unsigned short x[8] = u"ab";', 16, None),
    ('', 'int x[5] = L"a";', 20, None),
    ('struct P26 { int v[2]; };', 'struct P26 x[] = { [2].v[1] = 7, [0] = { { 1, 2 } }, { { 3 } } };', 24, None),
]
D18 = ('union U18 { int a; char b; }; union U18 d18 = { .a = 1, .b = 2 };', 'd18')


def run_regress(ctx, R):
    REGRESS = globals()['REGRESS'] + KNOWN_STATIC
    src = HEADER + '\n'.join(r[0] for r in REGRESS) + DUMPER + 'int main(void) {\n' + ''.join(
        '\tdumpobj("%s", &%s, sizeof %s, _Alignof(%s));\n' % (r[1], r[1], r[1], r[1]) for r in REGRESS) + '\treturn 0; }\n'
    p = os.path.join(ctx.tmp, 'regress')
    open(p + '.c', 'w').write(src)
    rc, o, e = sh('gcc -std=gnu11 -w -O0 -o %s %s.c' % (p, p), timeout=120)
    exp, expal = {}, {}
    if rc == 0:
        rc, o, e = run_limited([p], timeout=20)
        for line in txt(o).split('\n'):
            f = line.split(' ')
            if f[0] == 'OBJ':
                exp[f[1]] = bytes.fromhex(f[4])
                expal[f[1]] = int(f[3])
    if len(exp) != len(REGRESS):
        ctx.broken('correspondence', 'regress-gcc', 'gcc reference for the fixed corpus failed: ' + txt(e)[-500:])
        return 0
    n = 0
    for decl, name, key in REGRESS:
        rc, il, err = ctx.qbe(HEADER + decl + '\n')
        n += 1
        if rc != 0:
            first = (err.strip().split('\n') or [''])[-1][:200]
            R.viol.append(('fixed corpus: cproc fails (rc=%d) on `%s`: %s' % (rc, decl, first), key or 'regress-' + name, decl))
            continue
        datas, _ = parse_il(il)
        got = datas.get('$' + name, {}).get('bytes')
        if got != exp[name]:
            R.viol.append(('fixed corpus: `%s` gives %s, expected %s' % (decl, got.hex() if got is not None else None, exp[name].hex()), key or 'regress-' + name, decl))
        elif datas['$' + name]['align'] != expal[name]:
            R.viol.append(('fixed corpus: `%s` is defined with alignment %d, its type has alignment %d' % (decl, datas['$' + name]['align'], expal[name]), key or 'regress-' + name, decl))
    # automatic probes: gcc runs the function, cproc's stores are executed
    src = HEADER.replace('void sink(void *);', '') + '#include <stdio.h>\nstatic unsigned long cursz;\nstatic void sink(void *p) { for (unsigned long i = 0; i < cursz; i++) printf("%02x", ((unsigned char *)p)[i]); printf("\\n"); }\nvoid gfn(void) {} void gfn2(void) {}\n'
    for k, (decl, body, size, key) in enumerate(AUTO_PROBES):
        src += '%s\nvoid fa%d(void) { %s sink(&x); }\n' % (decl, k, body)
    src += 'int main(void) {\n' + ''.join('\tcursz = %d; fa%d();\n' % (p[2], k) for k, p in enumerate(AUTO_PROBES)) + '\treturn 0; }\n'
    p = os.path.join(ctx.tmp, 'autoprobe')
    open(p + '.c', 'w').write(src)
    rc, o, e = sh('gcc -std=gnu11 -w -O0 -o %s %s.c' % (p, p), timeout=120)
    lines = []
    if rc == 0:
        rc, o, e = run_limited([p], timeout=20)
        lines = txt(o).split()
    if len(lines) != len(AUTO_PROBES):
        ctx.broken('correspondence', 'regress-gcc', 'gcc reference for the automatic probes failed: ' + txt(e)[-500:])
    else:
        for k, (decl, body, size, key) in enumerate(AUTO_PROBES):
            text = '%s\nvoid fa%d(void) { %s sink(&x); }\n' % (decl, k, body)
            rc, il, err = ctx.qbe(HEADER + text)
            n += 1
            try:
                if rc != 0:
                    raise ILError('cproc fails (rc=%d): %s' % (rc, (err.strip().split('\n') or [''])[-1][:160]))
                _, funcs = parse_il(il)
                cells, _ev = run_function(funcs['$fa%d' % k][0], funcs['$fa%d' % k][1], [])
                got = cells_numeric(cells, lambda b: G.SYMS.get(b[1:]) if isinstance(b, str) else None)[0]
                if got != bytes.fromhex(lines[k]):
                    R.viol.append(('automatic object `%s`: stores give %s, expected %s' % (body, got.hex(), lines[k]), key or 'regress-auto-%d' % k, text))
            except ILError as ex:
                R.viol.append(('automatic object `%s`: %s' % (body, ex), key or 'regress-auto-%d' % k, text))
    # D18: two members of a union initialised (known finding)
    rc, il, err = ctx.qbe(HEADER + D18[0] + '\n')
    n += 1
    if rc != 0:
        R.viol.append(('`%s`: cproc dies (rc=%d): %s' % (D18[0], rc, (err.strip().split('\n') or [''])[-1][:160]), 'union-two-members-initialised', D18[0]))
    else:
        datas, _ = parse_il(il)
        got = datas.get('$d18', {}).get('bytes')
        if got != bytes([2, 0, 0, 0]):
            R.viol.append(('`%s` gives %s' % (D18[0], got), 'union-two-members-initialised', D18[0]))
    return n


def with_tokens(c, toks):
    """the case with a shorter initializer (None when the reference rejects it)"""
    try:
        m = G.replay_tokens(c.root, toks, c.gen)
    except (G.SpecError, IndexError, AttributeError):
        return None
    if m.size() == 0:
        return None
    d = Case()
    d.__dict__.update(c.__dict__)
    d.toks, d.m, d.size = toks, m, m.size()
    d.bc = G.brace_complete(toks, m)
    return d


def shrink(ctx, oracle, c, key, budget=80):
    """greedy removal of initializer items while the same finding class is reported"""
    def fails(d):
        R = Runner(ctx, oracle)
        R.run_batch([d], d.target, False)
        return any(k == key for _, k, _ in R.viol) or (key == 'model-drift' and R.drift)
    cur = c
    progress = True
    while progress and budget > 0:
        progress = False
        for a, b in sorted(G.item_spans(cur.toks), key=lambda ab: ab[0] - ab[1]):
            if budget <= 0:
                break
            d = with_tokens(cur, cur.toks[:a] + cur.toks[b:])
            if d is None:
                continue
            budget -= 1
            if fails(d):
                cur = d
                progress = True
                break
    return cur


# --------------------------------------------------------------------------- malformed stream
ERRTEXT = {
    'IdxNotArray': 'index designator is only valid for array types', 'IdxTooLarge': 'index designator is larger than array length',
    'MemNotStruct': 'member designator only valid for struct/union types', 'NoMember': 'has no member named',
    'ExpectAssign': 'after designator', 'Flexible': 'initialization of flexible array member is not supported',
    'TooManyDesig': 'too many designators', 'TooMany': 'too many initializers for type',
    'EmptyIncomplete': 'array of unknown size has empty initializer', 'NestedBrace': 'nested braces around scalar initializer',
    'StringWidth': 'cannot initialize array with string literal of different width', 'ExpectCommaBrace': "expected ',' or '}' after initializer",
    'Assign': '', 'NoMembers': 'structure without members', 'ExpectExpr': '',
}


def malformed_cases(rng, target, uid0):
    """invalid initializers: (case, model error name); cproc must reject each with the corresponding message"""
    out = []
    uid = [uid0]

    def case(root, toks, g, err):
        uid[0] += 1
        c = Case()
        c.gen, c.root, c.toks, c.auto, c.target, c.uid = g, root, toks, False, target, uid[0]
        c.params, c.opaque, c.name, c.align, c.bc, c.size, c.m = [], {}, 'g%d' % uid[0], root.align, False, root.size, None
        for s_ in g.structs:
            s_.tag = s_.tag.replace('T0_', 'T%d_' % uid[0]) if s_.tag else s_.tag
        out.append((c, err))

    def fresh():
        g = G.Gen(rng, target, 0)
        return g, g.S
    E = lambda v: ('e', G.ex_int(v))
    for n in (1, 2, 5):
        g, S = fresh()
        case(G.Arr(S['int'], n), [('{',)] + sum([[E(k), (',',)] for k in range(n)], []) + [E(9), ('}',)], g, 'TooMany')
        g, S = fresh()
        case(G.Arr(S['short'], n), [('{',), ('d', [('idx', n)]), E(1), ('}',)], g, 'IdxTooLarge')
        g, S = fresh()
        case(G.Arr(S['short'], n), [('{',), ('d', [('idx', (1 << 63) - 1)]), E(1), ('}',)], g, 'IdxTooLarge')
    g, S = fresh()
    st = G.Struct(False, g.tag(), [G.Member(g.mname(), S['int']), G.Member(g.mname(), G.Arr(S['char'], 3)), G.Member(g.mname(), S['pint'])], 101)
    g.structs.append(st)
    names = [m.name for m in st.members]
    g.names['nosuch'] = 777
    bad = [
        ([('{',), E(1), (',',), E(2), (',',), E(3), (',',), E(4), (',',), E(0), (',',), E(6), ('}',)], 'TooMany'),
        ([('{',), ('d', [('fld', 'nosuch')]), E(1), ('}',)], 'NoMember'),
        ([('{',), ('d', [('idx', 0)]), E(1), ('}',)], 'IdxNotArray'),
        ([('{',), ('d', [('fld', names[1]), ('fld', names[0])]), E(1), ('}',)], 'MemNotStruct'),
        ([('{',), ('d', [('fld', names[0]), ('idx', 0)]), E(1), ('}',)], 'IdxNotArray'),
        ([('{',), ('{',), ('{',), E(1), ('}',), ('}',), ('}',)], 'NestedBrace'),
        ([('{',), ('raw', '.%s' % names[0], '.%d' % g.names[names[0]]), E(1), ('}',)], 'ExpectAssign'),
        ([('{',), E(1), (',',), ('e', G.ex_str('L', [97], G.TARGETS[target])), ('}',)], 'StringWidth'),
        ([('{',), E(1), E(2), ('}',)], 'ExpectCommaBrace'),
        ([('{',), E(1), (',',), ('{',), E(2), (',',), E(3), (',',), E(4), (',',), E(5), ('}',), ('}',)], 'TooMany'),
        ([('{',), ('d', [('fld', names[2])]), E(5), ('}',)], 'Assign'),
        ([('{',), ('d', [('fld', names[0])]), ('e', G.Ex('addr', '&gi', sym=G.SYMS['gi'], off=0)), ('}',)], 'Assign'),
    ]
    for toks, err in bad:
        case(st, toks, g, err)
    g, S = fresh()
    case(G.Arr(S['int'], None), [('{',), ('}',)], g, 'EmptyIncomplete')
    g, S = fresh()
    case(G.Arr(G.Arr(S['int'], 2), None), [('{',), ('{',), E(1), (',',), E(2), (',',), E(3), ('}',), ('}',)], g, 'TooMany')
    # the byte offset of an index designator must not wrap modulo 2^64 (finding index-designator-wraps, fixed)
    g, S = fresh()
    case(G.Arr(S['int'], 4), [('{',), ('raw', '[0x4000000000000002ull] =', '[4611686018427387906 ='), E(7), ('}',)], g, 'IdxTooLarge')
    g, S = fresh()
    case(G.Arr(S['short'], 1), [('{',), ('raw', '[0x8000000000000000ull] =', '[9223372036854775808 ='), E(1), ('}',)], g, 'IdxTooLarge')
    g, S = fresh()
    case(G.Arr(S['short'], None), [('{',), ('raw', '[0x8000000000000001ull] =', '[9223372036854775809 ='), E(1), ('}',)], g, 'IdxTooLarge')
    # 32 nested aggregates: the cursor stack obj[32] overflows ("internal error: too many designators")
    g, S = fresh()
    t = S['int']
    for k in range(32):
        t = G.Arr(t, 1)
    case(t, [('{',), E(1), ('}',)], g, 'TooManyDesig')
    g, S = fresh()
    t = S['int']
    for k in range(31):
        t = G.Arr(t, 1)
    case(t, [('{',), E(1), ('}',)], g, None)               # 31 levels still fit
    return out


def run_malformed(ctx, oracle, R):
    n = 0
    bad = []
    for target in ('x86_64-sysv',):
        cases = malformed_cases(ctx.rng, target, 900000)
        ora = run_oracle(oracle, [c for c, _ in cases])
        for (c, err), o in zip(cases, ora):
            n += 1
            rc, il, e = ctx.qbe(HEADER + case_source(c), target=target)
            got = (o['P'] or '')
            if err is None:
                if rc != 0 or not got.startswith('ok'):
                    bad.append(('valid deep initializer: cproc rc=%d, model %s' % (rc, got), c))
                continue
            if got != 'err ' + err:
                bad.append(('model gives `%s`, expected error %s' % (got, err), c))
            if rc == 0:
                R.viol.append(('cproc accepts an invalid initializer (%s)' % err, 'accepts-invalid-' + err, c))
            elif rc != 1 or ERRTEXT[err] not in e:
                bad.append(('cproc rc=%d `%s`, model error %s' % (rc, (e.strip().split('\n') or [''])[-1][:160], err), c))
    for what, c in bad[:5]:
        ctx.broken('correspondence', 'malformed-stream', what + '\n' + case_source(c))
    ctx.ob('rejections: model error class = cproc diagnostic on %d invalid initializers' % n, not bad)
    return n


# ---------------------------------------------------------------------------------------- run
def replay_text(c, what):
    return '// %s\n// target %s; %s object\n%s%s' % (what, c.target, 'automatic' if c.auto else 'static', HEADER, case_source(c))


def gen_batches(ctx, plan):
    uid = [0]
    batches = []
    for target, nfiles, with_gcc in plan:
        for k in range(nfiles):
            cases = []
            for j in range(24):
                uid[0] += 1
                auto = j % 3 == 2
                c = make_case(ctx.rng, target, uid[0], auto)
                if not auto and ctx.rng.random() < 0.06:
                    c.storage = ctx.rng.choice(['_Thread_local ', 'static ', '_Alignas(16) ', 'const '])
                    if c.storage == '_Alignas(16) ':
                        c.align = max(c.align, 16)
                cases.append(c)
            batches.append((cases, target, with_gcc))
    return batches


def run(ctx):
    for f in os.listdir(os.path.join(vlib.VERIF, 'evidence', 'replay')):       # replays of earlier runs of this check
        if re.match(r'C07-(\d+\.json(\.what)?|broken\.json)$', f):
            os.unlink(os.path.join(vlib.VERIF, 'evidence', 'replay', f))
    snap = ctx.snapshot()
    ok = ctx.coq(['Properties/Properties_C07.vo', 'Extract/Extract_c07.vo'])
    if ok:
        ctx.assumptions(MODULE, ctx.theorem_names(MODULE))
    oracle = ctx.oracle('c07') if ok else None
    if snap is None or oracle is None:
        return ctx.finish(dict(evaluations=0, distinct_nontrivial=0, rule='nothing ran', samples=[]))
    thorough = ctx.tier == 'thorough'
    R = Runner(ctx, oracle)
    try:
        import c03
        R.qbe_oracle = c03.build_oracle(ctx)
    except Exception as ex:                      # the shared IL toolkit is optional for this check
        ctx.notes.append('IL toolkit not available: %s' % ex)
    nreg = run_regress(ctx, R)
    nmal = run_malformed(ctx, oracle, R)
    plan = [('x86_64-sysv', 200 if not thorough else 3000, True), ('aarch64', 40 if not thorough else 600, False), ('riscv64', 40 if not thorough else 600, False)]
    batches = gen_batches(ctx, plan)
    t0 = time.time()
    vlib.parallel_map(lambda b: R.run_batch(*b), batches)
    ctx.log('%d files, %.1fs' % (len(batches), time.time() - t0))
    # ---- verdicts
    for what, c in R.specbad[:5]:
        ctx.broken('correspondence', 'reference-vs-gcc', what + '\n' + case_source(c))
    ctx.ob('reference (Python 6.7.9) = gcc on %d static objects' % R.stats['gcc'], not R.specbad)
    by_key = {}
    for what, key, c in R.viol:
        by_key.setdefault(key, []).append((what, c))
    for key, lst in by_key.items():
        what, c = min(lst, key=lambda x: len(x[1]) if isinstance(x[1], str) else len(case_source(x[1])))
        if not isinstance(c, str):
            small = shrink(ctx, oracle, c, key)
            if small is not c:
                R2 = Runner(ctx, oracle)
                R2.run_batch([small], small.target, False)
                w2 = [w for w, k, _ in R2.viol if k == key]
                what, c = (w2[0] if w2 else what), small
        if not isinstance(c, str):
            text = json.dumps(dict(what=what, key=key, target=c.target, auto=c.auto, source=HEADER + case_source(c),
                                   case=base64.b64encode(pickle.dumps(c)).decode()), indent=1)
        else:
            text = json.dumps(dict(what=what, key=key, target='x86_64-sysv', auto=False, source=HEADER + c + '\n', corpus=True), indent=1)
        ctx.violation('%s [%d cases]' % (what[:400], len(lst)), text, 'json', key)
    ctx.ob('cproc images = reference on %d static + %d automatic objects' % (R.stats['static'], R.stats['auto']), not ctx.unknown_violations())
    unknown_keys = {v['key'] for v in ctx.unknown_violations()}
    drift = R.drift
    for what, c in drift[:5]:
        if not isinstance(c, str) and what.startswith(('funcinit model', 'emitdata model')):
            c = shrink(ctx, oracle, c, 'model-drift', 40)
        ctx.broken('correspondence', 'model-vs-cproc', what + '\n' + (c if isinstance(c, str) else case_source(c)))
    ctx.ob('extracted models (parseinit, emitdata, funcinit, InitSpec) = cproc on every case', not drift)
    for what, c in R.qbe_bad[:5]:
        ctx.broken('correspondence', 'qbe-run-vs-reference', what + '\n' + case_source(c))
    if R.qbe_oracle:
        ctx.ob('automatic objects dumped under Qbe.run (shared IL semantics) = reference on %d objects' % R.stats.get('qbe_run', 0), not R.qbe_bad)
    # ---- directed: pointers initialised with string literals must refer to storage holding exactly that literal
    #      (wide literals of equal length with a common prefix; narrow vs wide literal with the same first bytes)
    ptr_src = ('int *w1 = L"alpha", *w2 = L"alias"; unsigned short *h1 = u"abcdefg", *h2 = u"abcdxyz"; unsigned *U1 = U"xyz12345", *U2 = U"xyz54321";\n'
               'char *c1 = "a"; unsigned short *c2 = u"a"; char *c3 = "abcd", *c4 = "abce";\n'
               # literals of different element width with the SAME bytes: contents may be shared, the alignment must be the stricter one
               'char *s1 = "a\\0\\0"; unsigned short *s2 = u"a"; char *s3 = "b\\0\\0\\0\\0\\0\\0"; int *s4 = L"b"; unsigned *s5 = U"c"; char *s6 = "c\\0\\0\\0\\0\\0\\0";\n')
    # name -> (element width in bytes, elements incl. terminator)
    want_ptr = {'w1': (4, [97, 108, 112, 104, 97, 0]), 'w2': (4, [97, 108, 105, 97, 115, 0]), 'h1': (2, [97, 98, 99, 100, 101, 102, 103, 0]), 'h2': (2, [97, 98, 99, 100, 120, 121, 122, 0]),
                'U1': (4, [120, 121, 122, 49, 50, 51, 52, 53, 0]), 'U2': (4, [120, 121, 122, 53, 52, 51, 50, 49, 0]), 'c1': (1, [97, 0]), 'c2': (2, [97, 0]),
                'c3': (1, [97, 98, 99, 100, 0]), 'c4': (1, [97, 98, 99, 101, 0]),
                's1': (1, [97, 0, 0, 0]), 's2': (2, [97, 0]), 's3': (1, [98, 0, 0, 0, 0, 0, 0, 0]), 's4': (4, [98, 0]), 's5': (4, [99, 0]), 's6': (1, [99, 0, 0, 0, 0, 0, 0, 0])}
    rc, out, err = ctx.qbe(ptr_src)
    refs = dict(re.findall(r'data \$(\w+) = align 8 \{ l \$(\.Lstring\.\d+), \}', out))
    bodies = {n: (int(a), b) for n, a, b in re.findall(r'data \$(\.Lstring\.\d+) = align (\d+) \{ (.*?) \}', out)}

    def data_bytes(body):
        res = []
        for ty, rest in re.findall(r'([bhwlz]) ((?:"(?:[^"\\]|\\.)*"|[-\d ]+)+),', body):
            for item in re.findall(r'"(?:[^"\\]|\\.)*"|-?\d+', rest):
                if item.startswith('"'):
                    res += [int(x[1:], 8) if x.startswith('\\') else ord(x) for x in re.findall(r'\\[0-7]{3}|.', item[1:-1])]
                elif ty == 'z':
                    res += [0] * int(item)
                else:
                    w = {'b': 1, 'h': 2, 'w': 4, 'l': 8}[ty]
                    res += list((int(item) % (1 << (8 * w))).to_bytes(w, 'little'))
        return res
    for nm, (w, exp) in want_ptr.items():
        al, body = bodies.get(refs.get(nm, ''), (0, '')) if rc == 0 else (0, '')
        got = data_bytes(body)
        expb = [b for v in exp for b in v.to_bytes(w, 'little')]
        if got != expb or al < w:
            ctx.violation('pointer %s initialised with a string literal refers to storage holding bytes %r aligned to %d, expected %r aligned to at least %d'
                          % (nm, got, al, expb, w),
                          json.dumps(dict(what='string literal address constant', key='string-literal-address', target='x86_64-sysv', auto=False, source=ptr_src, corpus=True), indent=1),
                          'json', 'string-literal-address')
            break
    total = R.stats['static'] + R.stats['auto']
    cov = dict(evaluations=total + nreg + nmal, malformed=nmal, distinct_nontrivial=len(R.nontrivial),
               rule='distinct (target, source) cases whose initializer uses a designator, brace elision, a bit-field, a string, an address constant, '
                    'an override, an array of unknown size or leaves a gap (feature counts below)',
               samples=R.samples, stats=R.stats, features=R.feat, fixed_corpus=nreg, gcc_quirks=R.quirks[:5],
               targets={t: n * 24 for t, n, _ in plan})
    return ctx.finish(cov, assumptions=[
        'gcc 12 (x86-64) as the reference for C11 6.7.9 + the psABI layout; on aarch64/riscv64 only the Python reference is used',
        'the Python evaluator of the straight-line IL emitted for automatic objects (props/c07.py:run_function)',
        'unions with more than one initialised member are outside the reference (D18)'])


def replay(ctx, path):
    """re-run one replay file: exit status 1 when the finding still reproduces"""
    d = json.load(open(path))
    snap = ctx.snapshot()
    if snap is None:
        print('the working tree does not build')
        return 1
    print(d['what'])
    print('--- source (target %s)\n%s' % (d.get('target'), d['source']))
    rc, il, err = ctx.qbe(d['source'], target=d.get('target', 'x86_64-sysv'))
    print('--- cproc-qbe rc=%d\n%s%s' % (rc, il[-3000:], err[-1000:]))
    ok = ctx.coq(['Extract/Extract_c07.vo'])
    oracle = ctx.oracle('c07') if ok else None
    R = Runner(ctx, oracle)
    if d.get('corpus') or 'case' not in d:
        run_regress(ctx, R)
        hits = [(w, k) for w, k, c in R.viol if k == d.get('key') or (isinstance(c, str) and c.strip() in d['source'])]
    else:
        c = pickle.loads(base64.b64decode(d['case']))
        R.run_batch([c], c.target, c.target == 'x86_64-sysv' and not c.auto)
        hits = [(w, k) for w, k, _ in R.viol] + [(w, 'model-drift') for w, _ in R.drift] + [(w, 'reference-vs-gcc') for w, _ in R.specbad]
    for w, k in hits:
        print('STILL FAILS [%s]: %s' % (k, w[:600]))
    if not hits:
        print('does not reproduce any more')
    return 1 if hits else 0
