# C08 - calls interoperate with code built by the platform compiler.   DESIGN.md section 5 (C08), notes/C08.md.
#
# Proof: Properties_C08 (descriptor_size_align/_fields/_classes on naturally laid out records, emission order,
# variadic marker, default argument promotions; refutation witnesses for the known descriptor defects).
# Tie (K), per generated unit and on all three targets:
#   * every `type` line, `function` header (classes + parameter stores) and `call` of cproc's IL  ==  the extracted model;
#   * every description, laid out by QBE's rule (extracted QbeAgg, cross-checked with the independent `oracle check`
#     TYPE lines of the IL toolkit)  ==  the C type's size/alignment/flattened fields measured with gcc (host, run-time
#     probe incl. the bytes of bit-fields) and clang --target (aarch64, riscv64);  decided against gcc/clang, not the model;
#   * call classes/marker against an independent Python statement of 6.5.2.2p6-7 / 6.7.6.3p7;
#   * dynamic: caller + callee programs compiled by cproc and executed by the IL interpreter must print the trace the
#     gcc-built executable prints (struct/union by value in both directions, promoted variadic arguments through va_arg).
import os, re, sys, json, hashlib
import vlib
from vlib import sh, txt, run_limited

sys.path.insert(0, os.path.join(vlib.VERIF, 'gen'))
import c08_gen as G
import c03 as C03

LEVEL = 'proof'
MODULE = 'Properties_C08'
TARGETS = ['x86_64-sysv', 'aarch64', 'riscv64']
SC = {'x86_64-sysv': 1, 'aarch64': 0, 'riscv64': 0}
CLANG = {'aarch64': 'aarch64-linux-gnu', 'riscv64': 'riscv64-linux-gnu'}

K_BITFIELD = 'emittype-bitfield-drops-members'
K_PACKED = 'emittype-packed-layout'
K_ALIGNAS = 'emittype-alignas-member-ignored'
K_FLEX = 'emittype-flexible-member-one-element'
K_VALIST = 'emittype-valist-member-x86_64-empty'
K_NARROW = 'narrow-argument-not-extended'
K_BFSMALL = 'emittype-bitfield-smaller-unit-chosen'
K_D14 = 'aarch64-unnamed-bitfield-align'
K_BFOVER = 'emittype-bitfield-unit-overlaps-previous'
K_BFPAD = 'emittype-bitfield-padding-lost'
WHAT = {
    K_BITFIELD: 'emittype drops members that follow a bit-field inside its storage unit even when they extend beyond it: '
                'struct {unsigned f0:4; unsigned char f1; char f2[5];} is described as { w, } (4 bytes instead of 8), so by-value passing copies too little',
    K_BFSMALL: 'emittype replaces a member by a later bit-field at the same offset even when that one has the SMALLER storage unit: '
               'struct {short a:7; char b:1;} is described as { b, } (1 byte, align 1 instead of 2/2)',
    K_BFOVER: 'emittype prints the whole storage unit of a bit-field also when the unit starts inside members already printed: '
              'struct {int a; struct {int p, q;} s; char y; long c:3;} (c lives in the long at offset 8, which s reaches into) is described as { w, :s, l, } (24 bytes instead of 16)',
    K_BFPAD: 'emittype never prints padding, so storage taken by unnamed bit-fields before a member is lost: '
             'struct {signed char :7; double d;} is described as { d, } (8 bytes instead of 16, d at offset 0 instead of 8)',
    K_D14: 'aarch64: unnamed bit-fields do not contribute their alignment to the record (C06 finding D14, decl.c addmember); the description follows '
           "cproc's layout: union {_Bool a:1; int b:24; long :0;} is 4/4, AAPCS64 (clang) has 8/8",
    K_NARROW: 'arguments and results of type char/short/_Bool travel in class w without the widening the RISC-V psABI requires of the caller '
              '(conversion to a narrower type is a no-op in convert()): int h(signed char); h((signed char)x) passes x unchanged, a gcc-built callee sees 300 for x == 300',
    K_PACKED: 'emittype describes packed records with naturally aligned fields: struct __attribute__((packed)) {char c; int i;} is { b, w, } (8 bytes, align 4) instead of 5 bytes, align 1 (D23)',
    K_ALIGNAS: 'emittype ignores _Alignas on members: struct {char c; _Alignas(16) int i;} is { b, w, } (8 bytes, align 4) instead of 32 bytes, align 16 (D23)',
    K_FLEX: 'emittype describes a flexible array member as one element: struct {int n; double d[];} is { w, d, } (16 bytes) instead of 8 (D23)',
    K_VALIST: 'x86_64-sysv: the element type of va_list is printed as the empty struct { }, so struct {va_list ap; int x;} is described with 4 bytes instead of 32',
}
SHIM = C03.SHIM


# ----------------------------------------------------------------------------- helpers
def report(ctx, what, replay, ext, key):
    """one violation per finding class and run"""
    if any(v['key'] == key for v in ctx.violations):
        return
    ctx.violation(what, replay if isinstance(replay, str) else json.dumps(replay, indent=1), ext, key=key)


def run_oracle(exe, script):
    rc, out, err = run_limited([exe], input=script.encode(), timeout=60)
    return out.decode('utf-8', 'replace').split('\n')


def arg_enc(t, target):
    if isinstance(t, G.Array):
        return 's ptr'
    if isinstance(t, G.VaList) and target == 'x86_64-sysv':
        return 's ptr'
    return t.enc()


def model_script(u, target):
    u['va'].set_target(target)
    L = ['RESET %d' % SC[target]]
    for e in u['events']:
        f = e[1]
        head = '%s %d %d %s' % (f.ret.enc() if f.ret else 'void', f.vararg, len(f.params), ' '.join(p.enc() for p in f.params))
        if e[0] == 'FUNC':
            L.append('FUNC ' + head)
        else:
            args = e[2]
            L.append('XCALL %s %d %s' % (head, len(args), ' '.join('%s %s' % (arg_enc(a[0], target), a[2] if a[2] is not None else '-') for a in args)))
    L.append('INFO')
    return '\n'.join(L) + '\n'


FUNC_RE = re.compile(r'^function (?:(\S+) )?\$[\w.]+\((.*)\) \{$')
CALL_RE = re.compile(r'^\t(?:%\S+ =(\S+) )?call \$[\w.]+\((.*)\)$')


def il_view(il):
    """(type lines, HEAD lines, CALL lines) in the notation of the oracle"""
    types, heads, calls = [], [], []
    lines = il.split('\n')
    i = 0
    while i < len(lines):
        l = lines[i]
        if l.startswith('type '):
            types.append(l)
        m = FUNC_RE.match(l)
        if m:
            ps = [x.strip() for x in m.group(2).split(',')] if m.group(2) else []
            cls = [x.split(' ')[0] for x in ps if x != '...']
            va = ' ...' if '...' in ps else ''
            stores, loads = [], []
            j = i + 2            # skip the @start label
            while j < len(lines) and not lines[j].startswith('@') and lines[j] != '}':
                sm = re.match(r'^\tstore(\w) %\.\d+, %\.\d+$', lines[j])
                if sm:
                    stores.append(sm.group(1))
                j += 1
            # the generated bodies read every sub-word parameter first: sub-word loads from a slot, up to the first call
            nsub = sum(1 for s_ in stores if s_ in 'bh')
            while j < len(lines) and lines[j] != '}' and '\tcall ' not in lines[j] and ' call ' not in lines[j]:
                lm = re.match(r'^\t%\.\d+ =w (load[su][bh]) %\.\d+$', lines[j])
                if lm and len(loads) < nsub:
                    loads.append(lm.group(1))
                j += 1
            heads.append('HEAD %s |%s|%s | store%s | load%s' % (m.group(1) or '-', ''.join(' ' + c for c in cls), va,
                                                                 ''.join(' ' + c for c in stores), ''.join(' ' + c for c in loads)))
        m = CALL_RE.match(l)
        if m:
            ps = [x.strip() for x in m.group(2).split(',')] if m.group(2) else []
            calls.append('CALL %s |%s' % (m.group(1) or '-', ''.join(' ' + (x if x == '...' else x.split(' ')[0]) for x in ps)))
        i += 1
    return types, heads, calls


TYPE_RE = re.compile(r'^type (:[^ ]*\.(\d+)) = (?:align (\d+) )?\{ (.*)\}$')


def parse_type_line(l):
    """-> (name, id, QDEF line) or None"""
    m = TYPE_RE.match(l)
    if not m:
        return None
    name, tid, al, body = m.group(1), int(m.group(2)), m.group(3), m.group(4).strip()

    def item(tok):
        p = tok.split(' ')
        it = p[0]
        if it.startswith(':'):
            it = ':' + it.rsplit('.', 1)[1]
        return '%s %s' % (it, p[1] if len(p) > 1 else '1')
    if re.fullmatch(r'\d+', body):
        q = 'QDEF %d %s O %s' % (tid, al or '-', body)
    elif body.startswith('{'):
        alts = re.findall(r'\{ ([^{}]*?) \}', body)
        q = 'QDEF %d %s U %d %s' % (tid, al or '-', len(alts), ' '.join('1 ' + item(a.strip()) for a in alts))
    else:
        fs = [x.strip() for x in body.split(',') if x.strip()]
        q = 'QDEF %d %s S %d %s' % (tid, al or '-', len(fs), ' '.join(item(f) for f in fs))
    return name, tid, q


def parse_info(lines):
    """INFO id size align sysv a64 rv | flat  ->  {id: dict}"""
    r = {}
    for l in lines:
        if l.startswith('INFO '):
            p = l.split(' ')
            if p[2] == 'NONE':
                r[int(p[1])] = None
                continue
            flat = [tuple(int(x) if x.isdigit() else x for x in f.split(':')) for f in l.split('|', 1)[1].split()]
            r[int(p[1])] = dict(size=int(p[2]), align=int(p[3]), sysv=p[4], a64=p[5], rv=p[6], flat=flat)
    return r


# ----------------------------------------------------------------------------- the C side: gcc (host) and clang (--target)
def probe_source(u):
    """C program printing, for every tagged record: T tag size align, and per leaf: L tag offset size kind (bit-fields: the bytes they occupy)"""
    s = '#include <stdio.h>\n#include <stddef.h>\n#include <string.h>\n' + G.ENUMS
    for r in u['records']:
        s += r.define()
    s += 'int main(void) {\n'
    for r in u['records']:
        s += '\tprintf("T %s %%zu %%zu\\n", sizeof(%s), _Alignof(%s));\n' % (r.tag, r.name(), r.name())
        for path, off, size, kind in r.leaves('', 0):
            if kind == 'b':
                s += ('\t{ %s o; unsigned char *p = (unsigned char *)&o; size_t i, lo = sizeof o, hi = 0; memset(&o, 0, sizeof o); o%s = -1;\n'
                      '\t  for (i = 0; i < sizeof o; i++) if (p[i]) { if (i < lo) lo = i; hi = i + 1; }\n'
                      '\t  printf("L %s %%zu %%zu b\\n", lo, hi - lo); }\n') % (r.name(), path, r.tag)
            elif kind == 'o':
                pass
            else:
                s += '\tprintf("L %s %%zu %%zu %s\\n", offsetof(%s, %s), sizeof(((%s *)0)->%s));\n' % (r.tag, kind, r.name(), path[1:], r.name(), path[1:])
    s += '\treturn 0;\n}\n'
    return s


def clang_source(u):
    s = '#include <stddef.h>\n' + G.ENUMS
    for r in u['records']:
        s += r.define()
    n = 0
    for r in u['records']:
        s += 'char SZ_%s[sizeof(%s)]; char AL_%s[_Alignof(%s)];\n' % (r.tag, r.name(), r.tag, r.name())
        for path, off, size, kind in r.leaves('', 0):
            if kind in 'if':
                s += 'char OF_%s_%d[offsetof(%s, %s) + 1];\n' % (r.tag, n, r.name(), path[1:])
                n += 1
    return s


def gcc_layout(tmp, name, u):
    """{tag: (size, align, [(off, size, kind)])} measured on the host"""
    c = os.path.join(tmp, name + '_probe.c')
    exe = os.path.join(tmp, name + '_probe')
    open(c, 'w').write(probe_source(u))
    rc, out, err = sh('gcc -std=gnu2x -w -O0 %s -o %s && %s' % (c, exe, exe), timeout=120)
    if rc != 0:
        return None, txt(err)[-600:]
    lay = {}
    for l in txt(out).split('\n'):
        p = l.split(' ')
        if p[0] == 'T':
            lay[p[1]] = [int(p[2]), int(p[3]), []]
        elif p[0] == 'L':
            lay[p[1]][2].append((int(p[2]), int(p[3]), p[4]))
    for f in (c, exe):
        try:
            os.unlink(f)
        except OSError:
            pass
    return lay, None


def clang_layout(tmp, name, u, target):
    c = os.path.join(tmp, name + '_cl.c')
    open(c, 'w').write(clang_source(u))
    rc, out, err = sh(['clang', '--target=' + CLANG[target], '-std=gnu2x', '-w', '-S', '-emit-llvm', '-o', '-', c], timeout=120)
    os.unlink(c)
    if rc != 0:
        return None, txt(err)[-600:]
    vals = dict((m.group(1), int(m.group(2))) for m in re.finditer(r'^@(\w+) = [^\n]*\[(\d+) x i8\]', txt(out), re.M))
    lay = {}
    n = 0
    for r in u['records']:
        offs = []
        for path, off, size, kind in r.leaves('', 0):
            if kind in 'if':
                offs.append((vals.get('OF_%s_%d' % (r.tag, n), 0) - 1, size, kind))
                n += 1
        lay[r.tag] = [vals.get('SZ_' + r.tag), vals.get('AL_' + r.tag), offs]
    return lay, None


# ----------------------------------------------------------------------------- the C side of calls, independently of the model
def spec_class(t, target, names):
    """class of a parameter / argument / result of C type t (6.7.6.3p7 adjustment applied by the caller of this function)"""
    if isinstance(t, G.VaList):
        return {'x86_64-sysv': 'l', 'riscv64': 'l'}.get(target) or names.get(id(t), ':va_list.?')
    if isinstance(t, G.Array):
        return 'l'
    if isinstance(t, G.Record):
        return names.get(id(t), ':%s.?' % t.tag)
    if t.flt:
        return 's' if t.size == 4 else 'd'
    return 'l' if t.size == 8 else 'w'


def spec_promote(t, width):
    """default argument promotions (6.5.2.2p6, 6.3.1.1p2) on a generator type"""
    if not isinstance(t, G.Scalar):
        return t
    if t.kind == 'float':
        return G.Scalar('double')
    if t.kind in G.INT_KINDS and (t.size < 4 or t.kind in ('int', 'uint', 'eu', 'es') or (width is not None and width <= 32)):
        bits = width if width is not None else t.size * 8
        signed = t.kind in G.SIGNED or t.kind == 'char'       # either signedness of char fits int
        if t.kind == 'bool' or signed or bits < 32:
            return G.Scalar('int')
        return G.Scalar('uint')
    return t


def spec_calls(u, target, names):
    """HEAD/CALL lines the C rules require (record types by the names cproc gave them: only the class kind is independent)"""
    heads, calls = [], []
    for e in u['events']:
        f = e[1]
        rc = spec_class(f.ret, target, names) if f.ret else '-'
        if e[0] == 'FUNC':
            stores, loads = [], []
            for p in f.params:
                if isinstance(p, G.Array) or (isinstance(p, G.VaList) and target != 'aarch64'):
                    stores.append('l')
                elif isinstance(p, G.Scalar):
                    stores.append({1: 'b', 2: 'h', 4: 's' if p.flt else 'w', 8: 'd' if p.flt else 'l'}[p.size])
                    if p.size < 4:
                        signed = p.kind in G.SIGNED or (p.kind == 'char' and SC[target])
                        loads.append('load%s%s' % ('s' if signed else 'u', 'b' if p.size == 1 else 'h'))
            heads.append('HEAD %s |%s|%s | store%s | load%s' % (rc, ''.join(' ' + spec_class(p, target, names) for p in f.params), ' ...' if f.vararg else '',
                                                                 ''.join(' ' + c for c in stores), ''.join(' ' + c for c in loads)))
        else:
            cls = []
            for i, a in enumerate(e[2]):
                if f.vararg and i == len(f.params):
                    cls.append('...')
                if i < len(f.params):
                    cls.append(spec_class(f.params[i], target, names))       # converted as if by assignment
                else:
                    t = spec_promote(a[0], a[2])
                    cls.append(spec_class(t, target, names))
            if f.vararg and len(e[2]) == len(f.params):
                cls.append('...')
            calls.append('CALL %s |%s' % (rc, ''.join(' ' + c for c in cls)))
    return heads, calls


# ----------------------------------------------------------------------------- descriptor vs C layout
def rv_cat(s):
    m = re.match(r'(fp|int|mem)', s)
    return m.group(1) if m else s


def compare_layout(rec, info, clay, target, oracle_classes):
    """None when the description `info` denotes the C layout `clay` = [size, align, leaves]; else a reason"""
    if info is None:
        return 'the description cannot be laid out (undefined member type)'
    size, align, leaves = clay
    if (info['size'], info['align']) != (size, align):
        return 'size/align %d/%d, C type has %d/%d' % (info['size'], info['align'], size, align)
    dflat = [(o, s, k) for o, s, k in info['flat']]
    if not rec.has_bf():
        cflat = [(o, s, k) for o, s, k in leaves]
        if dflat != cflat:
            return 'fields %r, C type has %r' % (dflat[:12], cflat[:12])
        return None
    # with bit-fields the storage units are merged: every eightbyte must keep its class
    want = oracle_classes(size, align, [(o, s, 'i' if k == 'b' else k) for o, s, k in leaves])
    got = (info['sysv'], info['a64'], rv_cat(info['rv']))
    want = (want[0], want[1], rv_cat(want[2]))
    # riscv64: whether a bit-field flattens as its declared type is not decided here (notes/C08.md)
    if got[:2] != want[:2]:
        return 'register classes %r, C type has %r' % (got, want)
    return None


def walk_causes(r):
    """which of the three bit-field weaknesses of emittype's member loop a struct runs into (a port of the loop)"""
    causes = set()
    l = r.mlist
    i = 0
    qoff = 0
    while i < len(l):
        mi = i
        for k in range(i + 1, len(l)):
            if l[k].offset >= G.alignup(l[mi].offset + 1, 8):
                break
            if l[k].offset <= l[mi].offset:
                if l[k].offset + l[k].type.size < l[mi].offset + l[mi].type.size:
                    causes.add('smaller')
                mi = k
        m = l[mi]
        off = m.offset + m.type.size
        nat = G.alignup(qoff, m.type.align)
        if m.offset > nat:
            causes.add('padding')
        if m.offset < qoff:
            causes.add('overlap')
        qoff = nat + m.type.size
        k = mi + 1
        while k < len(l) and l[k].offset < off:
            if l[k].offset + l[k].type.size > off:
                causes.add('straddle')
            k += 1
        i = k
    if G.alignup(qoff, r.align) < r.size:
        causes.add('padding')
    return causes


def defect_key(rec):
    f = rec.all_special()
    if any(isinstance(G.strip(m.type), G.VaList) for r in [rec] + rec.records() for m in r.members):
        return K_VALIST
    for k, key in (('packed', K_PACKED), ('alignas', K_ALIGNAS), ('flexible', K_FLEX)):
        if k in f:
            return key
    if 'bitfield' in f:
        causes = set()
        for r in [rec] + rec.records():
            if r.is_struct:
                causes |= walk_causes(r)
        for c, key in (('straddle', K_BITFIELD), ('smaller', K_BFSMALL), ('overlap', K_BFOVER), ('padding', K_BFPAD)):
            if c in causes:
                return key
    return None


def minimal_unit(rec):
    """smallest unit that makes cproc describe `rec`: its definition closure and one by-value call"""
    s = G.ENUMS
    for r in G.tagged_records([rec]):
        s += r.define()
    s += 'void f(%s);\nvoid g(%s *p) { f(*p); }\n' % (rec.name(), rec.name())
    return s


# ----------------------------------------------------------------------------- one static unit
def check_static(ctx, w, idx, u):
    """returns a dict of findings for unit u (run on all targets)"""
    res = dict(viol=[], broken=[], stats=dict(types=0, natural=0, bf=0, sigs=0, calls=0, varcalls=0), rejected=None)
    glay, gerr = gcc_layout(ctx.tmp, 'u%d' % idx, u)
    if glay is None:
        res['broken'].append(('correspondence', 'gcc rejects a generated unit', gerr + '\n' + u['src']))
        return res
    for target in TARGETS:
        rc, il, err = ctx.qbe(u['src'], target=target)
        if rc != 0:
            res['viol'].append(dict(what='valid generated unit rejected on %s (rc=%d): %s' % (target, rc, err[:200]), key='static-reject',
                                    replay=dict(kind='static', target=target, src=u['src'])))
            continue
        types, heads, calls = il_view(il)
        out = run_oracle(w['oracle'], model_script(u, target))
        mt = [l for l in out if l.startswith('type ')]
        mh = [l for l in out if l.startswith('HEAD')]
        mc = [l for l in out if l.startswith('CALL')]
        errs = [l for l in out if l.startswith('ERR')]
        if errs:
            res['broken'].append(('correspondence', 'oracle error', '\n'.join(errs[:5])))
            continue
        same_types = types == mt
        # ---- names cproc gave to the record types
        names = {}
        ids = {}
        for l in types:
            p = parse_type_line(l)
            if p is None:
                res['viol'].append(dict(what='unparsable type definition %r' % l, key='type-syntax', replay=dict(kind='static', target=target, src=u['src'])))
                continue
            ids[p[0]] = p
        bytag = {}
        for nm in ids:
            bytag.setdefault(nm[1:].rsplit('.', 1)[0], []).append(nm)
        for r in u['records']:
            if len(bytag.get(r.tag, [])) == 1:
                names[id(r)] = bytag[r.tag][0]
        if u['va'].target == 'aarch64' and len(bytag.get('va_list', [])) == 1:
            names[id(u['va'])] = bytag['va_list'][0]
        # ---- calls and headers against the C rules, then against the model
        sh_, sc_ = spec_calls(u, target, names)
        real_h = heads
        if real_h != sh_ or calls != sc_:
            bad = next(((a, b) for a, b in zip(real_h + calls, sh_ + sc_) if a != b), (len(real_h + calls), len(sh_ + sc_)))
            res['viol'].append(dict(what='%s: signature/call classes differ from the C rules: emitted %r, required %r' % (target, bad[0], bad[1]),
                                    key='call-signature', replay=dict(kind='static', target=target, src=u['src'], heads=sh_, calls=sc_)))
        elif heads != mh or calls != mc:
            bad = next(((a, b) for a, b in zip(heads + calls, mh + mc) if a != b), (len(heads + calls), len(mh + mc)))
            res['broken'].append(('correspondence', 'Emittype model vs cproc: function header / call', '%s: emitted %r, model %r\n%s' % (target, bad[0], bad[1], u['src'])))
        if not same_types:
            bad = next(((a, b) for a, b in zip(types, mt) if a != b), (len(types), len(mt)))
            res['mismatch_types'] = (target, bad)
        # ---- every description against the C layout
        # definitions are fed in file order (members first)
        q = ''.join(parse_type_line(l)[2] + '\n' for l in types if parse_type_line(l)) + 'QINFO\n'
        infos = parse_info(run_oracle(w['oracle'], q))
        clay = glay
        if target != 'x86_64-sysv':
            clay, cerr = clang_layout(ctx.tmp, 'u%d%s' % (idx, target), u, target)
            if clay is None:
                # e.g. _Alignas(4) on a member whose type clang aligns to 8 on aarch64 (unnamed bit-field rule, C06 D14)
                res['stats']['clang_rejects'] = res['stats'].get('clang_rejects', 0) + 1
                continue
            # bit-field bytes are only measured on the host: take them from there when the rest of the layout agrees
            for r in u['records']:
                g = glay[r.tag]
                if r.has_bf() and (clay[r.tag][0], clay[r.tag][1]) == (g[0], g[1]):
                    clay[r.tag][2] = g[2]

        def oracle_classes(size, align, leaves):
            o = run_oracle(w['oracle'], 'CLASS %d %d %d %s\n' % (size, align, len(leaves), ' '.join('%d %d %s' % l for l in leaves)))
            return o[0].split(' ')[1:4]
        explained = True
        for r in u['records']:
            nm = names.get(id(r))
            if nm is None:
                continue            # never passed by value in this unit
            res['stats']['types'] += 1
            res['stats']['natural'] += 0 if (r.has_bf() or r.all_special()) else 1
            res['stats']['bf'] += 1 if r.has_bf() else 0
            why = compare_layout(r, infos.get(ids[nm][1]), clay[r.tag], target, oracle_classes)
            if why:
                key = defect_key(r) if same_types else None
                i_ = infos.get(ids[nm][1])
                if (same_types and target == 'aarch64' and i_ and (i_['size'], i_['align']) == (r.size, r.align)
                        and any(m.width is not None and m.name is None for x in [r] + r.records() for m in x.members)):
                    key = K_D14          # the layout itself differs on aarch64 (C06), the description is faithful to it
                res['viol'].append(dict(what='%s: %s described as %s: %s' % (target, r.name(), [l for l in types if l.startswith('type ' + nm + ' ')][0][5:], why),
                                        key=key or 'descriptor-layout:' + target,
                                        replay=dict(kind='layout', target=target, tag=r.tag, name=r.name(), src=minimal_unit(r), clayout=clay[r.tag], has_bf=r.has_bf())))
                if key is None:
                    explained = False
        if not same_types and explained and not any(v['key'].startswith('descriptor-layout') for v in res['viol']):
            t_, bad = res['mismatch_types']
            res['broken'].append(('correspondence', 'Emittype model vs cproc: type definitions',
                                  '%s: emitted %r, model %r (the emitted descriptions still denote the C layouts)\n%s' % (t_, bad[0], bad[1], u['src'])))
        res['stats']['sigs'] += len(heads)
        res['stats']['calls'] += len(calls)
        res['stats']['varcalls'] += sum(1 for c in calls if '...' in c)
        w['ilfiles'].append((idx, target, il))
    return res


# ----------------------------------------------------------------------------- dynamic
def check_dynamic(ctx, w, idx, u):
    d = os.path.join(ctx.tmp, 'dyn%d' % idx)
    os.makedirs(d, exist_ok=True)
    c = os.path.join(d, 'p.c')
    open(c, 'w').write(u['src'])
    rc, out, err = sh('gcc -std=gnu2x -w -O1 %s %s -o %s/p.exe' % (c, w['shim'], d), timeout=120)
    if rc != 0:
        return dict(broken=('correspondence', 'gcc rejects a generated program', txt(err)[-500:] + u['src']))
    rc, want, err = run_limited([d + '/p.exe'], timeout=20)
    want = [l for l in txt(want).split('\n') if l.startswith('out_')]
    r = dict(events=len(want), il=None)
    for target in w['dyn_targets']:
        rc, il, err = ctx.qbe(u['src'], target=target)
        if rc != 0:
            r['viol'] = dict(what='valid generated program rejected on %s: %s' % (target, err[:200]), key='dynamic-reject', replay=dict(kind='dynamic', src=u['src'], target=target))
            return r
        f = os.path.join(d, target + '.ssa')
        open(f, 'w').write(il)
        rc, got, err = run_limited([w['qoracle'], 'run', f, '5000000'], timeout=120)
        got = txt(got).split('\n')
        gl = [l for l in got if l.startswith('out_')]
        st = [l for l in got if l.startswith(('status', 'OOB', 'STUCK', 'OUTOFFUEL', 'PARSE'))]
        if gl != want or 'status 0' not in st:
            k = next((i for i, (a, b) in enumerate(zip(gl, want)) if a != b), min(len(gl), len(want)))
            # attribute to a known descriptor defect when a record type of the program has one
            key = next((k_ for k_ in (defect_key(rec) for rec in u['records'] if rec.has_bf() or rec.all_special()) if k_), None)
            r['viol'] = dict(what='%s: values do not arrive intact: event %d is %r under cproc (%s), %r with gcc' %
                                  (target, k, gl[k] if k < len(gl) else None, ' '.join(st)[:80], want[k] if k < len(want) else None),
                             key=key or 'dynamic-values', replay=dict(kind='dynamic', src=u['src'], target=target), needs_static=key is not None)
            return r
    return r


FOREIGN_SRC = '''void out_l(long);
_Bool gb(int); signed char gc(int); unsigned char guc(int); short gs(int); unsigned short gus(int);
_Bool (*fpb[2])(int) = { gb, gb };
double dd(double x) { return x; }
float rf(void) { return gs(0); }
int main(void)
{
	int n = 0;
	if (gb(0)) n |= 1;
	if (!gb(1)) n |= 2;
	n += gb(0) && 1 ? 4 : 0;
	n += gb(1) ? 8 : 0;
	while (gb(0)) { n += 16; break; }
	do n += 32; while (gb(0));
	for (; fpb[1](0); ) { n += 64; break; }
	out_l(n);
	out_l(gc(0)); out_l(gc(0) < 0); out_l(guc(0)); out_l(guc(0) > 200); out_l(gs(0)); out_l(gs(0) == -2); out_l(gus(0)); out_l(gus(0) + 1L);
	out_l((long)gc(0) * 2); out_l(gb(1) + gb(1)); out_l(gb(1) == 1); out_l(!gb(0) + (gb(0) || gb(1)));
	switch (gc(0)) { case -1: out_l(77); break; default: out_l(78); }
	out_l((long)((double)gs(0) * 2)); out_l((long)(float)gus(0)); out_l((long)(gs(0) + 0.5)); out_l((long)dd(gs(0))); out_l((long)rf()); out_l((long)(float)gc(0)); out_l((long)(guc(0) * 1.0f));
	return 0;
}
'''
FOREIGN_IL = '''
export function w $gb(w %a) {
@start
	%c =w ceqw %a, 0
	jnz %c, @z, @o
@z
	ret 256
@o
	ret 32513
}
export function w $gc(w %a) {
@start
	ret 511
}
export function w $guc(w %a) {
@start
	ret 4294963401
}
export function w $gs(w %a) {
@start
	ret 524286
}
export function w $gus(w %a) {
@start
	ret 131071
}
'''
FOREIGN_WANT = ['out_l 40', 'out_l -1', 'out_l 1', 'out_l 201', 'out_l 1', 'out_l -2', 'out_l 1', 'out_l 65535', 'out_l 65536', 'out_l -2', 'out_l 2', 'out_l 1',
                'out_l 2', 'out_l 77', 'out_l -4', 'out_l 65535', 'out_l -1', 'out_l -2', 'out_l -2', 'out_l -1', 'out_l 201']


def foreign_narrow_results(ctx, w):
    out = []
    for target in ('x86_64-sysv', 'aarch64'):
        rc, il, err = ctx.qbe(FOREIGN_SRC, target=target)
        if rc != 0:
            out.append(dict(what='%s: caller of foreign narrow-result functions rejected: %s' % (target, err[:200]), key='foreign-narrow-result',
                            replay=dict(kind='foreign', src=FOREIGN_SRC, target=target)))
            continue
        f = os.path.join(ctx.tmp, 'foreign-%s.ssa' % target)
        open(f, 'w').write(il + FOREIGN_IL)
        rc, got, err = run_limited([w['qoracle'], 'run', f, '5000000'], timeout=120)
        gl = [l for l in txt(got).split('\n') if l.startswith('out_')]
        if gl != FOREIGN_WANT or 'status 0' not in txt(got):
            k = next((i for i, (a, b) in enumerate(zip(gl, FOREIGN_WANT)) if a != b), min(len(gl), len(FOREIGN_WANT)))
            out.append(dict(what='%s: a _Bool/char/short result of a callee that leaves the upper register bits undefined is used without extension: event %d is %r, expected %r (%s)'
                                 % (target, k, gl[k] if k < len(gl) else None, FOREIGN_WANT[k] if k < len(FOREIGN_WANT) else None, txt(got)[-80:].replace('\n', ' ')),
                            key='foreign-narrow-result', replay=dict(kind='foreign', src=FOREIGN_SRC, target=target)))
    return out


# ----------------------------------------------------------------------------- tables re-read from the snapshot
def tables(ctx, snap, oracle):
    src = open(os.path.join(snap, 'qbe.c')).read()
    ent = dict((m.group(1), (m.group(2), m.group(3), m.group(4).lower()))
               for m in re.finditer(r"\b(ub|sb|uh|sh|w|l|s|d) = \{'(\w)', '(\w)', I(LOAD\w+), ISTORE\w+\}", src))
    sw = dict((int(m.group(1)), (m.group(2), m.group(3), m.group(4)))
              for m in re.finditer(r'case (\d+): return t->(u\.basic\.issigned|prop & PROPFLOAT) \? (\w+) : (\w+);', src))
    ok = len(ent) == 8 and set(sw) == {1, 2, 4, 8}
    bad = []
    if ok:
        for sc in (0, 1):
            script = 'RESET %d\n' % sc + ''.join('QBT %s\n' % G.SCAL[k][1] for k in G.ALL_KINDS)
            out = [l for l in run_oracle(oracle, script) if l.startswith('QBT')]
            for k, l in zip(G.ALL_KINDS, out):
                _, tok, size, flt = G.SCAL[k]
                signed = k in G.SIGNED or (k == 'char' and sc)
                cond, a, b = sw[size]
                pick = a if ((cond.startswith('u.basic') and signed) or (cond.startswith('prop') and flt)) else b
                want = 'QBT %s %s %s' % ent[pick]
                if l != want:
                    bad.append((k, sc, l, want))
    ctx.ob('G:qbetype table of qbe.c equals the model (18 scalar kinds x 2 char signednesses)', ok and not bad)
    if not ok or bad:
        ctx.broken('table', 'qbetype', 'table of qbe.c not recognised or different from Emittype.qbetype_scal: %r' % (bad[:4],))
    # targ.c: the three va_list representations
    t = open(os.path.join(snap, 'targ.c')).read()
    got = {}
    for m in re.finditer(r'\.name = "([\w-]+)",(.*?)\n\t\},', t, re.S):
        body = m.group(2)
        k = re.search(r'\.typevalist = &\(struct type\)\{\s*\.kind = (\w+)', body)
        sz = re.search(r'\.align = (\d+), \.size = (\d+)', body)
        inner = re.search(r'\.base = &\(struct type\)\{\s*\.kind = (\w+)', body)
        if k and sz:
            kind = {'TYPEARRAY': 'array-of-struct' if inner and inner.group(1) == 'TYPESTRUCT' else 'array', 'TYPESTRUCT': 'struct', 'TYPEPOINTER': 'pointer'}.get(k.group(1), k.group(1))
            got[m.group(1)] = (kind, int(sz.group(2)), int(sz.group(1)))
    okv = got == G.VaList.TABLE
    ctx.ob('G:va_list representations of targ.c equal the generator/model table', okv)
    if not okv:
        ctx.broken('table', 'targ.c va_list', 'targ.c has %r, the model assumes %r' % (got, G.VaList.TABLE))
    # signedness of plain char: the platform compilers' choice per target (clang -dM) equals the table used for the model
    bad = []
    for target, trip in (('x86_64-sysv', 'x86_64-linux-gnu'), ('aarch64', CLANG['aarch64']), ('riscv64', CLANG['riscv64'])):
        rc, out, err = sh(['clang', '--target=' + trip, '-dM', '-E', '-x', 'c', '/dev/null'], timeout=60)
        unsigned = '__CHAR_UNSIGNED__' in txt(out)
        if rc != 0 or unsigned == bool(SC[target]):
            bad.append((target, unsigned))
    ctx.ob('G:signedness of char per target equals clang --target (x86-64 signed, aarch64 and riscv64 unsigned)', not bad)
    if bad:
        ctx.broken('table', 'char signedness', repr(bad))


# ----------------------------------------------------------------------------- directed cases
def directed_records():
    """the known-defect witnesses of Properties_C08 (same shapes), plus neighbours that must be right"""
    S = G.Scalar
    M = G.Member
    A = G.Array
    out = []
    out.append((G.Record('DBF', True, [M('f0', S('uint'), 4), M('f1', S('uchar')), M('f2', A(S('char'), 5))]), K_BITFIELD))
    out.append((G.Record('DBFF', True, [M('f0', S('long'), 4), M('c', S('char')), M('g', A(S('float'), 3))]), K_BITFIELD))
    out.append((G.Record('DBS', True, [M('a', S('short'), 7), M('b', S('char'), 1)]), K_BFSMALL))
    out.append((G.Record('DBO', True, [M('a', S('int')), M('s', G.Record('', True, [M('p', S('int')), M('q', S('int'))])), M('y', S('char')), M('c', S('long'), 3)]), K_BFOVER))
    out.append((G.Record('DBP', True, [M(None, S('schar'), 7), M('d', S('double'))]), K_BFPAD))
    out.append((G.Record('DPK', True, [M('c', S('char')), M('i', S('int'))], packed=True), K_PACKED))
    out.append((G.Record('DAL', True, [M('c', S('char')), M('i', S('int'), None, 16)]), K_ALIGNAS))
    out.append((G.Record('DFX', True, [M('n', S('int')), M('d', A(S('double'), 0))]), K_FLEX))
    out.append((G.Record('DUA', False, [M('a', S('bool'), 1), M('b', S('int'), 24), M(None, S('long'), 0)]), K_D14))
    # neighbours inside the proven domain
    out.append((G.Record('DOK1', True, [M('a', S('char')), M('b', S('double')), M('c', A(S('short'), 3))]), None))
    out.append((G.Record('DOK2', False, [M('a', S('float')), M('b', A(S('char'), 7))]), None))
    out.append((G.Record('DOK3', True, [M('a', S('int'), 8), M('f', S('float')), M('d', S('double'))]), None))
    return out


NARROW_SRC = ('int h(signed char c, unsigned short s, _Bool b);\n'
              'int k(int x) { return h((signed char)x, (unsigned short)x, 1); }\n'
              'signed char r(int x) { return (signed char)x; }\n')


def narrow_extension(ctx):
    """Where the platform ABI makes the CALLER widen sub-word integer arguments (and the callee widen its result) - clang marks
    such parameters signext/zeroext: riscv64 by its psABI, x86-64 by clang's convention, not aarch64 - the value handed over
    must have been produced by an extension (or be a constant / comparison result).  Judged on riscv64, where the psABI says so."""
    c = os.path.join(ctx.tmp, 'narrow.c')
    open(c, 'w').write(NARROW_SRC)
    n = 0
    for target in ('riscv64', 'aarch64'):
        rc, out, err = sh(['clang', '--target=' + CLANG[target], '-S', '-emit-llvm', '-O0', '-o', '-', c], timeout=60)
        decl = re.search(r'^declare [^\n]*@h\(([^)]*)\)', txt(out), re.M)
        if rc != 0 or not decl:
            ctx.broken('correspondence', 'clang gives no declaration for the extension probe', txt(err)[-300:])
            continue
        must = ['signext' in a or 'zeroext' in a for a in decl.group(1).split(',')]
        retext = re.search(r'^define [^\n]*(signext|zeroext) i8 @r\(', txt(out), re.M) is not None
        rc, il, err = ctx.qbe(NARROW_SRC, target=target)
        n += 1
        if rc != 0:
            report(ctx, '%s: extension probe rejected: %s' % (target, err[:100]), NARROW_SRC, 'c', 'static-reject')
            continue
        fk = re.search(r'function w \$k\(.*?\n\}', il, re.S).group(0)
        fr = re.search(r'function w \$r\(.*?\n\}', il, re.S).group(0)

        def producer(fn, v):
            if not v.startswith('%'):
                return 'const'
            m = re.search(r'^\t%s =\w (\w+) ' % re.escape(v), fn, re.M)
            return m.group(1) if m else '?'
        args = re.search(r'call \$h\((.*)\)', fk).group(1).split(', ')
        prods = [producer(fk, a.split(' ')[1]) for a in args]
        okp = [('extsb', 'loadsb'), ('extuh', 'loaduh'), ('const', 'cnew', 'cnel', 'extub')]
        bad = [(i, p) for i, p in enumerate(prods) if must[i] and p not in okp[i] and p != 'const']
        rv = re.search(r'\tret (\S+)', fr).group(1)
        rp = producer(fr, rv)
        if retext and rp not in ('extsb', 'loadsb', 'const'):
            bad.append(('result', rp))
        if bad:
            report(ctx, '%s: sub-word integer arguments/results are handed over as class w without the widening the ABI requires of the caller/callee '
                        '(clang: signext/zeroext): h((signed char)x, (unsigned short)x, 1) passes the results of %r, `return (signed char)x` returns the result of %r; '
                        'with x = 300 a gcc-built callee sees c == 300' % (target, prods, rp), NARROW_SRC, 'c', K_NARROW)
    return n


def directed(ctx, w):
    n = 0
    for rec, key in directed_records():
        u = dict(records=G.tagged_records([rec]), src=minimal_unit(rec), va=G.VaList())
        glay, gerr = gcc_layout(ctx.tmp, 'dir_' + rec.tag, u)
        if glay is None:
            ctx.broken('correspondence', 'directed case rejected by gcc', gerr)
            continue
        for target in TARGETS:
            rc, il, err = ctx.qbe(u['src'], target=target)
            if rc != 0:
                report(ctx, 'directed unit rejected on %s: %s' % (target, err[:200]), u['src'], 'c', 'static-reject')
                continue
            types = [l for l in il.split('\n') if l.startswith('type ')]
            out = run_oracle(w['oracle'], 'RESET %d\nCALL void 0 1 1 %s\n' % (SC[target], rec.enc()))
            mt = [l for l in out if l.startswith('type ')]
            if types != mt:
                ctx.broken('correspondence', 'Emittype model vs cproc: directed ' + rec.tag, '%s: emitted %r, model %r' % (target, types, mt))
            infos = parse_info(run_oracle(w['oracle'], ''.join(parse_type_line(l)[2] + '\n' for l in types) + 'QINFO\n'))
            nm = [l for l in types if l.startswith('type :%s.' % rec.tag)]
            if not nm:
                report(ctx, '%s: no description for %s' % (target, rec.name()), u['src'], 'c', 'descriptor-missing')
                continue
            tid = parse_type_line(nm[0])[1]
            clay = glay
            if target != 'x86_64-sysv':
                clay, cerr = clang_layout(ctx.tmp, 'dir_%s_%s' % (rec.tag, target), u, target)
                if rec.has_bf() and clay:
                    clay[rec.tag][2] = glay[rec.tag][2]

            def oc(size, align, leaves):
                return run_oracle(w['oracle'], 'CLASS %d %d %d %s\n' % (size, align, len(leaves), ' '.join('%d %d %s' % l for l in leaves)))[0].split(' ')[1:4]
            why = compare_layout(rec, infos.get(tid), clay[rec.tag], target, oc)
            n += 1
            if why:
                report(ctx, '%s: %s described as %s: %s' % (target, rec.name(), nm[0][5:], why),
                       dict(kind='layout', target=target, tag=rec.tag, name=rec.name(), src=u['src'], clayout=clay[rec.tag], has_bf=rec.has_bf()),
                       'json', (key if types == mt else None) or 'descriptor-layout:' + target)
            elif key and (key != K_D14 or target == 'aarch64'):
                ctx.notes.append('directed witness %s no longer shows %s on %s' % (rec.tag, key, target))
    # struct with a va_list member (x86_64: element type printed as { })
    for target in TARGETS:
        src = 'struct DV { __builtin_va_list ap; int x; };\nvoid f(struct DV);\nvoid g(struct DV *p) { f(*p); }\n'
        rc, il, err = ctx.qbe(src, target=target)
        types = [l for l in il.split('\n') if l.startswith('type ')]
        infos = parse_info(run_oracle(w['oracle'], ''.join(parse_type_line(l)[2] + '\n' for l in types if parse_type_line(l)) + 'QINFO\n'))
        nm = [l for l in types if l.startswith('type :DV.')]
        want = {'x86_64-sysv': (32, 8), 'aarch64': (40, 8), 'riscv64': (16, 8)}[target]
        n += 1
        if rc != 0 or not nm:
            report(ctx, '%s: struct with a va_list member: rc=%d %s' % (target, rc, err[:100]), src, 'c', 'static-reject')
            continue
        i = infos.get(parse_type_line(nm[0])[1])
        if i is None or (i['size'], i['align']) != want:
            report(ctx, '%s: struct {va_list ap; int x;} described as %s: size/align %r, C type has %r' % (target, nm[0][5:], i and (i['size'], i['align']), want),
                   dict(kind='layout', target=target, tag='DV', name='struct DV', src=src, clayout=[want[0], want[1], None], has_bf=False),
                   'json', K_VALIST if target == 'x86_64-sysv' else 'descriptor-layout:' + target)
    # calls: marker with and without named parameters / variable arguments; the accepted too-few-arguments call; long double
    cases = [
        ('int h(int, ...); int k(void) { return h(1); }', 'CALL w | w ...'),
        ('int h(int, ...); int k(void) { return h(1, (char)2, 3.0f, 4L); }', 'CALL w | w ... w d l'),
        ('void h(...); void k(void) { h(); }', 'CALL - | ...'),
        ('void h(...); void k(float x, short s, _Bool b) { h(x, s, b); }', 'CALL - | ... d w w'),
        ('void h(int a[3], double d); void k(int *p) { h(p, 1); }', 'CALL - | l d'),
        ('struct B { unsigned a : 31; unsigned b : 32; long c : 20; long d : 40; }; void h(int, ...); void k(struct B *p) { h(0, p->a, p->b, p->c, p->d); }', 'CALL - | w ... w w w l'),
    ]
    for src, want in cases:
        for target in TARGETS:
            rc, il, err = ctx.qbe(src, target=target)
            _, _, calls = il_view(il)
            n += 1
            if rc != 0 or calls != [want]:
                report(ctx, '%s: call emitted as %r (rc=%d), the C rules require %r' % (target, calls, rc, want), src, 'c', 'call-signature')
    # a definition and a call of the same function in one unit must use the same classes; every aggregate class that is used
    # must have a description (seeded change C08-advb-08-1: an unnamed struct parameter of a definition got class l)
    agree = [
        'struct pt { long x, y; }; long pick(struct pt, long n) { return n; } long use(struct pt *p) { return pick(*p, 7); }',
        'union un { double d; char c[12]; }; int first(union un, int n, union un) { return n; } int use(union un *p) { return first(*p, 7, *p); }',
        'struct sm { char c; }; struct big { long a[5]; }; int f(struct sm, struct big, double, struct sm s) { return s.c; } int use(struct sm *a, struct big *b) { return f(*a, *b, 1.5, *a); }',
        'struct pr { float f; int i; }; struct pr mk(struct pr, struct pr b) { return b; } float use(struct pr *p) { return mk(*p, *p).f; }',
        'struct pt2 { long x, y; }; long vpick(struct pt2, ...) { return 0; } long use(struct pt2 *p) { return vpick(*p, *p, 1); }',
        # named parameters after unnamed ones are bound to their own positions
        'int second(int, int b) { return b; } int use(void) { return second(1, 2); }',
        'long third(char, double, long c, float) { return c; } long use(void) { return third(1, 2, 3, 4); }',
        # named parameters of a variadic function are converted to the parameter types, not default-promoted
        'long total(long scale, double w, ...) { return scale; } long use(int k, float f) { return total(k, f, 10L); }',
        'long total2(unsigned long scale, float w, ...) { return scale; } long use(void) { return total2(3, 2, 20L); }',
    ]
    for src in agree:
        for target in TARGETS:
            rc, il, err = ctx.qbe(src, target=target)
            n += 1
            if rc != 0:
                report(ctx, '%s: unit with unnamed aggregate parameters rejected: %s' % (target, err[:160]), src, 'c', 'static-reject')
                continue
            types, heads, calls = il_view(il)
            fm = [FUNC_RE.match(l) for l in il.split('\n')]
            cm = [CALL_RE.match(l) for l in il.split('\n')]
            fm = [m for m in fm if m][0]
            cm = [m for m in cm if m][0]
            cls = lambda text: ' '.join(x.strip().split(' ')[0] for x in text.split(',') if x.strip())
            hd = (fm.group(1) or '-', cls(fm.group(2)))
            cl = (cm.group(1) or '-', cls(cm.group(2)))
            norm = lambda x: x.split('...')[0].strip() + (' ...' if '...' in x else '')
            defined = set(parse_type_line(l)[0] for l in types if parse_type_line(l))
            used = set(re.findall(r':[\w.]+', ' '.join(hd + cl)))
            if hd[0] != cl[0] or norm(hd[1]) != norm(cl[1]):
                report(ctx, '%s: the definition takes (%s) returning %s, the call in the same unit passes (%s) expecting %s'
                       % (target, norm(hd[1]), hd[0], norm(cl[1]), cl[0]), src, 'c', 'definition-call-disagree')
            elif not used <= defined:
                report(ctx, '%s: aggregate classes %s are used without a description' % (target, sorted(used - defined)), src, 'c', 'descriptor-missing')
    n += narrow_extension(ctx)
    rc, il, err = ctx.qbe('void f(long double); void g(long double x) { f(x); }')
    n += 1
    if rc == 0:
        ctx.violation('a long double parameter is accepted although it has no backend class', 'void f(long double); void g(long double x) { f(x); }', 'c', key='long-double-accepted')
    # the promoted type of bit-fields against gcc (second opinion for the implementation-defined cases)
    g = ('#include <stdio.h>\nstruct B { unsigned a : 31; unsigned b : 32; long c : 20; long d : 40; unsigned char e : 3; _Bool f : 1; short g : 9; unsigned long h : 32; unsigned long i : 33; } s;\n'
         '#define T(x) _Generic((x), int: "w", unsigned: "w", long: "l", unsigned long: "l", default: "?")\n'
         'int main(void) { printf("%s %s %s %s %s %s %s %s %s\\n", T(+s.a), T(+s.b), T(+s.c), T(+s.d), T(+s.e), T(+s.f), T(+s.g), T(+s.h), T(+s.i)); return 0; }\n')
    p = os.path.join(ctx.tmp, 'prom.c')
    open(p, 'w').write(g)
    rc, out, err = sh('gcc -w %s -o %s.exe && %s.exe' % (p, p, p), timeout=60)
    src = ('struct B { unsigned a : 31; unsigned b : 32; long c : 20; long d : 40; unsigned char e : 3; _Bool f : 1; short g : 9; unsigned long h : 32; unsigned long i : 33; };\n'
           'void v(int, ...); void k(struct B *p) { v(0, p->a, p->b, p->c, p->d, p->e, p->f, p->g, p->h, p->i); }\n')
    rc2, il, err2 = ctx.qbe(src)
    _, _, calls = il_view(il)
    want = ('CALL - | w ... ' + txt(out).strip()).split(' ')
    got = calls[0].split(' ') if calls else []
    n += 1
    # gcc gives bit-fields wider than int a type of their own ("?"): no second opinion there
    if rc == 0 and (rc2 != 0 or len(got) != len(want) or any(a != b for a, b in zip(got, want) if b != '?')):
        report(ctx, 'promoted bit-field arguments emitted as %r, gcc promotes to %r' % (calls, ' '.join(want)), src, 'c', 'bitfield-promotion')
    return n


# ----------------------------------------------------------------------------- run
def run(ctx):
    quick = ctx.tier == 'quick'
    snap = ctx.snapshot()
    ok = ctx.coq(['Properties/%s.vo' % MODULE, 'Extract/Extract_c08.vo'])
    if ok:
        ctx.assumptions(MODULE, ctx.theorem_names(MODULE))
    oracle = ctx.oracle('c08') if ok else None
    qoracle = C03.build_oracle(ctx)
    stats = dict(units=0, types=0, natural=0, bf=0, sigs=0, calls=0, varcalls=0, dyn=0, dyn_events=0, directed=0, check_types=0)
    samples = []
    if snap and oracle and qoracle:
        tables(ctx, snap, oracle)
        shim = os.path.join(ctx.tmp, 'shim.o')
        open(os.path.join(ctx.tmp, 'shim.c'), 'w').write(SHIM)
        sh('gcc -c -O1 %s/shim.c -o %s' % (ctx.tmp, shim), check=True)
        w = dict(oracle=oracle, qoracle=qoracle, shim=shim, ilfiles=[], dyn_targets=['x86_64-sysv'] if quick else TARGETS)
        stats['directed'] = directed(ctx, w)
        ctx.log('directed done')
        # ---- static units
        nunits = 400 if quick else 3000
        units = []
        for i in range(nunits):
            p_bf = [0.0, 0.25, 0.25, 0.5][i % 4]
            units.append(G.gen_static_unit(ctx.rng, p_bf=p_bf, p_special=0.0 if quick or i % 5 else 0.3))
        results = vlib.parallel_map(lambda iu: check_static(ctx, w, iu[0], iu[1]), list(enumerate(units)))
        seen = set()
        for u, r in zip(units, results):
            stats['units'] += 1
            for k, v in r['stats'].items():
                stats[k] = stats.get(k, 0) + v
            for kind, name, detail in r['broken']:
                if (kind, name) not in seen:
                    seen.add((kind, name))
                    ctx.broken(kind, name, detail)
            for v in r['viol']:
                report(ctx, v['what'], v['replay'], 'json', v['key'])
        if units:
            samples.append(units[1]['src'][:600])
        ctx.ob('K-static:%d units x 3 targets: type lines, headers, calls equal the extracted model' % stats['units'],
               not any(b[0] == 'correspondence' for b in ctx.brokens))
        # ---- the independent layout implementation of the IL toolkit on the same files
        files = []
        for idx, target, il in w['ilfiles'][:600 if quick else 4000]:
            f = os.path.join(ctx.tmp, 'il_%d_%s.ssa' % (idx, target))
            open(f, 'w').write(il)
            files.append((f, il))
        bad_ck = []
        for k in range(0, len(files), 100):
            chunk = files[k:k + 100]
            v = C03.oracle_check(qoracle, [f for f, _ in chunk])
            q = ''
            for f, il in chunk:
                if v[f]['parse']:
                    stats['check_unparsed'] = stats.get('check_unparsed', 0) + 1     # grammar is C03's property; the calls are judged above
                    continue
                tl = [parse_type_line(l) for l in il.split('\n') if l.startswith('type ')]
                infos = parse_info(run_oracle(oracle, ''.join(t[2] + '\n' for t in tl if t) + 'QINFO\n'))
                for t in tl:
                    if not t:
                        continue
                    stats['check_types'] += 1
                    mine = infos.get(t[1])
                    theirs = v[f]['types'].get(t[0])
                    if mine is None or theirs is None or (mine['size'], mine['align']) != tuple(theirs):
                        bad_ck.append((t[0], mine and (mine['size'], mine['align']), theirs))
        ctx.ob('K-layout:QbeAgg (extracted) and the IL toolkit agree on size/align of %d emitted descriptions' % stats['check_types'], not bad_ck)
        if bad_ck:
            ctx.broken('correspondence', 'QbeAgg vs Qbe.type_layouts', 'two implementations of QBE\'s layout rule disagree: %r' % (bad_ck[:5],))
        ctx.log('static done')
        # ---- dynamic
        ndyn = 300 if quick else 1500
        progs = [G.gen_dynamic(ctx.rng, p_bf=[0.0, 0.0, 0.15, 0.4][i % 4]) for i in range(ndyn)]
        dres = vlib.parallel_map(lambda iu: check_dynamic(ctx, w, iu[0], iu[1]), list(enumerate(progs)))
        for u, r in zip(progs, dres):
            if 'broken' in r:
                ctx.broken(*r['broken'])
                continue
            stats['dyn'] += 1
            stats['dyn_events'] += r.get('events', 0)
            v = r.get('viol')
            if v:
                report(ctx, v['what'], v['replay'], 'json', v['key'])
        if progs:
            samples.append(progs[0]['src'][:600])
        # ---- results of callees built by ANOTHER compiler: only the bits of the declared return type are defined (x86-64 psABI,
        #      AAPCS64: the callee does not extend), so cproc's caller must extend _Bool/char/short results before every use
        for fv in foreign_narrow_results(ctx, w):
            report(ctx, fv['what'], fv['replay'], 'json', fv['key'])
        stats['directed'] += 2
        ctx.ob('K-dynamic:%d caller/callee programs (%d values) arrive intact under the IL interpreter = gcc trace' % (stats['dyn'], stats['dyn_events']),
               not any(v['key'] in ('dynamic-values', 'dynamic-reject') for v in ctx.violations))
    cov = dict(evaluations=stats['sigs'] + stats['calls'] + stats['types'] + stats['dyn_events'] + stats['directed'],
               distinct_nontrivial=stats['types'] + stats['varcalls'],
               rule='distinct_nontrivial = record types passed by value whose description was compared with the gcc/clang layout (per target) + variadic calls (marker and promotions exercised)',
               samples=samples, stats=stats,
               distribution='units: 3-7 record types of 1..64 bytes (75% structs; members: 50% scalars of 18 kinds, 22% arrays incl. 2-dimensional and arrays of records, '
                            'nested and anonymous records; bit-field probability 0/0.25/0.25/0.5 per unit), 6 prototypes with 0..12 parameters (35% variadic), 2-4 definitions with 1-4 calls each; '
                            'dynamic: 3 callees, 0..12 parameters, 40% variadic with 0..5 promoted scalar extras read by va_arg',
               disagreements_checked=len(ctx.violations) + len(ctx.brokens))
    return ctx.finish(cov, assumptions=[
        'QBE itself is absent: QBE\'s layout rule (Spec/QbeAgg.v, written from parse.c) and the ABI classifiers are specifications; two independent implementations of the layout rule are compared on every emitted description',
        'no mixed executables: the dynamic tie runs cproc-compiled caller AND callee under the IL interpreter of Model/Qbe.v against the gcc-built executable; cross-compiler agreement rests on the descriptor == C layout clause',
        'C layout reference: gcc 12 on the host for x86-64, clang --target for aarch64/riscv64 (sizes, alignments, offsets); bit-field byte ranges are measured on the host only',
        'struct type identity is represented by a uid per type object; the positive theorems assume each uid names one type (uid_ok)',
    ])


def replay(ctx, path):
    snap = ctx.snapshot()
    oracle = ctx.oracle('c08')
    qoracle = C03.build_oracle(ctx)
    text = open(path).read()
    if path.endswith('.c'):
        for target in TARGETS:
            rc, il, err = ctx.qbe(text, target=target)
            print('== %s rc=%d %s' % (target, rc, err[:200]))
            print('\n'.join(l for l in il.split('\n') if l.startswith('type ') or 'call ' in l or l.startswith('function')))
        return 1
    r = json.loads(text)
    print(r.get('src', ''))
    fail = 0
    if r['kind'] == 'foreign':
        w = dict(oracle=oracle, qoracle=qoracle)
        res = foreign_narrow_results(ctx, w)
        for v in res:
            print(v['what'])
        return 1 if res else 0
    if r['kind'] == 'layout':
        rc, il, err = ctx.qbe(r['src'], target=r['target'])
        types = [l for l in il.split('\n') if l.startswith('type ')]
        infos = parse_info(run_oracle(oracle, ''.join(parse_type_line(l)[2] + '\n' for l in types if parse_type_line(l)) + 'QINFO\n'))
        nm = [l for l in types if l.startswith('type :%s.' % r['tag'])]
        i = infos.get(parse_type_line(nm[0])[1]) if nm else None
        print('target %s: %s' % (r['target'], nm[0] if nm else 'no description'))
        print('description denotes: %r' % (i,))
        print('C type has        : size %r align %r fields %r' % tuple(r['clayout']))
        if i is None or (i['size'], i['align']) != (r['clayout'][0], r['clayout'][1]):
            fail = 1
        elif not r.get('has_bf') and r['clayout'][2] is not None and [tuple(x) for x in i['flat']] != [tuple(x) for x in r['clayout'][2]]:
            fail = 1
    elif r['kind'] == 'dynamic':
        shim = os.path.join(ctx.tmp, 'shim.o')
        open(os.path.join(ctx.tmp, 'shim.c'), 'w').write(SHIM)
        sh('gcc -c -O1 %s/shim.c -o %s' % (ctx.tmp, shim), check=True)
        w = dict(oracle=oracle, qoracle=qoracle, shim=shim, dyn_targets=[r.get('target', 'x86_64-sysv')])
        res = check_dynamic(ctx, w, 0, dict(src=r['src'], records=[]))
        if 'viol' in res:
            print(res['viol']['what'])
            fail = 1
    else:
        rc, il, err = ctx.qbe(r['src'], target=r['target'])
        types, heads, calls = il_view(il)
        print('rc=%d %s' % (rc, err[:200]))
        print('\n'.join(types + heads + calls))
        if 'heads' in r:
            print('required:\n' + '\n'.join(r['heads'] + r['calls']))
            fail = int(heads != r['heads'] or calls != r['calls'])
        else:
            fail = int(rc != 0)
    print('STILL FAILS' if fail else 'passes now')
    return fail
