# C09 - linkage and the object's symbol table follow C11 6.2.2 / 6.9.   DESIGN.md section 5 (C09).
#
# A case is a "history": a list of item tokens in the oracle's input language (ocaml/c09/driver.ml):
#   O  C  B  U<i>  D<i>,o,<sc>,<asm>,<init>  D<i>,f,<sc>,<inl>,<asm>,<body>
# It is rendered as a C translation unit, compiled by the snapshot's cproc-qbe, the IL text is parsed
# strictly for `[thread ][export ]data $name`, `[export] function $name` and `[thread ]$name` references,
# and compared
#   (K)  exactly (names, ids, keywords, order) with the extracted Linkage model, and
#   (S)  as a symbol table with the extracted LinkSpec specification,
# and LinkSpec itself is validated against `gcc -std=c11 -pedantic-errors -c` + `readelf -s`.
import os, re, json, itertools
import vlib
from vlib import sh, txt, run_limited

LEVEL = 'proof'
MODULE = 'Properties_C09'

OSC = {'n': '', 's': 'static', 'e': 'extern', 't': '_Thread_local', 'st': 'static _Thread_local', 'et': 'extern _Thread_local'}
FSC = {'n': '', 's': 'static', 'e': 'extern'}
KEY_D19 = 'inline-late-extern'
KEY_TT = 'thread-local-tentative'


# ------------------------------------------------------------------------------------------ histories
def tok_ident(t):
    if t[0] == 'U':
        return int(t[1:])
    if t[0] == 'D':
        return int(t[1:].split(',')[0])
    return -1


def rename(toks, j):
    """single-identifier history over identifier 0 -> identifier j (labels a -> 10*j + a)"""
    out = []
    for t in toks:
        if t[0] == 'U':
            out.append('U%d' % j)
        elif t[0] == 'D':
            p = t[1:].split(',')
            p[0] = str(j)
            ai = 3 if p[1] == 'o' else 4
            if p[ai] != '-':
                p[ai] = str(10 * j + int(p[ai]))
            out.append('D' + ','.join(p))
        else:
            out.append(t)
    return out


def render(toks):
    """history -> C text.  Object uses are `snk = v;`, function uses `v();` (kind of the visible declaration)."""
    out = ['extern int snk;']
    depth = 0
    nw = 0
    nb = 0
    frames = [{}]     # ident -> kind
    for t in toks:
        ind = '\t' * depth
        if t == 'O':
            if depth == 0:
                nw += 1
                out.append('void w%d(void) {' % nw)
            else:
                out.append(ind + '{')
            depth += 1
            frames.append({})
        elif t == 'C':
            depth -= 1
            out.append('\t' * max(depth, 0) + '}')
            if len(frames) > 1:
                frames.pop()
        elif t == 'B':
            nb += 1
            if depth == 0:
                out.append('static char *bs%d = "bump%d";' % (nb, nb))
            else:
                out.append(ind + 'static int bmp%d;' % nb)
        elif t[0] == 'U':
            i = int(t[1:])
            k = next((fr[i] for fr in reversed(frames) if i in fr), 'o')
            out.append(ind + ('snk = v%d;' % i if k == 'o' else 'v%d();' % i))
        else:
            p = t[1:].split(',')
            i = int(p[0])
            if p[1] == 'o':
                _, _, sc, a, init = p
                s = (OSC[sc] + ' int v%d' % i).strip()
                if a != '-':
                    s += ' __asm__("lab%s")' % a
                if init == '1':
                    s += ' = 1'
                out.append(ind + s + ';')
            else:
                _, _, sc, inl, a, body = p
                # _Noreturn is a function specifier like inline (6.7.4) and has no bearing on linkage or on what is an
                # inline definition: the spelling varies deterministically with the position
                var = (i * 7 + len(out)) % 8
                fspec = ((' inline', ' inline', ' inline', ' inline', ' inline _Noreturn', ' _Noreturn inline', ' inline', ' inline inline')[var] if inl == '1'
                         else (' _Noreturn' if var == 5 else ''))
                s = (FSC[sc] + fspec + ' int v%d(void)' % i).strip()
                if a != '-':
                    s += ' __asm__("lab%s")' % a
                out.append(ind + s + (' { return 0; }' if body == '1' else ';'))
            frames[-1][i] = p[1]
    return '\n'.join(out) + '\n'


NAME_RE = r'(?:"[^"\n]*"|[A-Za-z_.][A-Za-z0-9_.]*)'
DATA_RE = re.compile(r'^(thread )?(export )?data \$(' + NAME_RE + r') = (?:align \d+ )?\{')
FUNC_RE = re.compile(r'^function (?:[a-z]+ |:[A-Za-z0-9_.]+ )?\$(' + NAME_RE + r')\(')
REF_RE = re.compile(r'(thread )?\$(' + NAME_RE + r')')
OURS_RE = re.compile(r'^(?:v(\d+)|\.Lv(\d+)\.(\d+)|"lab(\d+)")$')


def classify(name):
    """IL global name -> (ident, asm label or None, id) for names belonging to generated identifiers"""
    m = OURS_RE.match(name)
    if not m:
        return None
    if m.group(1) is not None:
        return (int(m.group(1)), None, 0)
    if m.group(2) is not None:
        return (int(m.group(2)), None, int(m.group(3)))
    return (int(m.group(4)) // 10, int(m.group(4)), 0)


def parse_il(il):
    """-> (defs, refs, problems): defs = [(ident, 'data'|'func', asm, id, thread, export)] in order,
    refs = [(ident, asm, id, thread)] in order; names of other entities are dropped."""
    defs, refs, bad = [], [], []
    export_pending = False
    infunc = False
    for ln in il.split('\n'):
        if not ln:
            continue
        if infunc:
            if ln == '}':
                infunc = False
            elif ln[0] == '\t':
                for m in REF_RE.finditer(ln):
                    c = classify(m.group(2))
                    if c:
                        refs.append((c[0], c[1], c[2], bool(m.group(1))))
            elif ln[0] != '@':
                bad.append(ln)
            continue
        if ln == 'export':
            export_pending = True
            continue
        m = FUNC_RE.match(ln)
        if m:
            c = classify(m.group(1))
            if c:
                defs.append((c[0], 'func', c[1], c[2], False, export_pending))
            export_pending = False
            infunc = True
            continue
        if export_pending:
            bad.append('export not followed by function: ' + ln)
            export_pending = False
        m = DATA_RE.match(ln)
        if m:
            c = classify(m.group(3))
            if c:
                defs.append((c[0], 'data', c[1], c[2], bool(m.group(1)), bool(m.group(2))))
            continue
        if ln.startswith('type '):
            continue
        bad.append(ln)
    if infunc or export_pending:
        bad.append('unterminated function')
    return defs, refs, bad


def b01(x):
    return '1' if x else '0'


def il_symtab(defs, refs, nid):
    """the nm view per identifier, in the oracle's canonical text (without automatic references)"""
    res = []
    for i in range(nid):
        L = ['%s,%s,%s,%s' % ('-' if a is None else a, 'o' if k == 'data' else 'f', b01(t), b01(e))
             for (j, k, a, idn, t, e) in defs if j == i and idn == 0]
        A = [b01(t) + ('!exported' if e else '') for (j, k, a, idn, t, e) in defs if j == i and idn != 0]   # the specification never exports these
        R = [('L%s/%s' % ('-' if a is None else a, b01(t))) if idn == 0 else 'A' + b01(t) for (j, a, idn, t) in refs if j == i]
        res.append('accept L[%s] A[%s] R[%s]' % (';'.join(L), ';'.join(A), ';'.join(R)))
    return res


def strip_auto(s):
    """drop automatic-object references from an outcome text"""
    m = re.match(r'^(accept L\[.*\] A\[.*\] R\[)(.*)\]$', s)
    if not m:
        return s
    return m.group(1) + ';'.join(x for x in m.group(2).split(';') if x and x != 'T') + ']'


class Oracle:
    def __init__(self, exe):
        self.exe = exe

    def run(self, hists):
        """list of token lists -> list of dicts(model, stop, defs, refs, obs{}, spec{}, dev{})"""
        inp = ''.join(' '.join(h) + '\n' for h in hists).encode()
        rc, out, err = run_limited([self.exe], input=inp, timeout=600, cap=1 << 30)
        res = []
        cur = None
        for ln in out.decode().split('\n'):
            if cur is None:
                cur = dict(model=None, stop=-1, defs=[], refs=[], obs={}, spec={}, dev={}, error=None)
            p = ln.split(' ')
            if ln == '.':
                res.append(cur)
                cur = None
            elif p[0] == 'model':
                cur['model'], cur['stop'] = p[1], int(p[2])
            elif p[0] == 'def':
                cur['defs'].append((int(p[1]), p[2], None if p[3] == '-' else int(p[3]), int(p[4]), p[5] == '1', p[6] == '1'))
            elif p[0] == 'ref':
                if p[2] != 'tmp':
                    cur['refs'].append((int(p[1]), None if p[2] == '-' else int(p[2]), int(p[3]), p[4] == '1'))
            elif p[0] == 'obs':
                cur['obs'][int(p[1])] = ' '.join(p[2:])
            elif p[0] == 'spec':
                cur['spec'][int(p[1])] = ' '.join(p[2:])
            elif p[0] == 'dev':
                cur['dev'][int(p[1])] = (p[2] == '1', p[3] == '1')
            elif p[0] == 'error':
                cur['error'] = ln
        if rc != 0 or len(res) != len(hists):
            raise RuntimeError('oracle failed rc=%s (%d of %d answers) %s' % (rc, len(res), len(hists), txt(err)[-300:]))
        return res


def unit_spec(o):
    """combine the per-identifier specification outcomes of a unit: 'unspec' | 'reject' | 'ill' | 'accept'"""
    vals = list(o['spec'].values())
    if any(v.startswith('unspec') for v in vals):
        return 'unspec'
    if any(v == 'ill' for v in vals):
        return 'ill'
    if any(v == 'reject' for v in vals):
        return 'reject'
    return 'accept'


def code_verdict(rc, err):
    if rc == 0:
        return 'accept'
    if rc == 1 and 'error:' in err:
        return 'reject'
    if rc in (139, -11, 134, -6, 136, -8):
        return 'crash'
    if rc == -9 or rc == 137:
        return 'timeout'
    return 'rc%d' % rc


# ------------------------------------------------------------------------------------------ generators
OBJ_ALPHA = ['D0,o,%s,-,%d' % (sc, i) for sc in ('n', 's', 'e', 't', 'st', 'et') for i in (0, 1)]
FUN_ALPHA = ['D0,f,%s,%d,-,%d' % (sc, inl, b) for sc in ('n', 's', 'e') for inl in (0, 1) for b in (0, 1)]


def place(d, scope):
    """a declaration at file scope, or in a wrapper function of its own followed by a use"""
    return [d] if scope == 'f' else ['O', d, 'U0', 'C']


def exhaustive(alpha, maxlen, final_use):
    for n in range(1, maxlen + 1):
        for ds in itertools.product(alpha, repeat=n):
            for scs in itertools.product('fb', repeat=n):
                h = []
                for d, s in zip(ds, scs):
                    h += place(d, s)
                if final_use:
                    h += ['O', 'U0', 'C']
                yield h


def structured(alpha, files):
    """two declarations in one block / in nested blocks / shadowing, after an optional file-scope declaration"""
    for f in files:
        pre = [f] if f else []
        for a in alpha:
            for b in alpha:
                yield pre + ['O', a, b, 'U0', 'C']
                yield pre + ['O', a, 'O', b, 'U0', 'C', 'U0', 'C']
        for a in alpha:
            yield pre + ['O', 'D0,o,n,-,1', 'O', a, 'U0', 'C', 'U0', 'C']          # automatic object shadows, then a
            yield pre + ['O', 'D0,o,s,-,0', 'O', a, 'U0', 'O', a, 'U0', 'C', 'C', 'C']
            yield pre + ['O', a, 'U0', 'C', 'O', a, 'U0', 'C', f or 'B', 'O', 'U0', 'C']


def random_unit(rng, nid):
    """random multi-identifier unit with nesting, shadowing, labels and foreign counter bumps"""
    toks = []
    depth = 0
    n = rng.randint(3, 14)
    kinds = [rng.choice('oof') for _ in range(nid)]
    labelled = [rng.random() < 0.25 for _ in range(nid)]
    for _ in range(n):
        r = rng.random()
        i = rng.randrange(nid)
        if r < 0.16 and depth < 4:
            toks.append('O'); depth += 1
        elif r < 0.28 and depth > 0:
            toks.append('C'); depth -= 1
        elif r < 0.34:
            toks.append('B')
        elif r < 0.50 and depth > 0:
            toks.append('U%d' % i)
        else:
            k = kinds[i] if rng.random() < 0.93 else rng.choice('of')
            a = '-'
            if labelled[i] and rng.random() < 0.8:
                a = str(10 * i + (0 if rng.random() < 0.9 else 1))
            elif rng.random() < 0.03:
                a = str(10 * i + 2)
            if k == 'o':
                if depth == 0:
                    sc = rng.choice(['n', 'n', 's', 'e', 'e', 't', 'st', 'et'])
                    if rng.random() < 0.7 and toks:
                        prev = [t for t in toks if t.startswith('D%d,o,' % i)]
                        if prev:      # mostly keep linkage / thread-ness consistent with the first declaration
                            p0 = prev[0].split(',')[2]
                            sc = rng.choice({'n': ['n', 'e'], 's': ['s', 'e'], 'e': ['e', 'n'], 't': ['t', 'et'], 'st': ['st', 'et'], 'et': ['et', 't']}[p0])
                    init = 1 if rng.random() < 0.25 else 0
                else:
                    sc = rng.choice(['n', 's', 'e', 'e', 'e', 'st', 'et', 't'])
                    init = 1 if rng.random() < 0.15 else 0
                toks.append('D%d,o,%s,%s,%d' % (i, sc, a, init))
            else:
                sc = rng.choice(['n', 'n', 's', 'e']) if depth == 0 else rng.choice(['n', 'n', 'e', 's'])
                inl = 1 if rng.random() < 0.35 else 0
                body = 1 if depth == 0 and rng.random() < 0.35 else (1 if rng.random() < 0.02 else 0)
                toks.append('D%d,f,%s,%d,%s,%d' % (i, sc, inl, a, body))
    toks += ['C'] * depth
    if rng.random() < 0.7:
        toks += ['O'] + ['U%d' % i for i in range(nid) if rng.random() < 0.8] + ['C']
    return toks


REGRESSION = [
    # (history, note) - hand-written units kept from earlier findings
    (['O', 'D0,o,n,-,1', 'O', 'D0,o,e,-,0', 'U0', 'C', 'C'], 'extern-over-nolinkage: int g(void){ int x = 1; { extern int x; return x; } } used to fault (fixed 0d91d3f)'),
    (['O', 'D0,f,e,0,-,0', 'U0', 'O', 'D0,o,n,-,0', 'O', 'D0,f,e,0,-,0', 'U0', 'C', 'C', 'C'], 'extern-over-nolinkage: inner extern f used to become $.Lf.N'),
    (['D0,o,s,-,0', 'O', 'D0,o,n,-,1', 'O', 'D0,o,e,-,0', 'U0', 'C', 'C'], '6.2.2p7 example: static x; { int x; { extern int x; } } (undefined behaviour)'),
    (['D0,f,n,1,-,1', 'D0,f,e,1,-,0', 'O', 'U0', 'C'], 'D19: inline definition followed by extern inline declaration'),
    (['D0,f,n,1,-,1', 'D0,f,n,0,-,0', 'O', 'U0', 'C'], 'D19: inline definition followed by plain declaration'),
    (['D0,f,n,0,-,0', 'D0,f,n,1,-,1'], 'plain declaration then inline definition: external definition'),
    (['D0,f,n,1,-,0', 'D0,f,n,1,-,1', 'O', 'U0', 'C'], 'inline definition only: nothing emitted, reference undefined'),
    (['D0,o,t,-,0', 'D0,o,t,-,0'], 'thread-local tentative definitions emitted twice'),
    (['D0,o,t,-,0', 'D0,o,t,-,1'], 'thread-local tentative definition followed by initializer rejected'),
    (['D0,o,n,-,0', 'D0,o,n,-,0', 'D0,o,n,-,1', 'D0,o,e,-,0'], 'tentative, tentative, definition, extern: one definition'),
    (['D0,o,n,3,0', 'D0,o,n,-,1', 'O', 'D0,o,e,-,0', 'U0', 'C'], 'assembler label inherited by redeclaration and block-scope extern'),
    (['O', 'D0,o,s,-,0', 'U0', 'C', 'O', 'D0,o,s,-,0', 'U0', 'C', 'D0,o,s,-,1', 'O', 'U0', 'C'], 'two block-scope statics and a file-scope static of the same name'),
    (['O', 'D0,o,st,-,0', 'D1,o,et,-,0', 'U0', 'U1', 'C'], 'block-scope thread-local static and extern'),
    (['D0,o,t,-,0', 'D0,o,n,-,0'], 'D32: _Thread_local then plain (6.7.1p3, no check in the source)'),
]


RAW_UNITS = [
    # (source, {object: (bytes, exported)})
    ('int a[]; int a[3];\nextern long b[]; long b[5];\nstatic char c[]; static char c[7];\nint d[]; int d[2] = { 1, 2 };\nint use(void) { return a[0] + b[0] + c[0] + d[0]; }\n',
     {'a': (12, True), 'b': (40, True), 'c': (7, False), 'd': (8, True)}),
    ('int name(void) { const char *p = __func__, *q = __func__; static int n; static int m = 2; return p[0] + q[1] + sizeof __func__ + n + m; }\n'
     'int other(void) { static int n; return __func__[0] + __func__[1] + n; }\n', {}),
    ('extern int x, y; int *p = &x; int x = 1; int *q = &y; int y; static int s; int t; int t; int t = 4;\nint f(void) { return *p + *q + s + t; }\n',
     {'x': (4, True), 'y': (4, True), 's': (4, False), 't': (4, True), 'p': (8, True)}),
    # objects declared while their struct/union type is incomplete are tentative definitions all the same (6.9.2p2):
    # defined once the type is complete (seeded change C09-advb-09-3 dropped them silently)
    ('struct config cfg; union cell pool; static struct config own; struct config { int a; long b; }; union cell { char c[5]; short s; };\n'
     'int f(void) { return cfg.a + pool.s + own.a; }\n', {'cfg': (16, True), 'pool': (6, True), 'own': (16, False)}),
    # a block-scope extern declaration whose file-scope namesake is a typedef name or an enumeration constant (no linkage,
    # 6.2.2p4: nothing to inherit): accepted, external references
    ('typedef int handler; enum { limit = 3 }; int f(void) { extern int limit; int handler(int); return limit + handler(1); }\nint g(void) { handler h = limit; return h; }\n', {}),
    ('static int s; _Thread_local int *c = &s; static _Thread_local int t; extern _Thread_local int t;\nint f(void) { extern _Thread_local int t; return *c + t; }\n', {'c': (8, True), 's': (4, False), 't': (4, False)}),
    # an asm label belongs to its own declarator only
    ('int first __asm__("renamed_first"), second; extern int ea __asm__("x_ea"), eb; static int helper(void) __asm__("h_lp"), other(void);\n'
     'static int helper(void) { return 1; } static int other(void) { return 2; }\nint use(void) { return first + second + ea + eb + helper() + other(); }\n',
     {'second': (4, True)}, 'raw-unit', {'funcs': ['other', 'use'], 'refs': ['eb', 'second']}),
    # objects of size zero (GNU zero-length arrays) are defined all the same
    ('int marker_begin[0]; static int local_mark[0]; int marker_end[0] = { };\nlong f(void) { static long pad[0]; return (long)marker_begin + (long)local_mark + (long)pad + (long)marker_end; }\n',
     {'marker_begin': (0, True), 'local_mark': (0, False), 'marker_end': (0, True)}),
    # _Thread_local written before static / extern
    ('_Thread_local static int x; _Thread_local extern int y; _Thread_local int w = 2;\nint f(void) { _Thread_local static int z; return x + y + z + w; }\n',
     {'x': (4, False), 'w': (4, True)}, 'raw-unit', {'thread': ['x', 'y', 'w']}),
    # known finding: __func__ used only as an address constant of a static initialiser is referenced but never defined
    ('int f(void) { static const char *p = __func__; return p[0]; }\n', {}, 'func-name-address-constant-undefined'),
]

# names longer than any fixed buffer that differ only in their last character: each keeps its own symbol / label
_LN = 'n' + 'abcdefghij' * 27
RAW_UNITS.append(('int %sA = 1, %sB = 2; int use(void) { static int %sC = 3; static int %sD = 4; if (%sA) goto %sE; return %sC; %sE: if (%sB) goto %sF; return %sD; %sF: return 0; }\n'
                  % ((_LN,) * 12), {_LN + 'A': (4, True), _LN + 'B': (4, True)}, 'raw-unit', {'refs': [_LN + 'A', _LN + 'B']}))

# units that must be rejected: the address of a thread-local object is not an address constant (6.6p9: "an object of static
# storage duration"), whatever the initialised object is (seeded change C09-advb-09-2 emitted `l $t` without `thread`)
RAW_REJECT = [
    '_Thread_local int t; int *p = &t;\n',
    '_Thread_local int t[4]; int *p = &t[1];\n',
    '_Thread_local int t; int *a[2] = { 0, &t };\n',
    '_Thread_local int t; int f(void) { static int *p = &t; return *p; }\n',
    'static _Thread_local int t; struct { int x; int *p; } s = { 1, &t };\n',
    'extern _Thread_local int t; _Thread_local int *p = &t;\n',
]

# ------------------------------------------------------------------------------------------ gcc as second opinion
def readelf_syms(obj):
    rc, out, err = sh(['readelf', '-sW', obj], timeout=60)
    syms = []
    for ln in txt(out).split('\n'):
        p = ln.split()
        if len(p) >= 8 and p[0].rstrip(':').isdigit():
            syms.append(dict(type=p[3], bind=p[4], ndx=p[6], name=p[7]))
    return syms


def gcc_symtab_check(syms, spec_text, i, labels):
    """compare gcc's symbol table for identifier i with the specification's outcome text; returns None or a message.
    gcc drops unreferenced undefined symbols and unreferenced local objects, which is tolerated."""
    m = re.match(r'^accept L\[(.*)\] A\[(.*)\] R\[(.*)\]$', spec_text)
    L = [x.split(',') for x in m.group(1).split(';') if x]
    A = [x for x in m.group(2).split(';') if x]
    R = [x for x in m.group(3).split(';') if x]
    names = ['v%d' % i] + ['lab%d' % a for a in labels]
    mine = [s for s in syms if s['name'] in names]
    anon = [s for s in syms if re.match(r'^v%d\.\d+$' % i, s['name'])]
    defined = [s for s in mine if s['ndx'] != 'UND']
    undef = [s for s in mine if s['ndx'] == 'UND']
    linked_refs = [r for r in R if r[0] == 'L']
    if len(L) > 1:
        return 'specification lists %d definitions' % len(L)
    if L:
        nm, k, thr, exp = L[0]
        want_name = 'v%d' % i if nm == '-' else 'lab%s' % nm
        want_type = 'FUNC' if k == 'f' else ('TLS' if thr == '1' else 'OBJECT')
        ds = [s for s in defined if s['name'] == want_name]
        if not ds:
            if exp == '1' or linked_refs:
                return 'gcc does not define %s (spec: defined, export=%s)' % (want_name, exp)
        else:
            s = ds[0]
            if s['type'] != want_type:
                return 'gcc symbol %s has type %s, spec says %s' % (want_name, s['type'], want_type)
            if (s['bind'] == 'GLOBAL') != (exp == '1'):
                return 'gcc symbol %s has binding %s, spec export=%s' % (want_name, s['bind'], exp)
        if [s for s in defined if s['name'] != want_name] or undef:
            return 'gcc has other symbols for the identifier: %r' % (mine,)
    else:
        if defined:
            return 'gcc defines %r, spec says the unit has no definition' % (defined,)
        if linked_refs and not undef:
            return 'gcc has no undefined reference although the identifier is used and not defined'
        if undef and not linked_refs:
            return 'gcc has an undefined reference without a use'
        if undef:
            nm = linked_refs[0][1:].split('/')[0]
            want_name = 'v%d' % i if nm == '-' else 'lab%s' % nm
            if undef[0]['name'] != want_name:
                return 'gcc references %s, spec %s' % (undef[0]['name'], want_name)
    if len(anon) > len(A):
        return 'gcc has %d block-scope statics, spec %d' % (len(anon), len(A))
    nthr = sum(1 for s in anon if s['type'] == 'TLS')
    if nthr > sum(1 for a in A if a == '1'):
        return 'gcc has %d thread-local block-scope statics, spec %d' % (nthr, sum(1 for a in A if a == '1'))
    return None


def depths(toks):
    d = 0
    out = []
    for t in toks:
        out.append(d)
        if t == 'O':
            d += 1
        elif t == 'C':
            d -= 1
    return out


def labels_of(toks, i):
    res = set()
    for t in toks:
        if t[0] == 'D' and tok_ident(t) == i:
            p = t[1:].split(',')
            a = p[3] if p[1] == 'o' else p[4]
            if a != '-':
                res.add(int(a))
    return sorted(res)


# ------------------------------------------------------------------------------------------ the check
class Checker:
    def __init__(self, ctx, oracle):
        self.ctx = ctx
        self.oracle = oracle
        self.stats = dict(units=0, histories=0, model_accept=0, model_reject=0, spec_accept=0, spec_reject=0, spec_unspec=0,
                          batches=0, defs_compared=0, refs_compared=0, d19=0, thread_tentative=0, gcc_units=0, gcc_histories=0,
                          gcc_reject_checked=0, unspec_reasons={})
        self.nontrivial = set()
        self.samples = []
        self.reported = set()

    def compile(self, toks, timeout=10):
        src = render(toks)
        rc, out, err = self.ctx.qbe(src, timeout=timeout)
        return src, rc, out, err

    def judge(self, toks, o, rc, out, err, batch=False):
        """compare one compiled unit with the oracle's answer o.  Returns a list of (kind, key, message)."""
        probs = []
        cv = code_verdict(rc, err)
        nid = max(o['spec'].keys()) + 1
        us = unit_spec(o)
        if o['error'] or o['model'] == 'ill' or us == 'ill':
            return [('generator', 'ill', 'ill-formed history: %r' % (o['error'] or o['model'],))]
        code_tab = None
        code_exact = None
        if cv == 'accept':
            defs, refs, bad = parse_il(out)
            if bad:
                probs.append(('broken', 'il-parse', 'unparsed IL lines: %r' % bad[:3]))
            code_exact = (defs, refs)
            loc = [(i, idn) for (i, k, a, idn, t, e) in defs if idn != 0]
            if len(loc) != len(set(loc)):
                dup = sorted(x for x in set(loc) if loc.count(x) > 1)[:3]
                probs.append(('violation', 'duplicate-local-symbol', 'unit-local symbols defined twice: %s' % ', '.join('$.Lv%d.%d' % x for x in dup)))
            code_tab = il_symtab(defs, refs, nid)
            self.stats['defs_compared'] += len(defs)
            self.stats['refs_compared'] += len(refs)
        # (S) code against the specification
        spec_bad = None
        if us == 'accept':
            if cv != 'accept':
                spec_bad = ('valid-unit-' + cv, 'C11 accepts the unit, cproc: %s %s' % (cv, err.strip()[:200]))
            else:
                for i in range(nid):
                    want = strip_auto(o['spec'][i])
                    if code_tab[i] != want:
                        d19, tt = o['dev'].get(i, (False, False))
                        model_same = o['model'] == 'accept' and strip_auto(o['obs'].get(i, '')) == code_tab[i]
                        if d19 and model_same and not tt:
                            key = KEY_D19
                        elif tt and model_same and not d19:
                            key = KEY_TT
                        else:
                            key = 'symtab:' + ('defs' if code_tab[i].split(' R[')[0] != want.split(' R[')[0] else 'refs')
                        spec_bad = (key, 'identifier v%d: cproc emits %s, C11 prescribes %s' % (i, code_tab[i], want))
                        break
        elif us == 'reject':
            if cv == 'accept':
                tt = any(v[1] for v in o['dev'].values())
                spec_bad = ('accepts-invalid', 'C11 requires a diagnostic, cproc accepts the unit')
            elif cv != 'reject':
                spec_bad = ('invalid-unit-' + cv, 'cproc: %s on a unit that needs a diagnostic' % cv)
        else:
            if cv not in ('accept', 'reject'):
                spec_bad = ('unit-' + cv, 'cproc: %s' % cv)
        if spec_bad:
            # thread-local tentative definitions: the rejection of `_Thread_local int x; _Thread_local int x = 1;`
            if us == 'accept' and cv == 'reject' and o['model'] == 'reject' and any(v[1] for v in o['dev'].values()) \
                    and not any(v[0] for v in o['dev'].values()):
                spec_bad = (KEY_TT, spec_bad[1])
            probs.append(('violation',) + spec_bad)
        # (K) code against the model, exactly
        if cv != o['model']:
            probs.append(('model', 'verdict', 'model says %s (item %d), cproc %s %s' % (o['model'], o['stop'], cv, err.strip()[:160])))
        elif cv == 'accept':
            if code_exact[0] != o['defs']:
                probs.append(('model', 'defs', 'definitions differ: cproc %r model %r' % (code_exact[0], o['defs'])))
            elif code_exact[1] != o['refs']:
                probs.append(('model', 'refs', 'references differ: cproc %r model %r' % (code_exact[1], o['refs'])))
        return probs

    def record(self, toks, o, probs, src):
        ctx = self.ctx
        viol = [p for p in probs if p[0] == 'violation']
        model = [p for p in probs if p[0] == 'model']
        other = [p for p in probs if p[0] in ('broken', 'generator')]
        head = '/* C09 history: %s */\n' % ' '.join(toks)
        for _, key, msg in viol:
            if key == KEY_D19:
                self.stats['d19'] += 1
            if key == KEY_TT:
                self.stats['thread_tentative'] += 1
            self.stats.setdefault('violations_by_key', {})
            self.stats['violations_by_key'][key] = self.stats['violations_by_key'].get(key, 0) + 1
            if (key, 'v') in self.reported and (key in (KEY_D19, KEY_TT) or self.stats['violations_by_key'][key] > 2):
                continue
            self.reported.add((key, 'v'))
            ctx.violation(msg, head + src, 'c', key=key)
        if model and not viol:
            # the code still meets the specification (or the specification is silent) but the model no longer describes it
            for _, key, msg in model[:1]:
                self.stats.setdefault('model_mismatches', {})
                self.stats['model_mismatches'][key] = self.stats['model_mismatches'].get(key, 0) + 1
                if self.stats['model_mismatches'][key] <= 3:
                    self.reported.add(('model', key))
                    ctx.broken('correspondence', 'Linkage model vs cproc-qbe (%s)' % key, msg + '\nhistory: ' + ' '.join(toks) + '\n' + src)
        for kind, key, msg in other:
            ctx.broken('correspondence' if kind == 'broken' else 'build', 'C09 harness (%s)' % key, msg + '\n' + ' '.join(toks))

    def shrink(self, toks, key):
        """greedy token deletion keeping the same violation key"""
        def still(ts):
            try:
                o = self.oracle.run([ts])[0]
            except Exception:
                return False
            if o['model'] == 'ill' or o['error'] or unit_spec(o) == 'ill':
                return False
            src, rc, out, err = self.compile(ts)
            return any(p[0] == 'violation' and p[1] == key for p in self.judge(ts, o, rc, out, err))
        cur = list(toks)
        changed = True
        while changed and len(cur) > 1:
            changed = False
            for k in range(len(cur)):
                for span in (1, 2, 4):
                    cand = cur[:k] + cur[k + span:]
                    if cand and still(cand):
                        cur = cand
                        changed = True
                        break
                if changed:
                    break
        return cur

    def run_cases(self, hists, label, batch_size=24):
        """hists: single- or multi-identifier histories.  Accepted single-identifier ones are batched."""
        ctx = self.ctx
        orc = self.oracle.run(hists)
        single = []
        alone = []
        for h, o in zip(hists, orc):
            self.stats['histories'] += 1
            us = unit_spec(o)
            self.stats['model_' + ('accept' if o['model'] == 'accept' else 'reject')] += 1
            self.stats['spec_' + us] = self.stats.get('spec_' + us, 0) + 1
            for v in o['spec'].values():
                if v.startswith('unspec'):
                    self.stats['unspec_reasons'][v[7:]] = self.stats['unspec_reasons'].get(v[7:], 0) + 1
            nid = max(o['spec'].keys()) + 1
            if o['model'] == 'accept' and nid == 1 and us in ('accept', 'unspec') and not any(o['dev'].get(0, (0, 0))):
                single.append(h)
            else:
                alone.append((h, o))
        units = [(h, o) for h, o in alone]
        # batches of accepted single-identifier histories: identifier j carries history j
        batches = []
        for k in range(0, len(single), batch_size):
            grp = single[k:k + batch_size]
            toks = []
            for j, h in enumerate(grp):
                toks += rename(h, j)
            batches.append((toks, grp))
        borc = self.oracle.run([b[0] for b in batches]) if batches else []
        work = [(h, o, None) for h, o in units] + [(b[0], o, b[1]) for b, o in zip(batches, borc)]

        def one(w):
            toks, o, grp = w
            src, rc, out, err = self.compile(toks, timeout=20)
            return toks, o, grp, src, rc, out, err
        retry = []
        failed_batches = []
        for toks, o, grp, src, rc, out, err in vlib.parallel_map(one, work):
            self.stats['units'] += 1
            if grp is not None:
                self.stats['batches'] += 1
            probs = self.judge(toks, o, rc, out, err)
            if probs and grp is not None:
                retry += grp          # find the culprit history
                failed_batches.append((toks, o, probs, src, grp))
                continue
            self.nontrivial.add(' '.join(toks))
            if probs:
                self.handle(toks, o, probs, src)
            elif len(self.samples) < 6 and (len(toks) > 3):
                self.samples.append({'set': label, 'history': ' '.join(toks[:40]), 'cproc': code_verdict(rc, err),
                                     'spec': {str(k): v for k, v in list(o['spec'].items())[:2]}})
        if retry:
            culprits = set()
            rorc = self.oracle.run(retry)
            for toks, o, grp, src, rc, out, err in vlib.parallel_map(one, [(h, o, None) for h, o in zip(retry, rorc)]):
                self.stats['units'] += 1
                probs = self.judge(toks, o, rc, out, err)
                if probs:
                    culprits.add(' '.join(toks))
                    self.handle(toks, o, probs, src)
            for toks, o, probs, src, grp in failed_batches:
                # the batch fails although each of its histories passes alone: the interaction is the finding
                if not any(' '.join(h) in culprits for h in grp):
                    self.handle(toks, o, probs, src)

    def handle(self, toks, o, probs, src):
        viol = [p for p in probs if p[0] == 'violation']
        if viol and len(toks) > 2 and (viol[0][1], 'v') not in self.reported:
            small = self.shrink(toks, viol[0][1])
            if small != toks:
                o2 = self.oracle.run([small])[0]
                src2, rc, out, err = self.compile(small)
                p2 = self.judge(small, o2, rc, out, err)
                if any(p[0] == 'violation' and p[1] == viol[0][1] for p in p2):
                    toks, o, probs, src = small, o2, p2, src2
        self.record(toks, o, probs, src)

    # ---- the specification against gcc
    def gcc_validate(self, hists, batch_size=20, reject_sample=0):
        ctx = self.ctx
        orc = self.oracle.run(hists)
        acc = [h for h, o in zip(hists, orc) if unit_spec(o) == 'accept' and len(o['spec']) == 1]
        rej = [h for h, o in zip(hists, orc) if unit_spec(o) == 'reject' and len(o['spec']) == 1]
        batches = []
        for k in range(0, len(acc), batch_size):
            grp = acc[k:k + batch_size]
            toks = []
            for j, h in enumerate(grp):
                toks += rename(h, j)
            batches.append((toks, grp))
        tmpd = os.path.join(ctx.tmp, 'gcc')
        os.makedirs(tmpd, exist_ok=True)
        counter = itertools.count()

        def gcc(toks, cc='gcc'):
            n = next(counter)
            c = os.path.join(tmpd, 'u%d.c' % n)
            ob = os.path.join(tmpd, 'u%d.o' % n)
            open(c, 'w').write(render(toks))
            rc, out, err = sh([cc, '-std=c11', '-pedantic-errors', '-O0', '-c', c, '-o', ob], timeout=60)
            syms = readelf_syms(ob) if rc == 0 else None
            for f in (c, ob):
                if os.path.exists(f):
                    os.unlink(f)
            return rc, txt(err), syms

        def check_unit(toks, cc='gcc'):
            o = self.oracle.run([toks])[0]
            rc, err, syms = gcc(toks, cc)
            if rc != 0:
                return ['%s rejects a unit the specification accepts: %s' % (cc, ' / '.join(l for l in err.strip().split('\n') if 'error' in l)[:200])]
            msgs = []
            for i, sp in o['spec'].items():
                m = gcc_symtab_check(syms, sp, i, labels_of(toks, i))
                if m:
                    msgs.append('v%d: %s (spec %s)' % (i, m, sp))
            return msgs
        disagreements = []

        def bone(b):
            toks, grp = b
            msgs = check_unit(toks)
            if not msgs:
                return []
            res = []
            for h in grp:       # locate
                for m in check_unit(h):
                    # gcc counts block-scope declarations in the 6.7.4p7 test (C11 says "file scope declarations") and mishandles
                    # a block-scope redeclaration of a static inline function; clang implements the text.  Second opinion:
                    blockfn = any(t.startswith('D0,f') and d > 0 for t, d in zip(h, depths(h)))
                    if blockfn and not check_unit(h, 'clang'):
                        self.stats['gcc_disagrees_clang_agrees'] = self.stats.get('gcc_disagrees_clang_agrees', 0) + 1
                        continue
                    res.append((h, m))
            return res
        for r in vlib.parallel_map(bone, batches):
            self.stats['gcc_units'] += 1
            disagreements += r
        self.stats['gcc_histories'] += len(acc)
        # histories the specification rejects: gcc -pedantic-errors must reject too
        pick = rej if reject_sample <= 0 or len(rej) <= reject_sample else ctx.rng.sample(rej, reject_sample)

        def rone(h):
            rc, err, syms = gcc(h)
            return (h, 'gcc -pedantic-errors accepts a unit the specification says needs a diagnostic') if rc == 0 else None
        for r in vlib.parallel_map(rone, pick):
            self.stats['gcc_reject_checked'] += 1
            if r:
                disagreements.append(r)
        return disagreements


def build_cases(ctx, thorough):
    rng = ctx.rng
    cases = {}
    # bounded-exhaustive, one identifier, one kind per history (mixed kinds are in the random and structured streams)
    ex = []
    for alpha in (OBJ_ALPHA, FUN_ALPHA):
        ex += list(exhaustive(alpha, 2, False))
        ex += list(exhaustive(alpha, 2, True))
    cases['exhaustive<=2'] = ex
    l3 = []
    for alpha in (OBJ_ALPHA, FUN_ALPHA):
        l3 += list(exhaustive(alpha, 3, True))[len(list(exhaustive(alpha, 2, True))):]
    if not thorough:
        l3 = rng.sample(l3, 9000)
    cases['exhaustive=3' if thorough else 'sample-of-length-3'] = l3
    mixed = [place(a, sa) + place(b, sb) + ['O', 'U0', 'C'] for a in OBJ_ALPHA for b in FUN_ALPHA for sa in 'fb' for sb in 'fb']
    mixed += [place(b, sb) + place(a, sa) + ['O', 'U0', 'C'] for a in OBJ_ALPHA for b in FUN_ALPHA for sa in 'fb' for sb in 'fb']
    cases['mixed-kinds'] = mixed if thorough else rng.sample(mixed, 500)
    st = list(structured(OBJ_ALPHA, ['', 'D0,o,n,-,0', 'D0,o,s,-,0', 'D0,o,e,-,0', 'D0,o,t,-,0'])) + \
        list(structured(FUN_ALPHA, ['', 'D0,f,n,0,-,0', 'D0,f,s,0,-,0', 'D0,f,n,1,-,1'])) + \
        list(structured(OBJ_ALPHA + FUN_ALPHA, ['D0,o,n,-,0', 'D0,f,n,0,-,0'])) if thorough else \
        list(structured(OBJ_ALPHA, ['', 'D0,o,n,-,0', 'D0,o,s,-,0'])) + list(structured(FUN_ALPHA, ['', 'D0,f,s,0,-,0']))
    cases['block-structure'] = st if thorough else rng.sample(st, min(len(st), 2500))
    n4 = 60000 if thorough else 1500
    l4 = []
    for _ in range(n4):
        alpha = OBJ_ALPHA if rng.random() < 0.5 else FUN_ALPHA
        h = []
        for _ in range(4):
            h += place(rng.choice(alpha), rng.choice('ffb'))
        l4.append(h + ['O', 'U0', 'C'])
    cases['random-length-4'] = l4
    cases['random-multi-identifier'] = [random_unit(rng, rng.randint(1, 5)) for _ in range(40000 if thorough else 2500)]
    cases['regression'] = [h for h, _ in REGRESSION]
    return cases


def minimal_rejects(chk, hists):
    """drop rejected histories whose rejection is already decided by a proper prefix of declarations
    (the prefix is a shorter history of the same enumeration)"""
    orc = chk.oracle.run(hists)
    keep = []
    for h, o in zip(hists, orc):
        if o['model'] == 'reject':
            last_decl = max([k for k, t in enumerate(h) if t[0] == 'D'] + [-1])
            if o['stop'] < last_decl:
                continue
        keep.append(h)
    return keep


def run(ctx):
    thorough = ctx.tier == 'thorough'
    snap = ctx.snapshot(targets='cproc-qbe')
    ok = ctx.coq(['Properties/%s.vo' % MODULE, 'Extract/Extract_c09.vo'])
    if ok:
        ctx.assumptions(MODULE, ctx.theorem_names(MODULE))
    exe = ctx.oracle('c09') if ok else None
    stats = {}
    samples = []
    nontrivial = 0
    sets = {}
    if snap and exe and os.path.exists(os.path.join(snap, 'cproc-qbe')):
        chk = Checker(ctx, Oracle(exe))
        # G: the compiler's own expectations about the source (tables re-read on every run)
        dsrc = open(os.path.join(snap, 'decl.c'), errors='replace').read()
        qsrc = open(os.path.join(snap, 'qbe.c'), errors='replace').read()
        cch = open(os.path.join(snap, 'cc.h'), errors='replace').read()
        tables = [
            ('enum linkage order', re.search(r'enum linkage \{\s*LINKNONE,\s*LINKINTERN,\s*LINKEXTERN,?\s*\}', cch)),
            ('SDSTATIC is the zero storage duration', re.search(r'enum storageduration \{\s*SDSTATIC,\s*SDTHREAD,\s*SDAUTO,?\s*\}', cch)),
            ('mkglobal counter is unsigned', re.search(r'mkglobal\(struct decl \*d\)\s*\{\s*static unsigned id;', qsrc)),
            ('emittentativedefns called once, after the last declaration',
             len(re.findall(r'emittentativedefns\(\)', open(os.path.join(snap, 'main.c'), errors='replace').read())) == 1),
            ('tentative list is appended in one place', len(re.findall(r'tentativedefnsend = &d->next', dsrc)) == 1),
        ]
        for name, okk in tables:
            ctx.ob('G:' + name, bool(okk))
            if not okk:
                ctx.broken('table', name, 'the source no longer has the shape the model assumes')
        cases = build_cases(ctx, thorough)
        for label, hs in cases.items():
            n0 = len(hs)
            hs = minimal_rejects(chk, hs)
            sets[label] = {'generated': n0, 'run': len(hs)}
            chk.run_cases(hs, label)
            ctx.log('%s: %d histories (%d after dropping non-minimal rejections), %d units so far' % (label, n0, len(hs), chk.stats['units']))
        ctx.ob('K-CLI:%d histories in %d units: IL names, ids, export/thread keywords and references equal the extracted Linkage model'
               % (chk.stats['histories'], chk.stats['units']), not any(b[0] == 'correspondence' for b in ctx.brokens))
        ctx.ob('S-CLI:symbol tables equal LinkSpec on every specified history (known deviations keyed)',
               not [v for v in ctx.violations if v['key'] not in (KEY_D19, KEY_TT, 'func-name-address-constant-undefined')])
        # hand-written units with types the history language does not have (arrays completed by a later declaration,
        # implicit block-scope statics): every symbol is defined once, with the size of its final type
        for ru in RAW_UNITS:
            src, want = ru[0], ru[1]
            rkey = ru[2] if len(ru) > 2 else 'raw-unit'
            rc, out, err = ctx.qbe(src)
            chk.stats['raw_units'] = chk.stats.get('raw_units', 0) + 1
            defs = re.findall(r'^(?:thread )?(export )?data \$(' + NAME_RE + r') = (?:align \d+ )?\{ (.*?) ?\}$', out, re.M)
            funs = re.findall(r'^function (?:\w+ |:\S+ )?\$(' + NAME_RE + r')\(', out, re.M)
            names = [d[1] for d in defs] + funs
            dup = sorted({n for n in names if names.count(n) > 1})
            refs = set(re.findall(r'\$(' + NAME_RE + r')', out))
            undef_local = sorted(r for r in refs if r.startswith('.L') and r not in names)
            problems = []
            if rc != 0:
                problems.append('rejected: ' + err[:160])
            if dup:
                problems.append('defined more than once: %r' % dup)
            if undef_local:
                problems.append('local symbols referenced but not defined: %r' % undef_local)
            for nm, (size, exported) in want.items():
                got = [d for d in defs if d[1] == nm]
                if len(got) != 1:
                    problems.append('%s: %d definitions' % (nm, len(got)))
                    continue
                body = got[0][2]
                sz = sum({'b': 1, 'h': 2, 'w': 4, 'l': 8, 's': 4, 'd': 8}[t] * max(1, len(re.findall(r'-?[\w$.+"]+', rest))) if t != 'z' else int(rest.strip().rstrip(','))
                         for t, rest in re.findall(r'([bhwlsdz]) ([^,]*),?', body))
                if sz != size or bool(got[0][0]) != exported:
                    problems.append('%s: %d bytes%s, expected %d bytes%s' % (nm, sz, ' exported' if got[0][0] else '', size, ' exported' if exported else ''))
            extra = ru[3] if len(ru) > 3 else {}
            for fn in extra.get('funcs', []):
                if funs.count(fn) != 1:
                    problems.append('function %s: %d definitions' % (fn, funs.count(fn)))
            for rf in extra.get('refs', []):
                if rf not in refs:
                    problems.append('%s is never referenced by its own name' % rf)
            for nm in extra.get('thread', []):
                for ln in out.split('\n'):
                    if re.search(r'\$' + nm + r'\b', ln) and not re.search(r'thread \$' + nm + r'\b', ln) and not re.match(r'^(export )?thread (export )?data \$' + nm + r' ', ln) \
                            and not re.match(r'^thread (export )?data \$' + nm + r' ', ln):
                        problems.append('thread-local %s is defined or accessed without the thread keyword: %s' % (nm, ln.strip()[:80]))
                        break
            if problems:
                ctx.violation('hand-written linkage unit: ' + '; '.join(problems), src, 'c', key=rkey)
        for src in RAW_REJECT:
            rc, out, err = ctx.qbe(src)
            chk.stats['raw_units'] = chk.stats.get('raw_units', 0) + 1
            if rc == 0 or 'error' not in err:
                ctx.violation('the address of a thread-local object is accepted as an address constant (rc=%d): %s'
                              % (rc, [l for l in out.split('\n') if '$t' in l][:2]), src, 'c', key='thread-local-address-constant')
        # the specification against gcc
        gh = cases['exhaustive<=2'] + cases['regression'] + (cases['block-structure'] if thorough else ctx.rng.sample(cases['block-structure'], 600)) \
            + ctx.rng.sample(list(cases.values())[1], 4000 if thorough else 700) \
            + [h for h in cases['random-multi-identifier'] if max(tok_ident(t) for t in h) <= 0][:3000 if thorough else 300]
        dis = chk.gcc_validate(gh, reject_sample=3000 if thorough else 250)
        ctx.ob('S:LinkSpec agrees with gcc -std=c11 -pedantic-errors + readelf on %d accepted histories (%d units) and %d rejected ones'
               % (chk.stats['gcc_histories'], chk.stats['gcc_units'], chk.stats['gcc_reject_checked']), not dis)
        if dis:
            ctx.broken('table', 'LinkSpec vs gcc', '\n'.join('%s :: %s\n%s' % (' '.join(h), m, render(h)) for h, m in dis[:8]))
        stats = chk.stats
        samples = chk.samples
        nontrivial = len(chk.nontrivial)
    cov = dict(evaluations=stats.get('units', 0), distinct_nontrivial=nontrivial,
               rule='distinct translation units by token list; every unit declares its identifiers at least once and is compared on '
                    'verdict, emitted definitions (name, id, thread, export, order) and references; accepted single-identifier histories are '
                    'batched 24 identifiers per unit, rejected ones run alone (only those whose last declaration is the offending one)',
               samples=samples, stats=stats, sets=sets,
               disagreements_checked=len(ctx.violations) + len(ctx.brokens))
    return ctx.finish(cov, assumptions=[
        'decl.c/qbe.c are tied to Model/Linkage.v by exact differential runs on the IL text, not by proof',
        'one identifier per model instance: identifiers interact only through mkglobal\'s counter, output order and the tentative list order (driver)',
        'objects have type int, functions int(void): type compatibility other than object-vs-function is not exercised',
        'LinkSpec reads 6.9.2 as covering _Thread_local file-scope declarations without initializer (as gcc and clang do)',
        'the assembler/linker meaning of export/thread/$.L names is QBE\'s (not part of this check)'])


def replay(ctx, path):
    snap = ctx.snapshot(targets='cproc-qbe')
    ctx.coq(['Extract/Extract_c09.vo'])
    exe = ctx.oracle('c09')
    text = open(path).read()
    m = re.match(r'/\* C09 history: (.*?) \*/', text)
    if not m:
        rc, out, err = ctx.qbe(text)
        print(out, err)
        return 0
    toks = m.group(1).split(' ')
    chk = Checker(ctx, Oracle(exe))
    o = chk.oracle.run([toks])[0]
    src, rc, out, err = chk.compile(toks)
    print(src)
    print('cproc-qbe: rc=%d %s' % (rc, err.strip()))
    print(out)
    print('model:', o['model'], o['defs'], o['refs'])
    print('spec :', o['spec'])
    probs = chk.judge(toks, o, rc, out, err)
    for p in probs:
        print('PROBLEM', p)
    return 1 if probs else 0
