# C10 - constraint violations and unsupported features are diagnosed, never accepted.  DESIGN.md section 5 (C10).
#
#   G   census of diagnostic sites (gen/c10_sites.py) -> coq/Gen/Sites.v; catalogue (catalogue/c10/*.py) ->
#       coq/Gen/SitesCat.v; tables of decl.c (gen/c10_tables.py) -> coq/Gen/ChecksTables.v; the Coq development is
#       rebuilt against them (C10_sites_covered, C10_catalogue_anchored, C10_typespec_table_spec, ...).
#   K1  the catalogue run: every template at every feasible position of generated valid host programs must be
#       rejected with the diagnostic of its site; hosts alone compile; gcc -pedantic-errors rejects the template too.
#   K2  the modelled checkers: cproc == extracted model == specification on generated declarations.
import base64, itertools, json, os, re, sys
import vlib
from vlib import sh, txt

sys.path.insert(0, os.path.join(vlib.VERIF, 'gen'))
import c10_sites, c10_catalogue, c10_tables
C = c10_catalogue

LEVEL = 'proof'
MODULE = 'Properties_C10'
GEN = os.path.join(vlib.COQ, 'Gen')

# guard conditions of the modelled checks as Model/Checks.v mirrors them (normalised source text)
EXPECTED_GUARDS = {
    ('decl.c', "duplicate 'short'"): ['ts & SPECSHORT'],
    ('decl.c', "too many 'long'"): ['ts & SPECLONG2'],
    ('decl.c', "duplicate 'signed'"): ['ts & SPECSIGNED'],
    ('decl.c', "duplicate 'unsigned'"): ['ts & SPECUNSIGNED'],
    ('decl.c', 'multiple types in declaration specifiers'): ['ntypes > 1 || (t && ts)'],
    ('decl.c', 'invalid combination of storage class specifiers'): ['new & ~allowed'],
    ('decl.c', 'storage class not allowed in this declaration'): ['!sc'],
    ('decl.c', "block scope declaration containing 'thread_local' must contain 'static' or 'extern'"): ['sc == SCTHREADLOCAL'],
    ('decl.c', "external declaration must not contain 'auto'"): ['sc & SCAUTO'],
    ('decl.c', "external declaration must not contain 'register'"): ['sc & SCREGISTER'],
    ('decl.c', "function '%s' with block scope may only have storage class 'extern'"): ['f && sc && sc != SCEXTERN'],
    ('decl.c', 'parameter declaration has invalid storage-class specifier'): ['sc && sc != SCREGISTER'],
    ('decl.c', "bit-field '%s' has invalid type"): ['!(mt.type->prop & PROPINT)'],
    ('decl.c', "alignment specified for bit-field '%s'"): ['align'],
    ('decl.c', "bit-field '%s' in packed struct is not supported"): ['b->pack'],
    ('decl.c', "bit-field '%s' with zero width must not have declarator"): ['!width && name'],
    ('decl.c', "bit-field '%s' exceeds width of underlying type"): ['width == -1', 'width > mt.type->size * 8'],
    ('decl.c', 'bit-field exceeds width of underlying type'): ['width == -1'],
    ('decl.c', 'invalid alignment: %llu'): ['i & i - 1 || i > INT_MAX'],
    ('decl.c', "object '%s' requires alignment %d, which is stricter than specified alignment %d"): ['align && align < t->align'],
    ('decl.c', "specified alignment of struct member '%s' is less strict than is required by type"): ['align'],
    ('decl.c', "typedef '%s' declared with alignment specifier"): ['align'],
    ('decl.c', "function '%s' declared with alignment specifier"): ['align'],
    ('decl.c', 'alignment specifier not allowed in this declaration'): ['!align'],
    ('decl.c', 'array length expression must have integer type'): ['!(e->type->prop & PROPINT)'],
    ('decl.c', 'array element has incomplete type'): ['base.type->incomplete'],
    ('decl.c', 'array element has function type'): ['base.type->kind == TYPEFUNC'],
    ('decl.c', 'array length must be non-negative'): ['e->type->u.basic.issigned && e->u.constant.u >> 63'],
    ('decl.c', 'array length is too large'): ['base.type->size && e->u.constant.u > ULLONG_MAX / base.type->size'],   # size 0: only for GNU zero-length element types (outside the model, whose esize = 0 means a variably sized element)
    ('pp.c', "not enough arguments for macro '%s'"): ['i + 1 < m->nparam'],
    ('pp.c', "too many arguments for macro '%s'"): ['t->kind != TRPAREN || m->nparam > 0 && i == m->nparam'],
    ('pp.c', 'EOF when reading macro parameters'): ['t->kind == TEOF'],
}
# what declspecs does for each type-specifier keyword (the statements ts_step mirrors)
EXPECTED_KW = {
    'TVOID': 't = &typevoid; ++ntypes; next(); break;',
    'TCHAR': 'ts |= SPECCHAR; ++ntypes; next(); break;',
    'TSHORT': 'if (ts & SPECSHORT) error(&tok.loc, "duplicate \'short\'"); ts |= SPECSHORT; next(); break;',
    'TINT': 'ts |= SPECINT; ++ntypes; next(); break;',
    'TLONG': 'if (ts & SPECLONG2) error(&tok.loc, "too many \'long\'"); if (ts & SPECLONG) ts |= SPECLONG2; ts |= SPECLONG; next(); break;',
    'TFLOAT': 'ts |= SPECFLOAT; ++ntypes; next(); break;',
    'TDOUBLE': 'ts |= SPECDOUBLE; ++ntypes; next(); break;',
    'TSIGNED': 'if (ts & SPECSIGNED) error(&tok.loc, "duplicate \'signed\'"); ts |= SPECSIGNED; next(); break;',
    'TUNSIGNED': 'if (ts & SPECUNSIGNED) error(&tok.loc, "duplicate \'unsigned\'"); ts |= SPECUNSIGNED; next(); break;',
    'TBOOL': 't = &typebool; ++ntypes; next(); break;',
    'T_COMPLEX': 'error(&tok.loc, "_Complex is not yet supported"); break;',
    'TSTRUCT': 't = tagspec(s); ++ntypes; break;',
}

# features documented as unsupported (README "What's missing", doc/extensions.md "Missing", the property text):
# each must be witnessed by at least one catalogue template containing the given text
DOCUMENTED_UNSUPPORTED = {
    'digraphs (README)': '<:', 'digraph %: (README)': '%:define',
    'variable-length arrays with static storage (README #1)': 'static int x_[h_v]',
    'VLA initializer / [*] outside prototypes (README #1)': '[*]',
    'volatile-qualified types: stores (README #7)': 'vi_ = 1',
    'long double (README #3)': 'ld_ = ld_ + 1',
    'inline assembly (README #5)': '__asm__("nop");',
    'preprocessor: #if (README #6)': '#if 1', 'preprocessor: #ifdef': '#ifdef', 'preprocessor: #ifndef': '#ifndef',
    'preprocessor: #include': '#include <stddef.h>', 'preprocessor: ## operator': 'a ## b', 'preprocessor: #error': '#error',
    'preprocessor: #elif/#endif': '#endif',
    '_Atomic (property text)': '_Atomic int x_', '_Complex (property text)': 'double _Complex x_',
    'statement expressions (doc/extensions.md)': '({ 1; })',
    'empty top-level declarations (doc/extensions.md)': None,
    'conditional with omitted operand (doc/extensions.md)': 'h_v ?: 2',
    'va_arg of aggregate type (todo #52)': '__builtin_va_arg(ap_, struct s_)',
}

# ------------------------------------------------------------------------------------------------ Python specification
TS_ROWS = {}
for _ms, _t in [
    (('void',), 'void'), (('char',), 'char'), (('signed', 'char'), 'schar'), (('unsigned', 'char'), 'uchar'),
    (('short',), 'short'), (('signed', 'short'), 'short'), (('short', 'int'), 'short'), (('signed', 'short', 'int'), 'short'),
    (('unsigned', 'short'), 'ushort'), (('unsigned', 'short', 'int'), 'ushort'),
    (('int',), 'int'), (('signed',), 'int'), (('signed', 'int'), 'int'), (('unsigned',), 'uint'), (('unsigned', 'int'), 'uint'),
    (('long',), 'long'), (('signed', 'long'), 'long'), (('long', 'int'), 'long'), (('signed', 'long', 'int'), 'long'),
    (('unsigned', 'long'), 'ulong'), (('unsigned', 'long', 'int'), 'ulong'),
    (('long', 'long'), 'llong'), (('signed', 'long', 'long'), 'llong'), (('long', 'long', 'int'), 'llong'), (('signed', 'long', 'long', 'int'), 'llong'),
    (('unsigned', 'long', 'long'), 'ullong'), (('unsigned', 'long', 'long', 'int'), 'ullong'),
    (('float',), 'float'), (('double',), 'double'), (('long', 'double'), 'ldouble'), (('_Bool',), 'bool'), (('other',), 'other'),
]:
    TS_ROWS[tuple(sorted(_ms))] = _t
TS_KW = ['void', 'char', 'short', 'int', 'long', 'float', 'double', 'signed', 'unsigned', '_Bool', '_Complex', 'other']
TS_CANON = {'void': 'void', 'char': 'char', 'schar': 'signed char', 'uchar': 'unsigned char', 'short': 'short', 'ushort': 'unsigned short',
            'int': 'int', 'uint': 'unsigned', 'long': 'long', 'ulong': 'unsigned long', 'llong': 'long long', 'ullong': 'unsigned long long',
            'float': 'float', 'double': 'double', 'ldouble': 'long double', 'bool': '_Bool', 'other': 'struct h_o'}
SC_KW = ['typedef', 'extern', 'static', '_Thread_local', 'auto', 'register']


def spec_typespec(kws):
    return TS_ROWS.get(tuple(sorted(kws)))


def spec_storage(kws):
    if len(kws) <= 1:
        return True
    if len(kws) == 2:
        a, b = kws
        return (a == '_Thread_local' and b in ('static', 'extern')) or (b == '_Thread_local' and a in ('static', 'extern'))
    return False


def spec_storage_ctx(ctx, kind, kws):
    if ctx == 'file':
        return 'auto' not in kws and 'register' not in kws
    if ctx == 'block':
        ok = '_Thread_local' not in kws or 'static' in kws or 'extern' in kws
        if kind == 'function':
            ok = ok and kws in ([], ['extern'])
        return ok
    return kws in ([], ['register'])


def spec_arity(named, variadic, toks):
    depth, commas, seen = 0, 0, False
    closed = False
    for c in toks:
        if c == ')' and depth == 0:
            closed = True
            break
        if c == ')':
            depth -= 1
        elif c == '(':
            depth += 1
        elif c == ',' and depth == 0:
            commas += 1
        seen = True
    if not closed:
        return False
    nargs = commas + 1
    if variadic:
        return nargs > named
    if named == 0:
        return not seen
    return nargs == named


# ------------------------------------------------------------------------------------------------ helpers
def write_gen(snap):
    """regenerate the three Gen files from the snapshot; returns (sites, entries, association, tables)"""
    ss = c10_sites.sites(snap)
    c10_sites.write_coq(ss, os.path.join(GEN, 'Sites.v'))
    entries = C.load()
    assoc = C.associate(entries, ss)
    C.write_coq(entries, os.path.join(GEN, 'SitesCat.v'))
    try:
        tb = c10_tables.tables(snap)
        c10_tables.write_coq(tb, os.path.join(GEN, 'ChecksTables.v'))
    except Exception as ex:          # the source no longer has the shape the generator reads
        tb = ex
    return ss, entries, assoc, tb


def encodable(s):
    try:
        s.encode('utf-8')
        return '\x00' not in s
    except UnicodeEncodeError:
        return False


def replay_text(src, tid, pos, cli, target, what):
    meta = dict(template=tid, position=pos, cli=list(cli), target=target, what=what)
    if encodable(src):
        return '// C10-REPLAY ' + json.dumps(meta) + '\n' + src, 'c'
    meta['src_b64'] = base64.b64encode(src.encode('utf-8', 'surrogateescape')).decode()
    return meta, 'json'


def load_replay(path):
    raw = open(path, 'rb').read()
    if path.endswith('.json'):
        meta = json.loads(raw.decode())
        return base64.b64decode(meta['src_b64']), meta
    text = raw.decode('utf-8', 'surrogateescape')
    m = re.match(r'// C10-REPLAY (\{.*\})\n', text)
    if m:
        return text[m.end():].encode('utf-8', 'surrogateescape'), json.loads(m.group(1))
    return raw, dict(cli=[], target='x86_64-sysv')


def oracle_batch(exe, lines):
    rc, out, err = vlib.run_limited([exe], input=('\n'.join(lines) + '\n').encode(), timeout=300)
    res = out.decode('latin1').split('\n')[:-1]
    if rc != 0 or len(res) != len(lines):
        raise RuntimeError('oracle failed rc=%r (%d answers for %d questions): %s' % (rc, len(res), len(lines), txt(err)[-500:]))
    return res


# ------------------------------------------------------------------------------------------------ K2 case builders
def ts_program(rng, kws, expect):
    """a declaration using the specifier list in a random syntactic place; for an accepted list a _Generic test of the type"""
    specs = ' '.join('struct h_o' if k == 'other' else k for k in kws)
    head = 'struct h_o { int a; };\n'
    place = rng.choice(['file', 'param', 'member', 'sizeof', 'block', 'cast', 'typedef'])
    if expect == 'void' and place in ('file', 'member', 'block'):
        place = 'param0'
    if place == 'file':
        body = 'extern %s h_x;\n' % specs
        obj = 'h_x'
    elif place == 'param':
        body = 'int h_f(%s h_x);\n' % specs
        obj = None
    elif place == 'param0':
        body = 'int h_f(%s);\n' % specs
        obj = None
    elif place == 'member':
        body = 'struct h_m { int a; %s h_x; } h_y;\n' % specs
        obj = 'h_y.h_x'
    elif place == 'sizeof':
        body = 'int h_z = sizeof(%s *);\n' % specs
        obj = None
    elif place == 'cast':
        body = 'int h_f(int *h_p) { return (%s *)h_p != 0; }\n' % specs
        obj = None
    elif place == 'typedef':
        body = 'typedef %s h_t; extern h_t *h_x;\n' % specs
        obj = '*h_x' if expect != 'void' else None
    else:
        body = 'int h_f(void) { %s h_x; return sizeof(h_x) != 0; }\n' % specs
        obj = None
    chk = ''
    if expect and expect not in ('void',):
        # the type itself, through a pointer so that nothing is promoted or adjusted
        chk = 'extern %s *h_c;\n_Static_assert(_Generic(h_c, %s *: 1, default: 0), "type");\n' % (specs, TS_CANON[expect])
    return head + body + chk, place


def sc_program(ctx, kind, kws):
    specs = ' '.join(kws)
    sp = (specs + ' ') if specs else ''
    if kind == 'typedef' and 'typedef' not in kws:
        return None
    if kind != 'typedef' and 'typedef' in kws:
        return None
    decl = {'object': '%sint h_x;', 'function': '%sint h_x(void);', 'typedef': '%sint h_x;'}[kind] % sp
    if ctx == 'file':
        return decl + '\n'
    if ctx == 'block':
        return 'int h_f(void) { %s return 0; }\n' % decl
    if kind != 'object':
        return None
    return 'int h_f(%sint h_x);\n' % sp


BF_TYPES = [('_Bool', True, 1, 'bool'), ('char', True, 1, 'int'), ('unsigned char', True, 1, 'int'), ('short', True, 2, 'int'),
            ('int', True, 4, 'int'), ('unsigned', True, 4, 'int'), ('long', True, 8, 'int'), ('unsigned long long', True, 8, 'int'),
            ('h_et', True, 4, 'int'), ('float', False, 4, 'non'), ('double', False, 8, 'non'), ('int *', False, 8, 'non'),
            ('struct h_o', False, 4, 'non')]


def spec_bitfield(kind, size, width, named, alignas, packed):
    if kind == 'non' or alignas or packed:
        return False
    tw = 1 if kind == 'bool' else 8 * size
    if width > tw:
        return False
    if width == 0 and named:
        return False
    return True


# ------------------------------------------------------------------------------------------------ the check
def run(ctx):
    rng = ctx.rng
    thorough = ctx.tier == 'thorough'
    snap = ctx.snapshot()
    stats = dict(sites=0, entries=0, templates=0, justified=0, catalogue_runs=0, gcc_runs=0, hosts=0,
                 typespec_cases=0, storage_cases=0, bitfield_cases=0, alignas_cases=0, array_cases=0, arity_cases=0,
                 verdicts={}, positions={}, findings_reproduced=[])
    samples = []
    nontrivial = set()
    assoc = None
    entries = []
    tb = None
    if snap:
        ss, entries, assoc, tb = write_gen(snap)
        stats['sites'] = len(ss)
        stats['site_calls'] = sum(s[4] for s in ss)
        stats['entries'] = len(entries)
        stats['templates'] = sum(len(e.templates) for e in entries)
        stats['justified'] = sum(1 for e in entries if e.just and not e.templates)
        bykind = {}
        for s in ss:
            bykind[s[2]] = bykind.get(s[2], 0) + 1
        stats['sites_by_kind'] = bykind
        ctx.ob('G:every-site-has-a-catalogue-entry (%d sites)' % len(ss), not assoc['uncovered'] and not assoc['miscount'])
        ctx.ob('G:no-dangling-catalogue-entry (%d entries)' % len(entries), not assoc['dangling'])
        empty = [e for e in entries if not e.templates and not e.just]
        ctx.ob('G:every-entry-has-template-or-justification', not empty)
        for e, s in assoc['reworded']:
            ctx.notes.append('reworded diagnostic tolerated: %s:%s %r -> %r (templates must produce the new text)' % (e.file, e.func, e.text, s[3]))
        if assoc['uncovered'] or assoc['miscount'] or assoc['dangling'] or empty:
            det = []
            det += ['site without catalogue entry: %r' % (s,) for s in assoc['uncovered']]
            det += ['catalogue entry without site (check deleted or moved?): %r' % (e.key,) for e in assoc['dangling']]
            det += ['occurrence count differs: %r catalogue %d source %d' % (e.key, e.count, s[4]) for e, s in assoc['miscount']]
            det += ['entry without template or justification: %r' % (e.key,) for e in empty]
            ctx.broken('table', 'census of diagnostic sites vs catalogue (C10_sites_covered / C10_catalogue_anchored)', '\n'.join(det))
        # ---- G: statements and guard conditions the model mirrors
        if isinstance(tb, Exception):
            ctx.broken('table', 'decl.c tables unreadable', repr(tb))
            ctx.ob('G:decl.c-tables-readable', False)
            tb = None
        else:
            ctx.ob('G:decl.c-tables-readable', True)
            badkw = ['%s: source `%s` model `%s`' % (k, c10_tables.norm_stmt(tb['kwstmts'].get(k, '<missing>')), v)
                     for k, v in EXPECTED_KW.items() if c10_tables.norm_stmt(tb['kwstmts'].get(k, '')) != v]
            for k in ('TUNION', 'TENUM'):
                if c10_tables.norm_stmt(tb['kwstmts'].get(k, '')) != EXPECTED_KW['TSTRUCT']:
                    badkw.append('%s differs from TSTRUCT' % k)
            ctx.ob('G:declspecs-keyword-statements (%d)' % len(EXPECTED_KW), not badkw)
            if badkw:
                ctx.broken('table', 'declspecs keyword cases differ from Model.Checks.ts_step', '\n'.join(badkw))
        gs = c10_tables.guards(snap)
        badg = ['%s %r: source %r model %r' % (k[0], k[1], gs.get(k), v) for k, v in EXPECTED_GUARDS.items() if gs.get(k) != v]
        ctx.ob('G:guard-conditions-of-modelled-checks (%d)' % len(EXPECTED_GUARDS), not badg)
        if badg:
            ctx.broken('table', 'guard conditions differ from Model/Checks.v', '\n'.join(badg))

    okx = ctx.coq(['Extract/Extract_c10.vo'])
    ok = ctx.coq(['Properties/%s.vo' % MODULE])
    if ok:
        ctx.assumptions(MODULE, ctx.theorem_names(MODULE))
    oracle = ctx.oracle('c10') if okx else None

    if snap:
        tokstr = C.read_tokstr(snap)
        # ------------------------------------------------------------------ K1: the catalogue run
        nhosts = 12 if thorough else 4
        reps = 6 if thorough else 1
        hosts = []
        for i in range(nhosts):
            h = C.gen_host(rng, size=2 + (i % 3 if thorough else 0))
            hosts.append(h)
        stats['hosts'] = len(hosts)
        hres = vlib.parallel_map(lambda h: ctx.qbe(h.plain()), hosts)
        badhosts = [(h, r) for h, r in zip(hosts, hres) if r[0] != 0]
        ctx.ob('K1:host-programs-compile (%d)' % len(hosts), not badhosts)
        if badhosts:
            ctx.broken('correspondence', 'a generated host program does not compile', badhosts[0][1][2][:500] + '\n' + badhosts[0][0].plain())
            hosts = [h for h, r in zip(hosts, hres) if r[0] == 0]
        pres = sorted({t.pre for e in entries for t in e.templates if t.pre})
        pres_res = vlib.parallel_map(lambda p: ctx.qbe(hosts[0].plain(p + '\n')), pres) if hosts else []
        badpre = [(p, r) for p, r in zip(pres, pres_res) if r[0] != 0]
        ctx.ob('K1:template-preludes-compile (%d)' % len(pres), not badpre)
        if badpre:
            ctx.broken('correspondence', 'a template prelude does not compile on its own', badpre[0][0] + '\n' + badpre[0][1][2][:500])
        jobs = []
        for e in entries:
            for t in e.templates:
                for p in C.positions(t):
                    for r in range(reps):
                        order = hosts[:]
                        rng.shuffle(order)
                        inst = None
                        for h in order:
                            inst = C.instantiate(h, t, p, rng)
                            if inst:
                                break
                        if inst:
                            jobs.append((e, t, p, inst[0], inst[1]))
                        if p == 'RAW':
                            break

        def runjob(j):
            e, t, p, src, desc = j
            rc, out, err = ctx.qbe(src, target=t.target or 'x86_64-sysv', extra=t.cli)
            return C.judge(e, t, rc, err, tokstr)
        results = vlib.parallel_map(runjob, jobs) if hosts else []
        stats['catalogue_runs'] = len(results)
        accepted_by_tpl, drift = {}, {}
        okcount = {}
        for j, (v, d) in zip(jobs, results):
            e, t, p, src, desc = j
            stats['verdicts'][v] = stats['verdicts'].get(v, 0) + 1
            stats['positions'][p] = stats['positions'].get(p, 0) + 1
            if v == 'ok':
                nontrivial.add((t.tid, p))
                okcount[t.tid] = okcount.get(t.tid, 0) + 1
                if len(samples) < 6 and rng.random() < 0.002:
                    samples.append(dict(template=t.tid, position=p, code=t.code, diagnostic=d))
            elif v in ('accepted', 'crash', 'nodiag'):
                accepted_by_tpl.setdefault(t.tid, []).append((j, v, d))
            elif not t.finding:
                drift.setdefault(t.tid, []).append((p, d))
        bykey = {}
        for tid, lst in sorted(accepted_by_tpl.items()):
            (e, t, p, src, desc), v, d = lst[0]
            # shrink: the same template in the smallest host
            small = C.gcc_program(t)
            rc, out, err = ctx.qbe(small, target=t.target or 'x86_64-sysv', extra=t.cli)
            v2, d2 = C.judge(e, t, rc, err, tokstr)
            if v2 in ('accepted', 'crash', 'nodiag') and t.kind != 'raw':
                src, v, d, p = small, v2, d2, 'minimal host'
            what = ('%s: template `%s` for %s:%s "%s" at %s (%s): %s; positions affected: %s' % (
                {'accepted': 'accepted with status 0', 'crash': 'not diagnosed (abnormal termination)', 'nodiag': 'rejected without a diagnostic'}[v],
                t.code.replace('\n', '\\n')[:120], e.file, e.func, e.cur_text, p, desc, d[:160], ' '.join(sorted({x[0][2] for x in lst}))))
            rt, ext = replay_text(src, tid, p, t.cli, t.target or 'x86_64-sysv', what)
            key = t.finding or ('C10-accepted:%s:%s:%s' % (e.file, e.func, e.text))
            bykey.setdefault(key, []).append((what, rt, ext))
            if t.finding:
                stats['findings_reproduced'].append(t.finding)
        for key, lst in bykey.items():
            what, rt, ext = lst[0]
            if len(lst) > 1:
                what += ' || further templates of this class: ' + ' || '.join(re.search(r'template `(.*?)` for', w).group(1) for w, _, _ in lst[1:])
            ctx.violation(what, rt, ext, key=key)
        stats['findings_reproduced'] = sorted(set(stats['findings_reproduced']))
        ctx.ob('K1:every-template-rejected-at-every-position, except the templates of the listed known findings (%d runs)' % len(results),
               not ctx.unknown_violations())
        ctx.ob('K1:every-template-triggers-its-own-site', not drift)
        if drift:
            det = ['%s at %s: %s' % (tid, ' '.join(p for p, _ in lst), lst[0][1][:200]) for tid, lst in sorted(drift.items())]
            ctx.broken('correspondence', 'templates rejected by another diagnostic than the one of their site (%d templates)' % len(drift), '\n'.join(det[:60]))
        for e in entries:
            for t in e.templates:
                if t.finding and t.tid not in accepted_by_tpl and C.positions(t):
                    ctx.notes.append('recorded finding %s did not reproduce with template `%s`' % (t.finding, t.code[:60]))
        codes = [t.code for e in entries for t in e.templates]
        undocumented = [k for k, v in DOCUMENTED_UNSUPPORTED.items()
                        if not any((c.strip() == ';') if v is None else (v in c) for c in codes)]
        ctx.ob('K1:documented-unsupported-features-have-templates (%d)' % len(DOCUMENTED_UNSUPPORTED), not undocumented)
        if undocumented:
            ctx.broken('table', 'documented-unsupported features without a catalogue template', '\n'.join(undocumented))
        # second opinion
        gjobs = [t for e in entries for t in e.templates if t.gcc is True]
        gres = vlib.parallel_map(lambda t: C.run_gcc(C.gcc_program(t)), gjobs)
        stats['gcc_runs'] = len(gres)
        gbad = [t for t, r in zip(gjobs, gres) if r[0] == 0]
        nowaiver = [t.tid for e in entries for t in e.templates if t.gcc is not True and not (isinstance(t.gcc, str) and len(t.gcc) >= 8)]
        ctx.ob('K1:gcc-pedantic-errors-rejects-every-language-level-template (%d, %d waived)' % (
            len(gjobs), sum(len(e.templates) for e in entries) - len(gjobs)), not gbad and not nowaiver)
        if gbad or nowaiver:
            ctx.broken('correspondence', 'catalogue templates that gcc -std=c11 -pedantic-errors accepts (wrong template or missing waiver)',
                       '\n'.join([t.tid + ': ' + t.code for t in gbad] + nowaiver))

        # ------------------------------------------------------------------ K2: modelled checkers
        if oracle:
            k2(ctx, rng, thorough, oracle, stats, samples, nontrivial)

    if os.environ.get('C10_DEBUG'):
        for k, n, d in ctx.brokens:
            print('--- BROKEN %s %s\n%s' % (k, n, d[:6000]), file=sys.stderr)
        for v in ctx.violations:
            print('--- VIOL [%s] %s' % (v['key'], v['what'][:300]), file=sys.stderr)
    cov = dict(evaluations=stats['catalogue_runs'] + stats['gcc_runs'] + sum(stats[k] for k in stats if k.endswith('_cases')),
               distinct_nontrivial=len(nontrivial),
               rule='distinct (template, position) pairs whose instance was rejected with exactly the diagnostic of the template\'s site, '
                    'plus distinct model-checker inputs on which cproc, model and specification agree on a rejection or on the accepted type',
               samples=samples, stats=stats)
    return ctx.finish(cov, assumptions=[
        'the census extractor (gen/c10_sites.py) finds every call of error/fatal/expect/tokencheck/assert outside driver.c',
        'a catalogue template witnesses its site when the real compiler prints the site\'s (current) message for it',
        'gcc 12 -std=c11 -pedantic-errors as second opinion on the catalogue (explicit waivers listed in catalogue/c10)',
        'macro-arity model: argument tokens that come from nested macro expansion (macrodepth > depth) are outside the model'])


def k2(ctx, rng, thorough, oracle, stats, samples, nontrivial):
    pending = {}

    def viol(what, rt, ext, key):
        pending.setdefault(key, []).append((len(rt) if isinstance(rt, str) else 10 ** 6, what, rt, ext))
    try:
        k2_body(ctx, rng, thorough, oracle, stats, samples, nontrivial, viol)
    finally:
        for key, lst in pending.items():
            lst.sort(key=lambda x: x[0])
            n, what, rt, ext = lst[0]
            ctx.violation(what + (' (and %d more inputs of this class)' % (len(lst) - 1) if len(lst) > 1 else ''), rt, ext, key=key)


def k2_body(ctx, rng, thorough, oracle, stats, samples, nontrivial, viol):
    # ---- (a) type specifier lists
    seqs = set()
    maxlen_all = 5 if thorough else 3
    for n in range(0, maxlen_all + 1):
        for s in itertools.product(TS_KW, repeat=n):
            seqs.add(s)
    for n in (4, 5):
        for ms in itertools.combinations_with_replacement(TS_KW, n):
            l = list(ms)
            for _ in range(3 if thorough else 1):
                rng.shuffle(l)
                seqs.add(tuple(l))
    if thorough:
        for _ in range(30000):
            n = rng.choice([6, 6, 7, 8])
            seqs.add(tuple(rng.choice(TS_KW) for _ in range(n)))
    seqs.discard(())
    seqs = sorted(seqs)
    ans = oracle_batch(oracle, ['TS ' + ' '.join(s) for s in seqs])
    progs = [ts_program(rng, s, spec_typespec(s)) for s in seqs]
    res = vlib.parallel_map(lambda p: ctx.qbe(p[0]), progs)
    stats['typespec_cases'] = len(seqs)
    dis_model, dis_spec = [], []
    for s, a, (src, place), (rc, out, err) in zip(seqs, ans, progs, res):
        m = re.match(r'TS (ok (\w+)|err (\w+)) \| (\w+)', a)
        mtype = m.group(2) if m.group(2) and m.group(2) != 'none' else None
        stype = spec_typespec(s)
        if (m.group(4) if m.group(4) != 'none' else None) != stype:
            dis_spec.append((s, a))
        real_ok = rc == 0
        if real_ok and stype is None:
            rt, ext = replay_text(src, 'typespec:' + ' '.join(s), place, [], 'x86_64-sysv', 'invalid type specifier list accepted')
            viol('type specifier list `%s` (not one of the multisets of C11 6.7.2p2) accepted in %s position' % (' '.join(s), place), rt, ext,
                          key='C10-typespec-accepted')
        elif not real_ok and stype is not None:
            dis_model.append(('valid list rejected (or given another type): ' + ' '.join(s), err.strip()[:150]))
        elif (mtype is not None) != real_ok or (real_ok and mtype != stype):
            dis_model.append(('model %s vs cproc rc=%d: %s' % (a, rc, ' '.join(s)), err.strip()[:150]))
        else:
            nontrivial.add(('ts', s))
    ctx.ob('K2:typespec cproc = model = 6.7.2p2 (%d lists)' % len(seqs), not dis_model and not dis_spec)
    if dis_spec:
        ctx.broken('correspondence', 'extracted c11_typespec differs from the Python transcription of 6.7.2p2', repr(dis_spec[:5]))
    if dis_model:
        ctx.broken('correspondence', 'type specifier lists: cproc differs from model/specification without accepting an invalid list (%d)' % len(dis_model),
                   '\n'.join('%s | %s' % d for d in dis_model[:30]))
    samples.append(dict(typespec=' '.join(seqs[len(seqs) // 2]), oracle=ans[len(seqs) // 2]))

    # ---- (b) storage-class lists in every context
    cases = []
    for n in range(0, 4 if thorough else 3):
        for s in itertools.product(SC_KW, repeat=n):
            for c in ('file', 'block', 'param'):
                for k in ('object', 'function', 'typedef'):
                    src = sc_program(c, k, list(s))
                    if src:
                        cases.append((s, c, k, src))
    q = []
    for s, c, k, src in cases:
        q.append('SC ' + ' '.join(s))
        q.append('SX %s %s %s' % (c, k, ' '.join(s)))
    ans = oracle_batch(oracle, q)
    res = vlib.parallel_map(lambda x: ctx.qbe(x[3]), cases)
    stats['storage_cases'] = len(cases)
    dis = []
    for i, ((s, c, k, src), (rc, out, err)) in enumerate(zip(cases, res)):
        a_sc, a_sx = ans[2 * i], ans[2 * i + 1]
        m_ok = a_sc.startswith('SC ok') and a_sx.startswith('SX 1')
        s_ok = spec_storage(list(s)) and spec_storage_ctx(c, k, list(s))
        sp2 = a_sc.endswith('| 1') and a_sx.endswith('| 1')
        if sp2 != s_ok:
            dis.append('extracted spec %s %s vs python %s for %s/%s/%s' % (a_sc, a_sx, s_ok, s, c, k))
        if rc == 0 and not s_ok:
            rt, ext = replay_text(src, 'storage:' + ' '.join(s), c + '/' + k, [], 'x86_64-sysv', 'invalid storage-class specifiers accepted')
            viol('storage-class specifiers `%s` on a %s at %s scope accepted (C11 6.7.1p2-3,7, 6.9p2, 6.7.6.3p2)' % (' '.join(s), k, c), rt, ext,
                          key='C10-storage-accepted')
        elif (rc == 0) != m_ok or (rc != 0 and s_ok):
            dis.append('cproc rc=%d model %s %s spec %s: `%s` %s/%s: %s' % (rc, a_sc, a_sx, s_ok, ' '.join(s), c, k, err.strip()[:100]))
        else:
            nontrivial.add(('sc', s, c, k))
    ctx.ob('K2:storage-class cproc = model = 6.7.1 (%d declarations)' % len(cases), not dis)
    if dis:
        ctx.broken('correspondence', 'storage-class specifiers: cproc differs from model/specification without accepting an invalid combination (%d)' % len(dis), '\n'.join(dis[:30]))

    # ---- (c) bit-fields
    widths = [0, 1, 2, 7, 8, 9, 15, 16, 17, 31, 32, 33, 63, 64, 65, 127, 2 ** 31, 2 ** 32, 2 ** 63, 2 ** 64 - 2, 2 ** 64 - 1]
    cases = []
    for (tn, isint, size, kind) in BF_TYPES:
        for w in widths:
            for named in (True, False):
                for al in (False, True):
                    for pk in (False, True):
                        if (al or pk) and rng.random() < (0.5 if thorough else 0.8):
                            continue
                        cases.append((tn, isint, size, kind, w, named, al, pk))
    progs = []
    for (tn, isint, size, kind, w, named, al, pk) in cases:
        lit = '%dull' % w if w < 2 ** 63 else '0x%xull' % w
        progs.append('typedef enum h_e { H_A } h_et; struct h_o { int a; };\nstruct %sh_s { int h_first; %s%s %s: %s; int h_last; };\n' % (
            '__attribute__((packed)) ' if pk else '', '_Alignas(8) ' if al else '', tn, 'h_b ' if named else '', lit))
    # structdecl hands the alignment to addmember only for a member with a declarator
    ans = oracle_batch(oracle, ['BF %d %d %d %d %d %d' % (isint, size, 8 if (al and named) else 0, pk, named, w) for (tn, isint, size, kind, w, named, al, pk) in cases])
    res = vlib.parallel_map(lambda p: ctx.qbe(p), progs)
    stats['bitfield_cases'] = len(cases)
    dis = []
    boolfound = unnamedal = None
    for cs, a, src, (rc, out, err) in zip(cases, ans, progs, res):
        (tn, isint, size, kind, w, named, al, pk) = cs
        s_ok = spec_bitfield(kind, size, w, named, al, pk)
        m_ok = a == 'BF ok'
        if rc == 0 and not s_ok:
            if not m_ok:
                dis.append('cproc accepts, model %s, spec rejects: %r' % (a, cs))
            isboolw = kind == 'bool' and 1 < w <= 8
            # the two recorded deviations, alone or combined: _Bool treated as 8 bits wide, alignas invisible on unnamed bit-fields
            relaxed = spec_bitfield('int' if isboolw else kind, size, w, named, al and named, pk)
            if isboolw and relaxed:
                boolfound = boolfound or (cs, src)
                if al and not named and unnamedal is None:
                    unnamedal = (cs, src)
            elif al and not named and relaxed:
                if unnamedal is None or (tn, w) == ('int', 8):
                    unnamedal = (cs, src)
            else:
                rt, ext = replay_text(src, 'bitfield', repr(cs), [], 'x86_64-sysv', 'invalid bit-field accepted')
                viol('bit-field `%s : %d`%s%s%s accepted (C11 6.7.2.1p4-5, 6.7.5p2)' % (tn, w, '' if named else ' unnamed', ' _Alignas' if al else '', ' packed' if pk else ''),
                              rt, ext, key='C10-bitfield-accepted')
        elif (rc == 0) != m_ok or (rc != 0 and s_ok):
            dis.append('cproc rc=%d model %s spec %s for %r: %s' % (rc, a, s_ok, cs, err.strip()[:100]))
        else:
            nontrivial.add(('bf',) + cs)
    if boolfound:
        cs, src = boolfound
        rt, ext = replay_text(src, 'bitfield', repr(cs), [], 'x86_64-sysv', '_Bool bit-field wider than 1 bit accepted')
        viol('bit-field `_Bool : %d` accepted: the width of _Bool is 1 (C11 6.7.2.1p4; C10_bitfield_constraints_refuted)' % cs[4], rt, ext,
                      key='C10-bool-bitfield-width')
        stats['findings_reproduced'] = sorted(set(stats['findings_reproduced'] + ['C10-bool-bitfield-width']))
    if unnamedal:
        cs, src = unnamedal
        rt, ext = replay_text(src, 'bitfield', repr(cs), [], 'x86_64-sysv', 'alignment specifier on an unnamed bit-field accepted')
        viol('`_Alignas(8) %s : %d;` accepted: alignment specifier in the declaration of an (unnamed) bit-field (C11 6.7.5p2; '
                      'C10_bitfield_alignas_unnamed_refuted)' % (cs[0], cs[4]), rt, ext, key='C10-alignas-unnamed-bitfield')
        stats['findings_reproduced'] = sorted(set(stats['findings_reproduced'] + ['C10-alignas-unnamed-bitfield']))
    ctx.ob('K2:bit-fields cproc = model = 6.7.2.1 (%d declarations)' % len(cases), not dis)
    if dis:
        ctx.broken('correspondence', 'bit-fields: cproc differs from model/specification (%d)' % len(dis), '\n'.join(dis[:30]))

    # ---- (d) alignment specifiers
    atypes = [('char', 1), ('short', 2), ('int', 4), ('long', 8), ('double', 8), ('struct h_o', 4)]
    avals = [0, 1, 2, 3, 4, 6, 8, 16, 24, 32, 4096, 2 ** 30, 2 ** 31 - 1, 2 ** 31, 2 ** 32, 2 ** 63, 2 ** 64 - 1]
    cases = []
    for tn, ta in atypes:
        for v in avals:
            cases.append((tn, ta, (v,)))
        for _ in range(30 if thorough else 8):
            cases.append((tn, ta, tuple(rng.choice(avals[:12]) for _ in range(rng.randint(2, 3)))))
    progs = []
    for tn, ta, vs in cases:
        sp = ' '.join('_Alignas(%s)' % ('%dull' % v if v < 2 ** 63 else '0x%xull' % v) for v in vs)
        if rng.random() < 0.5:
            progs.append('struct h_o { int a; };\n%s %s h_x;\n' % (sp, tn))
        else:
            progs.append('struct h_o { int a; };\nstruct h_s { char c; %s %s h_x; };\n' % (sp, tn))
    ans = oracle_batch(oracle, ['AL %d %s' % (ta, ' '.join(map(str, vs))) for tn, ta, vs in cases])
    res = vlib.parallel_map(lambda p: ctx.qbe(p), progs)
    stats['alignas_cases'] = len(cases)
    dis = []
    for (tn, ta, vs), a, src, (rc, out, err) in zip(cases, ans, progs, res):
        pw = all(v == 0 or (v & (v - 1)) == 0 for v in vs)
        mx = max(vs)
        s_ok = pw and (mx == 0 or mx >= ta)
        limit = all(v <= 2 ** 31 - 1 for v in vs)     # implementation limit INT_MAX: rejecting more is allowed
        m_ok = a == 'AL ok'
        if rc == 0 and not s_ok:
            rt, ext = replay_text(src, 'alignas', repr((tn, vs)), [], 'x86_64-sysv', 'invalid alignment accepted')
            viol('alignment specifiers %r on `%s` accepted (C11 6.7.5p3-4)' % (vs, tn), rt, ext, key='C10-alignas-accepted')
        elif (rc == 0) != m_ok or (rc != 0 and s_ok and limit):
            dis.append('cproc rc=%d model %s spec %s for %s %r: %s' % (rc, a, s_ok, tn, vs, err.strip()[:100]))
        else:
            nontrivial.add(('al', tn, vs))
    ctx.ob('K2:alignment-specifiers cproc = model = 6.7.5 (%d declarations)' % len(cases), not dis)
    if dis:
        ctx.broken('correspondence', 'alignment specifiers: cproc differs from model/specification (%d)' % len(dis), '\n'.join(dis[:30]))

    # ---- (e) array sizes
    etypes = [('char', 1, 0, 0), ('int', 4, 0, 0), ('double', 8, 0, 0), ('struct h_big', 4096, 0, 0), ('struct h_u', 0, 1, 0), ('void', 0, 1, 0)]
    lens = [('0', 1, 0, 1), ('1', 1, 1, 1), ('-1', 1, 2 ** 64 - 1, 1), ('-0x7fffffffffffffffll - 1', 1, 2 ** 63, 1), ('0x7fffffffffffffff', 1, 2 ** 63 - 1, 1),
            ('0xffffffffffffffffull', 0, 2 ** 64 - 1, 1), ('0x8000000000000000ull', 0, 2 ** 63, 1), ('0x4000000000000000', 1, 2 ** 62, 1),
            ('0x3fffffffffffffff', 1, 2 ** 62 - 1, 1), ('0x1fffffffffffffff', 1, 2 ** 61 - 1, 1), ('0x2000000000000000', 1, 2 ** 61, 1),
            ('0xfffffffffffffull', 0, 2 ** 52 - 1, 1), ('0x10000000000000ull', 0, 2 ** 52, 1), ('4503599627370495', 1, 2 ** 52 - 1, 1),
            ('100', 1, 100, 1), ('1.5', 0, 0, 0), ('(char)3', 1, 3, 1), ('-(char)3', 1, 2 ** 64 - 3, 1), ('1u - 2', 0, 2 ** 32 - 1, 1)]
    cases = [(et, ln) for et in etypes for ln in lens]
    progs = ['struct h_big { char c[4096]; };\nextern %s h_a[%s];\n' % (et[0], ln[0]) for et, ln in cases]
    progs += ['extern int h_fa[3](void);\n']
    ans = oracle_batch(oracle, ['AR %d %d %d %d %d %d' % (ln[3], ln[1], ln[2], et[2], et[3], et[1]) for et, ln in cases] + ['AR 1 1 3 0 1 0'])
    res = vlib.parallel_map(lambda p: ctx.qbe(p), progs)
    stats['array_cases'] = len(progs)
    dis = []
    for i, (a, src, (rc, out, err)) in enumerate(zip(ans, progs, res)):
        if i < len(cases):
            et, ln = cases[i]
            val = ln[2] - 2 ** 64 if (ln[1] and ln[2] >= 2 ** 63) else ln[2]
            s_ok = bool(ln[3]) and not et[2] and not et[3] and val >= 0 and val * et[1] < 2 ** 64     # ext_array_ok (zero length tolerated)
            desc = '%s[%s]' % (et[0], ln[0])
        else:
            s_ok, desc = False, 'array of functions'
        m_ok = a == 'AR ok'
        if rc == 0 and not s_ok:
            rt, ext = replay_text(src, 'array', desc, [], 'x86_64-sysv', 'invalid array declarator accepted')
            viol('array declarator `%s` accepted (C11 6.7.6.2p1)' % desc, rt, ext, key='C10-array-accepted')
        elif (rc == 0) != m_ok or (rc != 0 and s_ok):
            dis.append('cproc rc=%d model %s spec %s for %s: %s' % (rc, a, s_ok, desc, err.strip()[:100]))
        else:
            nontrivial.add(('ar', desc))
    ctx.ob('K2:array-declarators cproc = model = 6.7.6.2 + documented extension (%d declarations)' % len(progs), not dis)
    if dis:
        ctx.broken('correspondence', 'array declarators: cproc differs from model/specification (%d)' % len(dis), '\n'.join(dis[:30]))

    # ---- (f) macro invocations
    cases = set()
    alphabet = 'x,()'
    for named in range(0, 4):
        for variadic in (0, 1):
            for n in range(0, 6 if thorough else 5):
                for tk in itertools.product(alphabet, repeat=n):
                    s = ''.join(tk)
                    d, okb = 0, True
                    for c in s:
                        d += (c == '(') - (c == ')')
                        if d < 0:
                            okb = False
                    if okb and d == 0:
                        cases.add((named, variadic, s + ')'))
            for _ in range(300 if thorough else 40):
                n = rng.randint(3, 14)
                s, d = '', 0
                for _ in range(n):
                    c = rng.choice('xx,,()' if d else 'xx,,(')
                    d += (c == '(') - (c == ')')
                    s += c
                s += ')' * d
                cases.add((named, variadic, s + (')' if rng.random() < 0.9 else '')))
    cases = sorted(cases)
    progs = []
    for named, variadic, s in cases:
        params = ', '.join(['p%d' % i for i in range(named)] + (['...'] if variadic else []))
        progs.append('#define H_M(%s) 1\nint h_x = H_M(%s;\n' % (params, s.replace('x', ' 7 ').replace('(', ' ( ').replace(',', ' , ')))
    ans = oracle_batch(oracle, ['MA %d %d %s' % c for c in cases])
    res = vlib.parallel_map(lambda p: ctx.qbe(p, extra=['-E']), progs)
    stats['arity_cases'] = len(cases)
    dis = []
    for (named, variadic, s), a, src, (rc, out, err) in zip(cases, ans, progs, res):
        s_ok = spec_arity(named, bool(variadic), s)
        m = a.split(' ')[1]
        if (a.split(' ')[3] == '1') != s_ok:
            dis.append('extracted spec %s vs python %s for %r' % (a, s_ok, (named, variadic, s)))
        real = 'ok' if rc == 0 else ('notenough' if 'not enough arguments' in err else 'toomany' if 'too many arguments' in err else 'eof' if 'EOF when reading' in err else 'other:' + err.strip()[:60])
        if rc == 0 and not s_ok:
            rt, ext = replay_text(src, 'arity', repr((named, variadic, s)), ['-E'], 'x86_64-sysv', 'macro invocation with a wrong number of arguments accepted')
            viol('invocation `H_M(%s` of a macro with %d parameter(s)%s accepted (C11 6.10.3p4)' % (s, named, ' and ...' if variadic else ''), rt, ext,
                          key='C10-macro-arity-accepted')
        elif real != m:
            dis.append('cproc %s model %s spec %s for %r' % (real, a, s_ok, (named, variadic, s)))
        else:
            nontrivial.add(('ma', named, variadic, s))
    ctx.ob('K2:macro-arity cproc = model = 6.10.3p4 (%d invocations)' % len(cases), not dis)
    if dis:
        ctx.broken('correspondence', 'macro invocations: cproc differs from model/specification (%d)' % len(dis), '\n'.join(dis[:30]))


def replay(ctx, path):
    snap = ctx.snapshot()
    if not snap:
        print('the working tree does not build')
        return 1
    src, meta = load_replay(path)
    rc, out, err = ctx.qbe(src.decode('utf-8', 'surrogateescape'), target=meta.get('target', 'x86_64-sysv'), extra=meta.get('cli', []))
    print('template:', meta.get('template'), 'position:', meta.get('position'))
    print('exit status %r; stderr: %s' % (rc, err.strip()[:300]))
    line = err.strip().split('\n')[0] if err.strip() else ''
    if rc == 0:
        print('STILL FAILS: the program violates a constraint (%s) and is accepted with status 0' % meta.get('what', ''))
        return 1
    if rc != 1 or not C.DIAG.match(line):
        print('STILL FAILS: not diagnosed in the standard form (status %r)' % rc)
        return 1
    print('rejected with a diagnostic: fixed')
    return 0
