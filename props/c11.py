# C11 - diagnostics name the file and line of the offending construct.   DESIGN.md section 5 (C11), notes/C11.md.
#
# Parties on every generated text:
#   real    cproc-qbe of the snapshot: the location of EVERY token (-E token dump of the hook) and the first stderr line
#           of a compilation with one catalogue violation on a line of its own
#   model   extracted Coq model of scan.c + pp.c:nextinto/directive (ocaml/c13/oracle pp): exact comparison
#   coqspec extracted Coq specification Spec/LineSpec.v (ocaml/c11/oracle spec): the list the theorem
#           C11_loc_spec_partial is about
#   spec    Python reference (gen/c13_lex.py: physical(), presumed()), written from C11 5.1.1.2 / 6.10.4; gcc as second opinion
# real != spec -> violation (shrunk line-wise);  real == spec but model/coqspec != real -> broken correspondence.
import os, re, sys
import vlib
from vlib import sh, txt, run_limited

sys.path.insert(0, os.path.join(vlib.VERIF, 'gen'))
import c13_lex as L

LEVEL = 'proof'
MODULE = 'Properties_C11'
ENV = dict(os.environ, CPROC_VERIF_TOKDUMP='1')


def real_dump(exe, path):
    rc, out, err = run_limited([exe, '-E', path], env=ENV, timeout=30, cap=64 << 20)
    return rc, L.parse_dump(out.decode('latin-1')), err.decode('latin-1')


def model_dump(oracle, path):
    rc, out, err = run_limited(['sh', '-c', 'ulimit -s 4000000 2>/dev/null || ulimit -s unlimited 2>/dev/null; exec "$0" "$@"', oracle, 'pp', path],
                               timeout=60, cap=64 << 20)
    o = out.decode('latin-1')
    i = o.rfind('END ')
    return L.parse_dump(o[:i] if i >= 0 else o), (o[i:].strip() if i >= 0 else 'NOEND')


def coqspec_locs(oracle11, path):
    rc, out, err = run_limited(['sh', '-c', 'ulimit -s 4000000 2>/dev/null || ulimit -s unlimited 2>/dev/null; exec "$0" "$@"', oracle11, 'spec', path],
                               timeout=60, cap=64 << 20)
    res = []
    for l in out.decode('latin-1').split('\n'):
        if l:
            f, a, b = l.rsplit(':', 2)
            res.append((f, int(a), int(b)))
    return res


# ------------------------------------------------------------------------------------------------ generators
def splice_into(rng, s, p):
    """insert backslash-new-line at random positions of a token spelling (never right after a '.')"""
    out = []
    for i, ch in enumerate(s):
        if i > 0 and rng.random() < p and s[i - 1] != '.':
            out.append('\\\n')
        out.append(ch)
    return ''.join(out)


def gen_text(rng, nlines, compile_ok=False, macros=False):
    """A text mixing code, markers with flags, #line with/without file, null directives, blank lines, comments spanning
    lines and splices inside tokens.  With compile_ok the code lines are valid file-scope declarations."""
    lines = []
    files = ['foo.h', 'dir/bar.c', 'x y.h', 'a', '<built-in>', 'inc.h']
    nvar = [0]

    def decl():
        nvar[0] += 1
        nm = 'v%d' % nvar[0]
        forms = ['int %s = %d;' % (nm, rng.randint(0, 999)),
                 'static  char %s[%d];' % (nm, rng.randint(1, 9)),
                 'int\t%s(void);' % nm,
                 'struct s_%s { int a; } %s;' % (nm, nm),
                 'enum { e_%s = %d };' % (nm, rng.randint(0, 9)),
                 'char *%s = "str/*not*/";' % nm,
                 'int %s = \'x\' + 1e0 * 0 + sizeof(int);' % nm]
        return rng.choice(forms)

    def code():
        if compile_ok:
            return decl()
        toks = [rng.choice(['a', 'bc', 'int', 'x1', '42', '0x1e', '1e+5', '.5', '"s t"', "'c'", '+', '++', '->', '...', '..', '.', '<<=', '(', ')',
                            '{', '}', ';', ',', '#', '##', 'L"w"', 'u8"u"', '$', '@'])
                for _ in range(rng.randint(1, 8))]
        if toks[0] in ('#', '##'):
            toks[0] = ';'
        return rng.choice(['', ' ', '\t', '   ']) + rng.choice([' ', '  ', '\t', '']).join(toks)

    i = 0
    while i < nlines:
        r = rng.random()
        if r < 0.34:
            l = code()
            if rng.random() < 0.3:
                # splice inside a token of this line
                parts = re.split(r'(\w+|"[^"]*")', l)
                parts = [splice_into(rng, p, 0.3) if (j % 2 == 1 and rng.random() < 0.5) else p for j, p in enumerate(parts)]
                l = ''.join(parts)
            lines.append(l)
        elif r < 0.44:
            fl = rng.choice(['', '', ' 1', ' 2', ' 3', ' 1 3', ' 2 3 4'])
            n = rng.choice([1, 2, 7, 10, 100, 31337, 2147483000, 0, 8, 9, 10])
            lead = rng.choice(['', '', ' ', '\t'])
            lines.append('%s#%s%s "%s"%s' % (lead, rng.choice([' ', '  ', '']), ('%d' % n) if rng.random() < 0.8 else ('0%d' % n), rng.choice(files), fl))
        elif r < 0.54:
            n = rng.choice([1, 5, 50, 1000, 99999, 2147483647 - rng.randint(0, 3), 10, 8])
            form = rng.choice(['#line %d', '# line %d', '#line %d "FILE"', '#  line\t%d  "FILE"', '#line %d /* c */', '#line\\\n %d', '#line %d "FILE" /* multi\n line */'])
            lines.append((form % n).replace('FILE', rng.choice(files)))
        elif r < 0.62:
            lines.append(rng.choice(['', '', '   ', '\t', '/* only a comment */', '// line comment', '#', ' # ', '\\']))
        elif r < 0.72:
            body = rng.choice(['/* two\n lines */', '/* three\n\n lines */', '/*\n*\n*\n*/', '/* a \\\n b */', '/* x */ /* y\n z */'])
            lines.append(rng.choice(['', '  ']) + body + rng.choice(['', ' ' + code()]))
        elif r < 0.78:
            lines.append(code() + rng.choice([' // tail', ' // spliced comment \\\n still comment', ' /* t */']))
        elif r < 0.84:
            l = code()
            if not compile_ok:
                lines.append(l + ' \\\n   ' + code().lstrip())
            else:
                k = len(l) // 2
                lines.append(l[:k] + '\\\n' + l[k:] if k > 0 and l[k - 1] != '.' else l)
        elif r < 0.90 and macros:
            lines.append('ID2(%s,\n   %s)' % (('int m%d' % i) if compile_ok else 'p q', ('= %d;' % i) if compile_ok else 'r'))
        else:
            lines.append(code())
        i += 1
    head = ['#define ID2(a, b) a b'] if macros else []
    return '\n'.join(head + lines) + '\n'


def spec_tokens(text, fname, macros=False, decode_file=True):
    """expected (kind, spelling, file, line, col) of every token of the -E stream, new-lines included (their location is not specified)"""
    out, end = L.presumed(text, fname, decode_file=decode_file)
    out = L.apply_keywords(out)
    if macros:
        # drop the tokens of ID2 invocations that disappear in the expansion: ID2 ( , )
        res = []
        depth = 0
        i = 0
        while i < len(out):
            t = out[i]
            if depth == 0 and t[0] == 'TIDENT' and t[1] == 'ID2' and i + 1 < len(out) and out[i + 1][0] == 'TLPAREN':
                depth = 1
                i += 2
                continue
            if depth:
                if t[0] == 'TLPAREN':
                    depth += 1
                elif t[0] == 'TRPAREN':
                    depth -= 1
                    if depth == 0:
                        i += 1
                        continue
                elif t[0] == 'TCOMMA' and depth == 1:
                    i += 1
                    continue
                elif t[0] == 'TNEWLINE':
                    i += 1
                    continue
            res.append(t)
            i += 1
        out = res
    # the first next() runs before PPNEWLINE is set: leading new-lines are not printed
    while out and out[0][0] == 'TNEWLINE':
        out = out[1:]
    return out, end


CATALOGUE = [
    ('int viol_%d = undeclared_%d;', 'undeclared_', 'undeclared identifier'),
    ('  return %d + %d;', 'return', 'expected declaration'),
    ('\tint viol_%d = %d +;', ';', 'expected primary expression'),
    ('int fviol_%d(void) { return nodecl_%d; }', 'nodecl_', 'undeclared identifier'),
]


def run(ctx):
    rng = ctx.rng
    thorough = ctx.tier == 'thorough'
    snap = ctx.snapshot()
    ok = ctx.coq(['Properties/%s.vo' % MODULE, 'Extract/Extract_c11.vo', 'Extract/Extract_c13.vo'])
    if ok:
        ctx.assumptions(MODULE, ctx.theorem_names(MODULE))
    oracle = ctx.oracle('c13') if ok else None
    oracle11 = ctx.oracle('c11') if ok else None
    stats = dict(dump_texts=0, dump_tokens=0, directives=0, splices=0, comment_lines=0, diag_programs=0, gcc_agree=0, gcc_checked=0,
                 model_texts=0, coqspec_texts=0, coqspec_tokens=0, unsupported_by_spec=0)
    samples = []
    nontrivial = set()
    if not snap:
        return ctx.finish(dict(evaluations=0, distinct_nontrivial=0, rule='snapshot did not build', samples=[]))
    exe = os.path.join(snap, 'cproc-qbe')
    names = L.read_enum(open(os.path.join(snap, 'cc.h')).read())
    work = os.path.join(ctx.tmp, 'c11')
    os.makedirs(work)

    # ------------------------------------------------------------------------------------------ whole-file location comparison
    plans = []
    sizes = [4, 8, 15, 30, 60] if not thorough else [4, 8, 15, 30, 60, 150, 400]
    reps = 60 if not thorough else 2000
    for n in sizes:
        for _ in range(reps):
            plans.append((gen_text(rng, n), False))
    for _ in range(60 if not thorough else 600):
        plans.append((gen_text(rng, rng.choice([6, 20]), macros=True), True))
    # hand-written corner cases
    for t in ['#line 100\n\nint x = y;\n', '# 7 "foo.h" 1\n\n\nint x = y;\n', '#line 5\n\\\n\\\n  a b\n', '# 3 "f"\n/* c\n */ # 9\nq\n',
              '#line 010\nx\n', '# 08 "z"\ny\n', '#line 2147483647\na\nb\n', '#line 1 "a" \n#line 2\n#line 3 "b"\nx y\n', 'a..b .c\n',
              'x\n#\n#\ny\n# 5\n\n z\n', '#line 7 /* c\n c */ "f.c"\nw\n', '\n\n\n#line 9\n\n  k\n', 'ab\\\ncd ef\\\n\\\ngh\n1\\\n2 "s\\\nt"\n',
              '/* c */ # 4 "m"\nn\n', '#line 3 "f" 1 2\no\n']:
        plans.append((t, False))

    def one(item):
        idx, (text, macros) = item
        path = os.path.join(work, 't%04d.c' % idx)
        tb = text.encode('latin-1')
        with open(path, 'wb') as f:
            f.write(tb)
        rc, real, err = real_dump(exe, path)
        spec, send = spec_tokens(tb, path, macros)
        mod = model_dump(oracle, path) if (oracle and not macros) else None
        cq = coqspec_locs(oracle11, path) if (oracle11 and not macros) else None
        return idx, text, macros, path, rc, real, err, spec, send, mod, cq

    def check_dump(text, macros, path, rc, real, err, spec, send):
        """first disagreement between the real dump and the specification, or None"""
        if macros:
            # whether a new-line inside macro arguments survives the expansion is C12's business: compare the other tokens
            real = [r for r in real if r[3] != 2]
            spec = [e for e in spec if e[0] != 'TNEWLINE']
        n = min(len(real), len(spec))
        for i in range(n):
            r, e = real[i], spec[i]
            if names[r[3]] != e[0] or r[6] != e[1]:
                return ('token', i, r, e)
            if e[0] != 'TNEWLINE' and (r[0], r[1], r[2]) != (e[4], e[5], e[6]):
                return ('location', i, r, e)
        if send == 'eof' and (len(real) != len(spec) or rc != 0):
            return ('length', n, real[n:n + 1], spec[n:n + 1], rc, err[:120])
        if len(real) < len(spec) and not send.startswith(('unsupported', 'error')):
            return ('length', n, real[n:n + 1], spec[n:n + 1], rc, err[:120])
        return None

    nbad = ndrift = 0
    for idx, text, macros, path, rc, real, err, spec, send, mod, cq in vlib.parallel_map(one, list(enumerate(plans))):
        stats['dump_texts'] += 1
        stats['dump_tokens'] += len(real)
        stats['directives'] += len(re.findall(r'^[ \t]*#', text, re.M))
        stats['splices'] += text.count('\\\n')
        stats['comment_lines'] += len(re.findall(r'/\*[^*]*\n', text))
        if send.startswith('unsupported'):
            stats['unsupported_by_spec'] += 1
        if re.search(r'^[ \t]*#[^\n]*\n[ \t]*(\\\n|\n)', text, re.M) or '\\\n' in text:
            nontrivial.add(text)
        bad = check_dump(text, macros, path, rc, real, err, spec, send)
        if bad:
            nbad += 1
            if nbad <= 3:
                def still(t):
                    p = os.path.join(ctx.tmp, 'shrink11.c')
                    open(p, 'wb').write(t.encode('latin-1'))
                    r2 = real_dump(exe, p)
                    s2 = spec_tokens(t.encode('latin-1'), p, macros)
                    return check_dump(t, macros, p, r2[0], r2[1], r2[2], s2[0], s2[1]) is not None
                small = shrink_lines(text, still)
                p = os.path.join(ctx.tmp, 'shrink11.c')
                open(p, 'wb').write(small.encode('latin-1'))
                r2 = real_dump(exe, p)
                s2 = spec_tokens(small.encode('latin-1'), p, macros)
                b2 = check_dump(small, macros, p, r2[0], r2[1], r2[2], s2[0], s2[1]) or bad
                ctx.violation('token location differs from the presumed location (%s): token %d: cproc %r, expected %r; text %r'
                              % (b2[0], b2[1], b2[2], b2[3], small[:120]), small, 'c', key='loc:' + b2[0])
            continue
        # model: exact (all tokens incl. new-lines, locations, end)
        if mod is not None:
            stats['model_texts'] += 1
            ml, mend = mod
            a = [(r[0], r[1], r[2], r[3], r[4], r[6]) for r in real]
            b = [(r[0], r[1], r[2], r[3], r[4], r[6]) for r in ml]
            e1 = err.split('\n')[0]
            okend = (mend == 'END eof' and rc == 0) or (mend == 'END unsupported') or \
                    (mend.startswith('END error ') and rc == 1 and e1.startswith(mend[len('END error '):].split(': ')[0] + ': error: '))
            if mend == 'END unsupported':
                a = a[:len(b)]
            if a != b or not okend:
                ndrift += 1
                if ndrift <= 2:
                    i = next((i for i, (x, y) in enumerate(zip(a, b)) if x != y), min(len(a), len(b)))
                    ctx.broken('correspondence', 'Scan/directive model vs cproc-qbe (locations)',
                               'token %d: real %r model %r; model end %s, real rc=%d %s\ntext: %r' % (i, a[i:i + 1], b[i:i + 1], mend, rc, e1, text[:400]))
        # the Coq specification itself: prefix of the real locations of non-new-line tokens (C11_loc_spec_partial), when applicable
        if cq is not None and '.\\\n' not in text:
            stats['coqspec_texts'] += 1
            stats['coqspec_tokens'] += len(cq)
            got = [(r[0], r[1], r[2]) for r in real if r[3] != 2]
            if got[:len(cq)] != cq:
                ndrift += 1
                if ndrift <= 2:
                    i = next((i for i, (x, y) in enumerate(zip(got, cq)) if x != y), min(len(got), len(cq)))
                    ctx.broken('correspondence', 'Spec/LineSpec.v (extracted) vs cproc-qbe', 'token %d: real %r spec %r\ntext: %r' % (i, got[i:i + 1], cq[i:i + 1], text[:400]))
            py = [(e[4], e[5], e[6]) for e in spec if e[0] != 'TNEWLINE']
            if py[:len(cq)] != cq and ndrift <= 2:
                ndrift += 1
                ctx.broken('correspondence', 'Spec/LineSpec.v (extracted) vs the Python reference', 'text: %r\ncoq %r\npy %r' % (text[:300], cq[:8], py[:8]))
        if len(samples) < 2 and stats['dump_texts'] > 5:
            samples.append({'text': text[:200], 'first_locations': ['%s:%d:%d %s' % (r[0].split('/')[-1], r[1], r[2], r[6]) for r in real[:6]]})
    ctx.ob('K-dump:%d texts / %d tokens: location of every token = presumed location (LineSpec)' % (stats['dump_texts'], stats['dump_tokens']), nbad == 0)
    ctx.ob('K-dump:model (extracted Scan.run) and extracted LineSpec.expected agree with the dump on %d / %d texts' % (stats['model_texts'], stats['coqspec_texts']),
           ndrift == 0 and oracle is not None and oracle11 is not None)

    # ------------------------------------------------------------------------------------------ real diagnostics
    dplans = []
    for _ in range(300 if not thorough else 12000):
        macros = rng.random() < 0.25
        text = gen_text(rng, rng.choice([3, 8, 20, 40]), compile_ok=True, macros=macros)
        ls = text.split('\n')
        # insert the violation on a line of its own, not inside a comment / spliced line
        cand = [i for i in range(1, len(ls)) if ls[i - 1][-1:] not in ('\\', ',') and text_outside_comment(ls, i)]
        if not cand:
            continue
        pos = rng.choice(cand)
        form, marker, msg = rng.choice(CATALOGUE)
        n = rng.randint(1, 9999)
        vline = form % (n, n)
        ls.insert(pos, vline)
        dplans.append(('\n'.join(ls), marker, msg, macros, vline))

    def done(item):
        idx, (text, marker, msg, macros, vline) = item
        path = os.path.join(work, 'd%04d.c' % idx)
        tb = text.encode('latin-1')
        open(path, 'wb').write(tb)
        rc, out, err = run_limited([exe, path], timeout=20, cap=1 << 20)
        g = None
        if idx % 3 == 0 and not re.search(r'" [12]', text):
            grc, gout, gerr = sh(['gcc', '-fsyntax-only', '-w', '-ftabstop=1', path], timeout=20)
            m = re.search(r'^(.*?):(\d+):(\d+): error:', txt(gerr), re.M)
            g = (m.group(1), int(m.group(2)), int(m.group(3))) if m else None
        return idx, text, marker, msg, macros, vline, path, rc, err.decode('latin-1'), g

    dbad = 0
    for idx, text, marker, msg, macros, vline, path, rc, err, g in vlib.parallel_map(done, list(enumerate(dplans))):
        stats['diag_programs'] += 1
        nontrivial.add(text)
        spec, send = L.presumed(text.encode('latin-1'), path)
        # the offending token: first token spelled with the marker inside the violation line
        want = None
        for e in spec:
            if e[1].startswith(marker) and (marker != ';' or False):
                want = e
                break
        if marker == ';':
            # the ';' that follows the '+' of the violation line
            for i in range(1, len(spec)):
                if spec[i][0] == 'TSEMICOLON' and spec[i - 1][0] == 'TADD':
                    want = spec[i]
                    break
        if marker == 'return':
            want = next((e for e in spec if e[0] == 'TIDENT' and e[1] == 'return' and e[6] == 3), None)
        first = err.split('\n')[0]
        m = re.match(r'^(.*):(\d+):(\d+): error: (.*)$', first)
        if want is None:
            continue
        exp = (want[4], want[5], want[6])
        if rc != 1 or not m:
            dbad += 1
            ctx.violation('a program with one constraint violation (%s) is not diagnosed with file:line:col: error: (rc=%d, stderr %r)' % (vline, rc, first[:120]),
                          text, 'c', key='diag:format')
            continue
        got = (m.group(1), int(m.group(2)), int(m.group(3)))
        if got != exp:
            dbad += 1
            if dbad <= 3:
                ctx.violation('diagnostic names %s:%d:%d (%s), the offending token %r is at presumed location %s:%d:%d'
                              % (got + (m.group(4)[:40], want[1]) + exp), text, 'c', key='diag:location')
        if g is not None:
            stats['gcc_checked'] += 1
            if g == exp:
                stats['gcc_agree'] += 1
            else:
                ctx.broken('correspondence', 'Python presumed-location reference vs gcc', 'gcc %r, reference %r; text %r' % (g, exp, text[:300]))
    # diagnostics on tokens made by macro replacement (# operator, replacement lists, arguments): the location must
    # name this file and a line of the invocation or of the definition - never a null file or line 0
    MACRO_DIAG = [('#define S(x) #x\nint S(x);\n', {1, 2}), ('#define S(x) #x\n\nint a = 1;\nint S(a\n b);\n', {1, 4, 5}),
                  ('#define M 1 +\n\nint v = M;\n', {1, 3}), ('#define F(a, b) a b\nint F(x,\n 2);\n', {1, 2, 3}),
                  ('#define V(...) #__VA_ARGS__ __VA_ARGS__\nint q = V(1,\n2);\n', {1, 2, 3})]
    # the same under #line: the file name of a token is the one in force where the token was scanned (tokens of a replacement
    # list keep it when the macro is used after another #line); allowed = (file, line) of the definition or of the invocation
    MACRO_DIAG += [('#line 7 "defs.h"\n#define BAD 1 +\n#line 3 "main.c"\nint v = BAD;\n', {('defs.h', 7), ('main.c', 3)}),
                   ('#line 20 "a.h"\n#define S(x) #x\n#define T int\n# 5 "b.c"\nT S(q);\n', {('a.h', 20), ('b.c', 5)}),
                   ('# 1 "x.h" 1\n#define E }\n# 9 "y.c" 2\nint f(void) { return 1; E E\n', {('x.h', 1), ('y.c', 9)})]
    # an identical (benign) redefinition: the tokens of the replacement list in force are those of the LATEST definition
    MACRO_DIAG += [('# 1 "a.h" 1\n#define LIMIT (1 + undeclared_)\n# 3 "b.h" 1\n#define LIMIT (1 + undeclared_)\n# 9 "m.c" 2\nint v = LIMIT;\n', {('b.h', 3), ('m.c', 9)}),
                   ('#define K(x) (x + nothere_)\n\n\n#define K(x) (x + nothere_)\nint w = K(1);\n', {4, 5})]
    for k, (text, lines) in enumerate(MACRO_DIAG):
        path = os.path.join(work, 'md%d.c' % k)
        open(path, 'w').write(text)
        rc, out, err = run_limited([exe, path], timeout=20, cap=1 << 20)
        first = err.decode('latin-1').split('\n')[0]
        m = re.match(r'^(.*):(\d+):(\d+): error: ', first)
        stats['diag_programs'] += 1
        if lines and isinstance(next(iter(lines)), tuple):
            okloc = bool(m) and (m.group(1), int(m.group(2))) in lines
        else:
            okloc = bool(m) and m.group(1) == path and int(m.group(2)) in lines
        if rc != 1 or not okloc:
            dbad += 1
            ctx.violation('diagnostic on a token produced by macro replacement does not name a line of the invocation or definition: %r (rc=%d)' % (first[:160], rc),
                          text, 'c', key='diag:macro-token-location')
    ctx.ob('K-diag:%d programs with one violation on a line of its own: first stderr line = presumed location of the offending token (gcc agrees on %d/%d)'
           % (stats['diag_programs'], stats['gcc_agree'], stats['gcc_checked']), dbad == 0)

    # ------------------------------------------------------------------------------------------ known findings (narrow keys)
    def first_err(src, args=()):
        p = os.path.join(work, 'k.c')
        open(p, 'wb').write(src.encode('latin-1'))
        rc, out, err = run_limited([exe] + list(args) + [p], timeout=10, cap=1 << 20, env=ENV)
        return rc, out.decode('latin-1'), err.decode('latin-1').split('\n')[0], p
    src = '#define S(x) #x\nchar *p = S(..\\\nz);\nint v = undecl;\n'
    rc, out, e1, p = first_err(src)
    if not e1.startswith(p + ':4:9: error:'):
        ctx.violation('`..` followed by backslash-new-line and a non-`.` character: the push-back restores the old location, later lines are '
                      'reported one too low: %r (expected %s:4:9)' % (e1, os.path.basename(p)), src, 'c', key='dotdot-splice-loc')
    for src, want in [('#undef\n', ':1:7'), ('char *s = "abc\n', ':1:')]:
        rc, out, e1, p = first_err(src)
        if not e1.startswith(p + want):
            ctx.violation('a diagnostic located AT a new-line names the next line, column 0: %r for %r (gcc: line 1)' % (e1, src), src, 'c', key='newline-token-loc')
    src = '#line 5 "a\\\\b.c"\nint x = y;\n'
    rc, out, e1, p = first_err(src)
    if not e1.startswith('a\\b.c:5:9: error:'):
        ctx.violation('escape sequences in the file name of #line are not decoded: %r (gcc: a\\b.c:5:9)' % e1, src, 'c', key='line-file-escape')
    # exact locations of diagnostics raised on an operator that is not the first of its chain, on operands spread over lines
    for src, want in [('struct s { int a; } p; int n, r;\nvoid f(void) {\n\tr = n\n\t\t* 2\n\t\t+ p;\n}\n', ':5:3: error:'),
                      ('struct s { int a; } p; int n, r;\nvoid f(void) {\n\tr = n + 1 - 2\n\t  - n + n\n\t  % p;\n}\n', ':5:4: error:'),
                      ('struct s { int a; } p; int n, r;\nvoid f(void) { r = n << 1 >> 2 & p; }\n', ':2:32: error:'),
                      ('struct s { int a; } p; int n, r;\nvoid f(void) { r = n * 2 * 3\n / p; }\n', ':3:2: error:'),
                      ('struct s { int a; } p; int n, r;\nvoid f(void) { r = n || n || n\n\n && p; }\n', ':4:2: error:')]:
        rc, out, e1, p = first_err(src)
        grc, gout, gerr = sh(['gcc', '-fsyntax-only', '-w', '-ftabstop=1', p], timeout=20)
        gm = re.search(r'^(.*?):(\d+):(\d+): error:', txt(gerr), re.M)
        if gm and ':%s:%s: error:' % (gm.group(2), gm.group(3)) != want:
            ctx.broken('correspondence', 'hand-written operator location vs gcc', 'gcc %s:%s, expected %s for %r' % (gm.group(2), gm.group(3), want, src))
        stats['diag_programs'] += 1
        if not e1.startswith(p + want):
            ctx.violation('a diagnostic about the operands of an operator does not name that operator: %r, expected %s%s' % (e1, os.path.basename(p), want), src, 'c', key='diag:operator-location')
    # a #pragma continued by a splice counts its physical lines; a presumed file name longer than any fixed buffer is printed whole
    longname = 'dir/' + 'n' * 170 + '.h'
    for src, want in [('#pragma omp parallel \\\n for\nint x = y;\n', ':3:9: error:'), ('#pragma a \\\n b \\\n c\n\nint x = y;\n', ':5:9: error:'),
                      ('# 57 "%s" 1\nint x = y;\n' % longname, longname + ':57:9: error: '), ('#line 9 "%s"\n\nint x = y;\n' % (longname * 3), longname * 3 + ':10:9: error: ')]:
        rc, out, e1, p = first_err(src)
        stats['diag_programs'] += 1
        if want not in e1 or ' error: ' not in e1 or len(e1) < len(want) + 5:
            ctx.violation('diagnostic location: %r gives %r, expected %s followed by the message' % (src[:80], e1[:300], want[-60:]), src, 'c', key='diag:location')
    # several input files: every file starts at line 1 with its own name
    fa, fb, fc = os.path.join(work, 'multi_a.c'), os.path.join(work, 'multi_b.c'), os.path.join(work, 'multi_c.c')
    open(fa, 'w').write('int a1;\n#line 40\nint a2;\nint a3;\n')
    open(fb, 'w').write('int b1;\nint b2;\nint b3;\n')
    open(fc, 'w').write('int c1;\nint c2 = nowhere;\n')
    rc, out, err = run_limited([exe, fa, fb, fc], timeout=10, cap=1 << 20, env=ENV)
    e1 = err.decode('latin-1').split('\n')[0]
    stats['diag_programs'] += 1
    if rc != 1 or not e1.startswith(fc + ':2:10: error:'):
        ctx.violation('several input files: the diagnostic in the third file is %r (rc=%d), expected %s:2:10: error:' % (e1[:200], rc, os.path.basename(fc)),
                      'int c1;\nint c2 = nowhere;\n', 'c', key='diag:location-second-file')
    # locations kept across a failed one-token look-ahead, of invalid UTF-8 in a later literal of a concatenation, of the operand of # in a spliced definition
    for src, want in [('int r;\nvoid f(void) {\n  missing_fn\n  (r);\n}\n', ':3:3: error:'), ('unsigned *m =\n  U"ok"\n  U"fine"\n  U"bad\xff"\n  U"x";\n', ':4:3: error:'),
                      ('#define SHOW(fmt, val) \\\n  fmt \\\n  # 1\nint x;\n', ':3:5: error:'), ('int a[3];\nint f(void) {\n  return nowhere\n    [1];\n}\n', ':3:10: error:')]:
        rc, out, e1, p = first_err(src)
        stats['diag_programs'] += 1
        if not e1.startswith(p + want):
            ctx.violation('diagnostic location: %r gives %r, expected %s%s' % (src[:80], e1[:200], os.path.basename(p), want), src, 'c', key='diag:location')
    # regression corpus of fixed defects
    for src, want in [('#line 100\n\nint x = y;\n', ':101:9: error:'), ('# 7 "foo.h" 1\n\n\nint x = y;\n', 'foo.h:9:9: error:'),
                      ('#line 010\nint x = y;\n', ':10:9: error:')]:
        rc, out, e1, p = first_err(src)
        if want not in e1:
            ctx.violation('regression: %r gives %r, expected %s' % (src, e1, want), src, 'c', key='loc:regression')

    cov = dict(evaluations=stats['dump_texts'] + stats['diag_programs'], distinct_nontrivial=len(nontrivial),
               rule='distinct texts that contain a directive followed by a blank or spliced line, or a splice, or (diagnostic programs) one '
                    'violation at a generated position; every text is compared token by token (dump) or by its first diagnostic',
               samples=samples, stats=stats,
               input_distribution='text lines: 34% code (30% of them with splices inside tokens), 10% markers with flags, 10% #line (7 forms, with/without file, '
                                  'spliced, with comments), 8% blank/null-directive/comment-only, 10% multi-line comments, 6% trailing comments, 6% spliced lines, '
                                  'multi-line macro invocations in a quarter of the diagnostic programs; sizes ' + repr(sizes),
               disagreements_checked=nbad + ndrift + dbad)
    return ctx.finish(cov, assumptions=[
        'scan.c / pp.c:nextinto,directive are tied to Model/Scan.v by exact differential runs of the token dump (every token, every location), not by proof',
        'error() prints the location it is given (token.c, 4 lines); which token a diagnostic is attached to is checked for a catalogue of 4 violations only',
        'C11_loc_spec_partial assumes no backslash-new-line directly after a `.` (known finding dotdot-splice-loc) and takes file names without escape '
        'sequences (known finding line-file-escape); new-line tokens are excluded (known finding newline-token-loc)',
        'macro expansion is outside the model: texts with #define are compared against the Python reference only',
        'line numbers are compared modulo 2^64 (size_t); #line values above 2147483647 are outside the specification'])


def text_outside_comment(ls, i):
    """line index i starts outside a block comment and outside a directive continuation"""
    s = '\n'.join(ls[:i]) + '\n'
    s = re.sub(r'"(?:[^"\\\n]|\\.)*"', '""', s)
    s = re.sub(r'//[^\n]*', '', s.replace('\\\n', ''))
    return s.count('/*') == s.count('*/') and not s.rstrip(' \t').endswith('\\')


def shrink_lines(text, still_bad):
    lines = text.split('\n')
    keep0 = 1 if lines and lines[0].startswith('#define ID2') else 0
    changed = True
    while changed and len(lines) > 1:
        changed = False
        for i in range(keep0, len(lines)):
            cand = lines[:i] + lines[i + 1:]
            t = '\n'.join(cand)
            if t and still_bad(t):
                lines = cand
                changed = True
                break
    return '\n'.join(lines)


def replay(ctx, path):
    snap = ctx.snapshot()
    exe = os.path.join(snap, 'cproc-qbe')
    names = L.read_enum(open(os.path.join(snap, 'cc.h')).read())
    text = open(path, 'rb').read()
    p = os.path.join(ctx.tmp, 'replay.c')
    open(p, 'wb').write(text)
    rc, real, err = real_dump(exe, p)
    macros = b'#define ID2' in text
    spec, send = spec_tokens(text, p, macros)
    bad = 0
    for r, e in zip(real, spec):
        flag = ''
        if e[0] != 'TNEWLINE' and (r[0], r[1], r[2]) != (e[4], e[5], e[6]):
            flag = '   <-- expected %s:%d:%d' % (e[4], e[5], e[6])
            bad = 1
        print('%s:%d:%d\t%s\t%r%s' % (r[0], r[1], r[2], names[r[3]], r[6], flag))
    rc2, out2, err2 = run_limited([exe, p], timeout=20, cap=1 << 20)
    print('compile: rc=%d %s' % (rc2, err2.decode('latin-1').split('\n')[0]))
    g = sh(['gcc', '-fsyntax-only', '-w', '-ftabstop=1', p], timeout=20)
    print('gcc:', txt(g[2]).split('\n')[0])
    return bad
