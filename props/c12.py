# C12 - macro definition and expansion follow C11 6.10.3 on the implemented subset.  DESIGN.md section 5 (C12).
import os, re, json, time, hashlib, collections
import vlib
from vlib import sh, txt, run_limited
import sys
sys.path.insert(0, os.path.join(vlib.VERIF, 'gen'))
import c12_gen as G

LEVEL = 'proof'
MODULE = 'Properties_C12'
FUEL = 6000
IDENT_RE = re.compile(rb'^[A-Za-z_][A-Za-z_0-9]*$')
T_NEWLINE, T_IDENT, T_STRING = 2, 4, 7


def canon_kind(kind, spelling):
    """keyword() turns identifiers into keyword kinds (8..63) at the very end of next(): undo that"""
    if 8 <= kind <= 63 and IDENT_RE.match(spelling):
        return T_IDENT
    return kind


def show(toks):
    if toks is None:
        return 'None'
    out = []
    for t in toks:
        k, s, h, sp = t
        if k == T_NEWLINE:
            out.append('\\n')
        else:
            out.append(('_' if s else '') + sp.decode('latin1') + ('!' if h and k == T_IDENT else ''))
    return ' '.join(out)


def strip_nl(toks):
    """drop new-line tokens; the white-space flag of a token that followed a new-line becomes the wildcard 2
    (cproc keeps new-lines of macro arguments as tokens, the specification turns them into white space)"""
    out = []
    pend = False
    for k, s, h, sp in toks:
        if k == T_NEWLINE:
            pend = True
            continue
        out.append((k, 2 if (pend or not out) else s, h, sp))
        pend = False
    return out


def proj(toks, space=True, hide=True):
    return [(k, s if space else 0, h if hide else 0, sp) for k, s, h, sp in toks]


def same_space(a, b):
    return len(a) == len(b) and all(x[1] == y[1] or 2 in (x[1], y[1]) for x, y in zip(a, b))


def token_diff(a, b):
    """classify the difference between two new-line-free token lists (kind, spelling only)"""
    a, b = proj(a, False, False), proj(b, False, False)
    if a == b:
        return None
    if len(a) == len(b):
        d = [(x, y) for x, y in zip(a, b) if x != y]
        if all(x[0] == T_STRING and y[0] == T_STRING for x, y in d):
            if all(x[3].replace(b' ', b'') == y[3].replace(b' ', b'') for x, y in d):
                return 'string-spacing'
            return 'string-content'
    return 'tokens'


class Evaluator:
    def __init__(self, qbe, hexe, oracle, tmp, fuel=FUEL):
        self.qbe, self.hexe, self.oracle, self.tmp, self.fuel = qbe, hexe, oracle, tmp, fuel
        self.n = 0

    def path(self, text, suffix='.c'):
        h = hashlib.sha1(text.encode('utf-8', 'surrogateescape')).hexdigest()[:16]
        p = os.path.join(self.tmp, h + suffix)
        if not os.path.exists(p):
            with open(p, 'wb') as f:
                f.write(text.encode('utf-8', 'surrogateescape'))
        return p

    def raw_tokens(self, path):
        rc, out, err = run_limited([self.hexe, path], timeout=10)
        toks = []
        for l in out.split(b'\n')[:-1]:
            p = l.split(b'\t', 2)
            toks.append((int(p[0]), int(p[1]), p[2]))
        return rc, toks, txt(err)

    def real_dump(self, path, timeout=4):
        env = dict(os.environ, CPROC_VERIF_TOKDUMP='1')
        rc, out, err = run_limited(['timeout', '-s', 'KILL', str(timeout), self.qbe, '-E', path], timeout=timeout + 5, env=env)
        toks = []
        for l in out.split(b'\n')[:-1]:
            p = l.split(b'\t', 4)
            if len(p) < 5:
                continue
            toks.append((canon_kind(int(p[1]), p[4]), int(p[2]), int(p[3]), p[4]))
        return rc, toks, txt(err)

    def oracle_run(self, raws, mode='e', timeout=60):
        inp = b''.join(b'T %d %d %s\n' % (k, s, sp.hex().encode()) for k, s, sp in raws) + b'R %s %d\n' % (mode.encode(), self.fuel)
        rc, out, err = run_limited([self.oracle], input=inp, timeout=timeout, cap=64 << 20)
        res = {}
        cur = None
        for l in out.decode('latin1').split('\n'):
            p = l.split(' ')
            if p[0] in ('M', 'S', 'P'):
                cur = p[0]
                res[cur] = [' '.join(p[1:]), []]
            elif p[0] in ('m', 's', 'p') and cur:
                res[cur][1].append((int(p[1]), int(p[2]), int(p[3]), bytes.fromhex(p[4]) if len(p) > 4 else b''))
        return rc, res

    def cpp_tokens(self, text, which='gcc'):
        """second opinion: the reference preprocessor's output re-lexed by cproc's own scanner"""
        p = self.path(text)
        cmd = ['cpp', '-undef', '-std=c11', '-x', 'c', '-w', p] if which == 'gcc' else \
              ['clang', '-E', '-undef', '-std=c11', '-x', 'c', '-w', p]
        rc, out, err = run_limited(cmd, timeout=10)
        if rc != 0:
            return 'Err', None, txt(err)
        body = b'\n'.join(l for l in out.split(b'\n') if not l.lstrip().startswith(b'#'))
        q = self.path(body.decode('latin1'), '.' + which + '.i')
        rc2, toks, _ = self.raw_tokens(q)
        return 'Ok', [(k, 0, 0, sp) for k, s, sp in toks if k != T_NEWLINE], ''

    def evaluate(self, text, want_cpp=True):
        p = self.path(text)
        r = {'text': text}
        rcr, raws, e0 = self.raw_tokens(p)
        rc, toks, err = self.real_dump(p)
        r['rc'] = rc
        r['stderr'] = err
        r['real'] = ('Done' if rc == 0 else ('Failed' if rc == 1 else ('Crash(timeout)' if rc in (137, -9) else 'Crash(%d)' % rc)), toks)
        if rcr != 0:
            r['scan_error'] = e0
            return r
        orc, res = self.oracle_run(raws)
        if orc != 0 or 'M' not in res or 'S' not in res:
            r['oracle_error'] = orc
            return r
        r['model'] = tuple(res['M'])
        r['spec'] = tuple(res['S'])
        r['prosser'] = tuple(res['P'])
        if want_cpp:
            r['cpp'] = self.cpp_tokens(text)
            if r['spec'][0] == 'Ok' and (r['cpp'][0] != 'Ok' or r['cpp'][1] != proj(strip_nl(r['spec'][1]), False, False)):
                r['clang'] = self.cpp_tokens(text, 'clang')
        return r


def classify(r):
    """a short label for one evaluation (used for statistics and for deciding the verdict)"""
    if 'scan_error' in r:
        return 'scan-error' if r['rc'] == 1 else 'DIFF scanner rejects, cproc rc=%d' % r['rc']
    if 'oracle_error' in r:
        return 'DIFF oracle-failed'
    real_st, real = r['real']
    m_st, model = r['model']
    s_st, spec = r['spec']
    if real_st.startswith('Crash'):
        return 'DIFF real crashed ' + real_st
    if m_st == 'OutOfFuel' or s_st == 'Fuel':
        return 'fuel'
    labels = []
    mk = m_st.split(' ')[0]
    if mk == 'Failed' and ('EPragmaExpansion' in m_st or 'EDirectiveInCall' in m_st):
        labels.append('model:unmodelled(%s)' % m_st.split(' ')[1])
    elif mk != real_st:
        labels.append('real!=model(status %s/%s)' % (real_st, m_st))
    elif real != model:
        labels.append('real!=model(tokens)')
    # real against the specification
    if s_st == 'Ok':
        if real_st != 'Done':
            labels.append('real!=spec(real rejects: %s)' % r['stderr'].split('error: ')[-1][:40].strip())
        else:
            a, b = strip_nl(real), strip_nl(spec)
            d = token_diff(a, b)
            if d:
                labels.append('real!=spec(%s)' % d)
            elif not same_space(a, b):
                labels.append('real!=spec(space)')
            elif proj(a, False, True) != proj(b, False, True):
                labels.append('real!=spec(hide)')
        if 'cpp' in r:
            want = proj(strip_nl(spec), False, False)
            okc = [w for w in ('cpp', 'clang') if w in r and r[w][0] == 'Ok' and r[w][1] == want]
            if not okc:
                labels.append('spec!=cpp(%s)' % ('both reject' if all(r[w][0] != 'Ok' for w in ('cpp', 'clang') if w in r) else 'tokens'))
    elif s_st == 'Err':
        if real_st == 'Done':
            labels.append('real!=spec(real accepts, spec Err)')
        if 'cpp' in r and r['cpp'][0] == 'Ok':
            labels.append('note:cpp-accepts-specErr')
    elif s_st == 'Unspec':
        labels.append('unspec')
        p_st, pro = r['prosser']
        if p_st == 'Ok' and real_st == 'Done' and proj(strip_nl(real), False, False) != proj(strip_nl(pro), False, False):
            labels.append('note:real-not-prosser')
    elif s_st == 'Unsupported':
        if real_st == 'Done':
            labels.append('real!=spec(real accepts unsupported)')
        else:
            labels.append('unsupported')
    if not labels:
        return 'ok'
    return ' | '.join(labels)


CHUNK_RE = re.compile(r'"(?:\\.|[^"\\\n])*"|\'(?:\\.|[^\'\\\n])*\'|[A-Za-z_][A-Za-z_0-9]*|[0-9.][A-Za-z0-9_.]*|/\*.*?\*/|[ \t]+|\n|.', re.S)


def shrink_text(text, bad, budget=400):
    """greedy delta debugging on lines, then on lexical chunks; bad(text) -> bool must stay true"""
    calls = [0]

    def ok(t):
        calls[0] += 1
        return calls[0] <= budget and bad(t)
    lines = text.split('\n')
    changed = True
    while changed and len(lines) > 1:
        changed = False
        for i in range(len(lines)):
            cand = lines[:i] + lines[i + 1:]
            if ok('\n'.join(cand)):
                lines = cand
                changed = True
                break
    text = '\n'.join(lines)
    chunks = CHUNK_RE.findall(text)
    changed = True
    while changed:
        changed = False
        for i in range(len(chunks)):
            if chunks[i] == '\n':
                continue
            cand = chunks[:i] + chunks[i + 1:]
            t = ''.join(cand)
            if ok(t):
                chunks = cand
                changed = True
                break
    return ''.join(chunks)


# ------------------------------------------------------------------------------------------------ verdicts
DEFINE_RE = re.compile(r'^\s*#\s*define\s+(\w+)(\(([^)]*)\))?(.*)$', re.M)


def c10_accepts_invalid(text):
    """definitions that violate a constraint cproc does not check (noted for C10, not judged here):
    duplicate parameter names, a parameter called __VA_ARGS__"""
    for m in DEFINE_RE.finditer(text):
        params = m.group(3)
        if m.group(2) is not None:
            ps = [x.strip() for x in params.split(',')] if params.strip() else []
            if len(set(ps)) != len(ps) or '__VA_ARGS__' in ps:
                return True
    return False


def is_subseq(a, b):
    it = iter(b)
    return all(c in it for c in a)


def d29_shape(r):
    """real differs from the specification only inside string literals, each real string being the specified one with
    pieces (the arguments of a macro call inside the argument) missing"""
    a, b = proj(strip_nl(r['real'][1]), False, False), proj(strip_nl(r['spec'][1]), False, False)
    if len(a) != len(b):
        return False
    for x, y in zip(a, b):
        if x != y:
            if not (x[0] == T_STRING and y[0] == T_STRING and is_subseq(x[3].replace(b' ', b''), y[3].replace(b' ', b'')) and b'(' in y[3]):
                return False
    return True


def directive_inside_parens(text):
    """a #define/#undef line reached while parentheses are open (i.e. possibly inside a macro invocation: 6.10.3p11 UB)"""
    if isinstance(text, bytes):
        text = text.decode('latin1')
    depth = 0
    for line in text.split('\n'):
        st = line.lstrip()
        if st.startswith('#'):
            if depth > 0 and re.match(r'#\s*(undef|define)\b', st):
                return True
            continue
        q = None
        i = 0
        while i < len(line):
            c = line[i]
            if q:
                if c == '\\':
                    i += 1
                elif c == q:
                    q = None
            elif c in '"\'':
                q = c
            elif c == '(':
                depth += 1
            elif c == ')':
                depth = max(0, depth - 1)
            i += 1
    return False


def join_parens(text):
    """replace every new-line that occurs while parentheses are open by a space (strings, character constants and
    comments respected; directive lines untouched): the same program without multi-line invocations"""
    out, depth, i, n, bol = [], 0, 0, len(text), True
    while i < n:
        c = text[i]
        if bol and text[i:].lstrip(' \t').startswith('#'):
            j = text.find('\n', i)
            j = n if j < 0 else j + 1
            out.append(text[i:j])
            i = j
            continue
        if c in '"\'':
            j = i + 1
            while j < n and text[j] != c and text[j] != '\n':
                j += 2 if text[j] == '\\' else 1
            out.append(text[i:j + 1])
            i = j + 1
            bol = False
            continue
        if text.startswith('/*', i):
            j = text.find('*/', i + 2)
            j = n if j < 0 else j + 2
            out.append(text[i:j])
            i = j
            continue
        if c == '(':
            depth += 1
        elif c == ')':
            depth = max(0, depth - 1)
        if c == '\n':
            nxt = text[i + 1:].lstrip(' \t')
            if depth > 0 and not nxt.startswith('#'):
                out.append(' ')
                i += 1
                continue
            bol = True
        elif c not in ' \t':
            bol = False
        out.append(c)
        i += 1
    return ''.join(out)


NEWLINE_KEY = 'newline-in-argument-blocks-invocation'
NEWLINE_WHAT = ('a new-line kept as a token inside a macro argument changes the result '
                '(the discrepancy disappears when the new-lines inside the parentheses are replaced by spaces)')


def refs_agree_with_spec(r):
    """both reference preprocessors (as far as they were run) produce exactly the specified tokens"""
    want = proj(strip_nl(r['spec'][1]), False, False)
    seen = [w for w in ('cpp', 'clang') if w in r]
    return bool(seen) and all(r[w][0] == 'Ok' and r[w][1] == want for w in seen)


def verdict(r):
    """('ok'|'skip'|'violation'|'drift'|'specval', key, what)"""
    cls = classify(r)
    if cls == 'ok' or cls.startswith('note:') or cls in ('unspec', 'unsupported', 'fuel', 'scan-error'):
        return ('skip' if cls in ('fuel', 'scan-error') else 'ok'), None, cls
    labels = cls.split(' | ')
    if any(l.startswith('DIFF real crashed') for l in labels):
        # the model knows whether a directive redefined a macro while its own invocation was being collected
        own = 'EDirectiveInCall' in r.get('model', ('',))[0] or re.search(r'\(\s*[^()]*\n\s*#\s*(undef|define)', r['text']) \
            or directive_inside_parens(r['text'])
        key = 'crash-undef-inside-own-arguments' if own else ('hang' if 'timeout' in r['real'][0] else 'crash')
        return 'violation', key, 'cproc-qbe -E crashed (%s)' % r['real'][0]
    vs = [l for l in labels if l.startswith('real!=spec')]
    ms = [l for l in labels if l.startswith('real!=model') or l.startswith('DIFF')]
    sv = [l for l in labels if l.startswith('spec!=cpp')]
    if vs:
        l = vs[0]
        if 'string-content' in l and d29_shape(r):
            return 'violation', 'D29-call-in-argument-not-stringized', 'a macro call inside an argument that is used both plainly and with #: its arguments are missing from the string'
        if '(tokens)' in l or 'spec Err' in l:
            rt = r['real'][1]
            for i in range(1, len(rt) - 1):
                if rt[i][0] == T_NEWLINE and rt[i - 1][0] == T_IDENT and not rt[i - 1][2]:
                    j = i
                    while j < len(rt) and rt[j][0] == T_NEWLINE:
                        j += 1
                    if j < len(rt) and rt[j][3] == b'(':
                        return 'violation', 'newline-in-argument-blocks-invocation', \
                            'a new-line kept as a token inside a macro argument stands between a function-like macro name and the ( that follows it after substitution'
        if 'string-spacing' in l and not refs_agree_with_spec(r):
            # white space next to tokens that came out of an expansion (empty arguments, ends of replacement lists) is not
            # settled by 6.10.3.2; it is judged only when gcc and clang both side with the specification
            return 'ok', None, 'note:string-spacing-not-settled'
        if 'spec Err' in l and c10_accepts_invalid(r['text']):
            return 'ok', None, 'note:c10-accepts-invalid-definition'
        if 'spec Err' in l:
            # the constraint gcc names (macro names and numbers removed) identifies the finding class
            msg = '(gcc-accepts-too)' if 'cpp' in r and r['cpp'][0] == 'Ok' else ''
            if 'cpp' in r and r['cpp'][0] == 'Err' and len(r['cpp']) > 2:
                m = re.search(r'error: ([^\n]*)', r['cpp'][2])
                msg = re.sub(r'"[^"]*"|\d+', '', m.group(1)).strip() if m else ''
                msg = re.sub(r'\s+', '-', msg)
            return 'violation', 'invalid-invocation-accepted:' + msg, 'constraint violation (%s) accepted silently' % (msg or 'specification: Err')
        if 'space' in l or 'hide' in l:
            # flags only: not a property violation (white space is only observable through #), but the model/spec tie is off
            return 'drift', None, l
        return 'violation', 'macro-expansion-mismatch:' + re.sub(r"macro '\w+'", 'macro', l), l
    if ms:
        return 'drift', None, ms[0]
    if sv:
        want = proj(strip_nl(r['spec'][1]), False, False)
        refs = [r[w][1] for w in ('cpp', 'clang') if w in r and r[w][0] == 'Ok']
        if refs and all(token_diff(want, x) == 'string-spacing' for x in refs):
            return 'ok', None, 'note:string-spacing-not-settled'
        if len(refs) == 2 and refs[0] != refs[1]:
            return 'ok', None, 'note:references-disagree'
        return 'specval', None, sv[0]
    return 'ok', None, cls


def render(toks):
    """token list -> program text (one space between tokens, new-line tokens kept)"""
    out = []
    for k, s, h, sp in toks:
        out.append('\n' if k == T_NEWLINE else sp.decode('latin1') + ' ')
    return ''.join(out) + '\n'


def noexp_tokens(raws):
    """raw tokens with directive lines removed (what the output would be if nothing was expanded)"""
    out, bol, skip = [], True, False
    for k, s, sp in raws:
        if skip:
            if k == T_NEWLINE:
                skip, bol = False, True
            continue
        if bol and sp == b'#':
            skip = True
            continue
        bol = (k == T_NEWLINE)
        if k != T_NEWLINE:
            out.append(sp)
    return out


# fixed replays: (name, text, expected real output in show() notation, None = must be rejected)
REGRESSION = [
    ('D27 peekparen must not clobber the current token', '#define f(x) x\nint f f;\n', 'int! _f _f ; \\n'),
    ('directive after a function-like macro name used without arguments', '#define f(x) x\nint f\n#define g 1\n;\nint g;\n', 'int! _f \\n ; \\n int! _1 ; \\n'),
    ('D28 painting must not leak into the stored replacement list', '#define A B 1\n#define B A y\nB A\n', 'B! _1 _y! _A! _y! _1 \\n'),
    ('keyword spelling shared with a replacement list', '#define T int\nT a; T b;\n', 'int! _a! ; _int! _b! ; \\n'),
    ('stringize: white space after the last token is deleted', '#define s(x) #x\ns(a\n)\ns( a  b\n\n)\n', None),
    ('zero-parameter invocation with a new-line between the parentheses', '#define h() 1\nh(\n) h( ) h()\n', '1 _1 _1 \\n'),
    ('extra empty argument is a constraint violation', '#define f(x) x\nf(1,)\n', None),
    ('__VA_ARGS__ as first replacement token of a non-variadic macro', '#define M(a) __VA_ARGS__\nM(1)\n', None),
    ('__VA_ARGS__ as first replacement token of an object-like macro', '#define X __VA_ARGS__\nX\n', None),
    ('6.10.3.5 example 3 (without ##)', '#define x 3\n#define f(a) f(x * (a))\n#undef x\n#define x 2\n#define g f\n#define z z[0]\n#define h g(~\n#define m(a) a(w)\n#define w 0,1\n#define t(a) a\n#define p() int\n#define q(x) x\n#define r(x,y) x ## y\n', None),
    ('6.10.3.5 example 3 text', '#define x 3\n#define f(a) f(x * (a))\n#undef x\n#define x 2\n#define g f\n#define z z[0]\n#define h g(~\n#define m(a) a(w)\n#define w 0,1\n#define t(a) a\n#define p() int\n#define q(x) x\nf(y+1) + f(f(z)) % t(t(g)(0) + t)(1);\ng(x+(3,4)-w) | h 5) & m\n(f)^m(m);\np() i[q()] = { q(1), 23, 4, 5, };\n',
     'f! ( 2 _* _( y! + 1 ) ) _+ _f! ( 2 _* _( f! ( 2 _* _( z! [ 0 ] ) ) ) ) _% _f! ( 2 _* _( 0 ) ) _+ _t! ( 1 ) ; \\n f! ( 2 _* _( 2 + ( 3 , 4 ) - 0 , 1 ) ) _| _f! ( 2 _* _( ~ _5 ) ) _& _f! ( 2 _* _( 0 , 1 ) ) ^ m! ( 0 , 1 ) ; \\n int! _i! [ ] _= _{ _1 , _23 , _4 , _5 , _} ; \\n'),
    ('6.10.3.5 example 4 (# only)', '#define str(s) # s\n#define xstr(s) str(s)\n#define INCFILE(n) vers ## n\n', None),
    ('6.10.3.5 example 4 text', '#define str(s) # s\n#define xstr(s) str(s)\n#define debug(s, t) printf("x" # s "= %d, x" # t "= %s", \\\n x1, x2)\ndebug(1, 2);\nfputs(str(strncmp("abc\\0d", "abc", \'\\4\') // this goes away\n == 0) str(: @\\n), s);\nxstr(strncmp)\n',
     'printf! ( "x" _"1" _"= %d, x" _"2" _"= %s" , _x1! , _x2! ) ; \\n fputs! ( "strncmp(\\"abc\\\\0d\\", \\"abc\\", \'\\\\4\') == 0" _": @\\n" , _s! ) ; \\n "strncmp" \\n'),
]

# deterministic replays of the known findings (they are expected to deviate until fixed)
KNOWN = [
    ('newline-in-argument-blocks-invocation', '#define f(x) [x]\n#define g(r) r (1)\ng(f\n)\n'),
    ('invalid-invocation-accepted:unterminated-argument-list-invoking-macro', '#define f(p)p\n#define OPEN  f(\nOPEN OPEN)) ;\n'),
    ('D29-call-in-argument-not-stringized', '#define id(x) x\n#define S(p) p #p\nS(id(1))\n'),
    ('crash-undef-inside-own-arguments', '#define f(p,w1)\n{f(,\n#undef f\n#define f(r  ,  s)r# s f (y ,A )r\n B B\nB\n ; C ""\nB 1\n\n'),
]


# hand-written programs for the compile path.  Every macro is used at least twice: the parser must not free or modify
# the spellings a replacement list still refers to (fixed in /repo: keyword-lit-freed, designator-name-freed)
HAND_PROGRAMS = [
'struct s { int x, y; struct { int z; } in; int arr[3]; };\n#define INIT { .x = 1, .in.z = 2, .arr[1] = 3 }\n#define OFF __builtin_offsetof(struct s, in.z)\n#define OFA __builtin_offsetof(struct s, arr[2])\n#define MEMB(p) ((p)->in.z + (p)->arr[1])\n#define DOT(v) ((v).x + (v).in.z)\n#define JUMP goto out\n#define LABEL out:\n#define TAG struct s\n#define PACKED [[gnu::packed]]\n#define GNUPACKED __attribute__((packed))\n#define NAME(n) __asm__(#n)\n#define STR "text"\n#define WIDE L"wide"\n#define CH \'c\'\n#define NUM 0x10ul\n#define FLT 1.5e3f\n#define GEN(v) _Generic((v), int: 1, long: 2, default: 3)\n#define ALIGNED _Alignas(16)\n#define TYPEDEF typedef int\nstruct s a = INIT, b = INIT;\nunsigned long o1 = OFF, o2 = OFF, o3 = OFA, o4 = OFA;\nstruct PACKED p1 { char c; int i; }; struct PACKED p2 { char c; long l; };\nstruct GNUPACKED p3 { char c; int i; }; struct GNUPACKED p4 { char c; long l; };\nint e1 NAME(sym1); int e2 NAME(sym2);\nconst char *s1 = STR, *s2 = STR; const int *w1 = WIDE, *w2 = WIDE;\nint c1 = CH, c2 = CH; unsigned long n1 = NUM, n2 = NUM; float f1 = FLT, f2 = FLT;\nALIGNED char al1; ALIGNED char al2;\nTYPEDEF t1; TYPEDEF t2;\nint f(TAG *p) { TAG c = INIT; if (p->x) JUMP; return c.x + OFF + MEMB(p) + DOT(c) + GEN(p->x) + sizeof(TAG); LABEL return MEMB(p) + GEN(1l); }\nint g(TAG *p) { TAG c = INIT; if (p->y) JUMP; return c.in.z + OFA + MEMB(p) + DOT(c) + GEN(p->y) + sizeof(TAG); LABEL return DOT(*p) + GEN(1.0); }\n',
    # an identifier is a macro name or an ordinary identifier according to the definitions in force each time it is scanned
    # (hide marks and un-read tokens must not leak into replacement lists or enclosing frames)
    '#define ID(x) x\n#define LIMIT CAP\nenum { CAP = 3 };\nint before  = ID(LIMIT);\nint before2 = LIMIT;\n#define CAP 40\nint after   = LIMIT;\nint after2  = ID(LIMIT);\nint after3  = CAP;\n',
    '#define ID(x) x\nenum { P = 5, Q = 7 };\n#define P Q + 1\n#define Q P * 2\nint first  = ID(Q);\nint second = P;\nint third  = ID(P);\n',
    '#define F(x) ((x) + 100)\n#define G F\n#define H (G - -1)\nenum { F = 7 };\nint plain = F - -1;\nint via_g = G - -1;\nint via_h = H;\nint call  = F(1);\nint call2 = G(2);\n',
    '#define F(x) ((x) + 100)\n#define TWICE(a) (a + a)\n#define PICK(a, b) (0 ? b : a)\nenum { F = 7, K = 1 };\nint twice = TWICE(F);\nint pick  = PICK(F, K);\nint both  = TWICE(F(1));\n',
    # `#` in the replacement list of an OBJECT-like macro is an ordinary token
    '#define HASH #\n#define HASHX # x\n#define STR(x) #x\n#define XSTR(x) STR(x)\nconst char *s1 = XSTR(HASH), *s2 = XSTR(HASHX), *s3 = STR(HASH), *s4 = XSTR(HASH HASH);\n',
    # stringizing character constants and string literals with escapes: every backslash and quote inside them is escaped again
    '#define STR(x) #x\n#define XS(x) STR(x)\n#define NL \'\\n\'\nconst char *a = STR(\'\\n\'), *b = STR(\'\\\\\'), *c = STR(L\'\\x41\'), *d = STR(\'\\\'\'), *e = STR("a\\n" \'\\t\' \'"\'), *f = XS(NL), *g = STR(u\'\\"\' "\\\\");\n',
    # two line splices in a row inside a definition, a splice right before the end of the definition, a splice inside a name
    '#define LONG(a, b) a + \\\n\\\nb\n#define TWO 2 \\\n\nint v = LONG(1, TWO);\nint w = LO\\\nNG(3,\\\n\\\n 4);\n',
]


def run(ctx):
    rng = ctx.rng
    thorough = ctx.tier == 'thorough'
    snap = ctx.snapshot()
    ok = ctx.coq(['Properties/%s.vo' % MODULE, 'Extract/Extract_c12.vo'])
    if ok:
        ctx.assumptions(MODULE, ctx.theorem_names(MODULE))
    oracle = ctx.oracle('c12') if ok else None
    stats = collections.Counter()
    samples = []
    nontrivial = set()
    if snap and oracle:
        hexe = os.path.join(ctx.tmp, 'h12')
        e = ctx.cc(hexe, [os.path.join(vlib.VERIF, 'harness/c12/harness.c')] + [os.path.join(snap, f) for f in ('scan.c', 'token.c', 'util.c')], incl=[snap])
        if e:
            ctx.broken('correspondence', 'c12 scanner harness does not build against scan.c/token.c', e)
        else:
            ev = Evaluator(os.path.join(snap, 'cproc-qbe'), hexe, oracle, ctx.tmp)
            # ---- G: the token kind numbers the model assumes = enum tokenkind of the snapshot
            rc, kreal, _ = run_limited([hexe, '-K'], timeout=10)
            rc2, kmodel, _ = run_limited([oracle], input=b'K\n', timeout=10)
            ctx.ob('G:enum tokenkind values used by the model (%d kinds)' % kreal.count(b'\n'), kreal == kmodel and rc == 0)
            if kreal != kmodel:
                ctx.broken('table', 'token kind numbering', 'cc.h: %r\nmodel: %r' % (kreal, kmodel))
            # ---- G: the error sites of define()/expandfunc()/directive() the model mirrors still exist
            ppsrc = open(os.path.join(snap, 'pp.c'), errors='replace').read()
            sites = ["'##' operator is not yet implemented", '__VA_ARGS__ can only be used in variadic function-like macros',
                     'is not a macro parameter name', "redefinition of macro", 'EOF when reading macro parameters',
                     'not enough arguments for macro', 'too many arguments for macro', 'directive is not implemented',
                     'invalid preprocessor directive', 'after preprocessing directive']
            missing = [x for x in sites if x not in ppsrc]
            ctx.ob('G:diagnostic sites of pp.c mirrored by the model (%d)' % len(sites), not missing)
            if missing:
                ctx.broken('table', 'pp.c diagnostics', 'no longer in pp.c: %r' % missing)

            # ---- K: generated cases
            nfree = 2400 if not thorough else 30000
            cases = [('free', G.gen_span_case(rng) if i % 8 == 7 else G.gen_free_case(rng, small=(i % 3 == 0))) for i in range(nfree)]
            nred = 400 if not thorough else 4000
            redef = [G.gen_redef_pair(rng) for _ in range(nred)]
            cases += [('redef:' + exp + ':' + kind, text) for text, exp, kind in redef]
            cases += [('malformed', t) for t in G.MALFORMED]

            def one(c):
                tag, text = c
                return tag, text, ev.evaluate(text, want_cpp=(tag == 'free'))
            results = vlib.parallel_map(one, cases)
            worst = {}
            for tag, text, r in results:
                stats['evaluations'] += 1
                kind, key, what = verdict(r)
                stats['class:' + classify(r).split(' | ')[0].split('(')[0]] += 1
                if kind == 'violation' and (key.startswith('macro-expansion-mismatch') or key.startswith('invalid-invocation-accepted')) \
                        and 'string' not in key and key != 'invalid-invocation-accepted:unterminated-argument-list-invoking-macro':
                    joined = join_parens(text)
                    if joined != text:
                        v2 = verdict(ev.evaluate(joined, want_cpp=True))
                        if v2[:2] != (kind, key):
                            key, what = NEWLINE_KEY, NEWLINE_WHAT + ' [' + what[:80] + ']'
                if 'model' in r and r['model'][0] == 'Done' and 'real' in r:
                    outsp = [t[3] for t in r['real'][1] if t[0] != T_NEWLINE]
                    rcr, raws, _ = ev.raw_tokens(ev.path(text))
                    if outsp != noexp_tokens(raws):
                        nontrivial.add(hashlib.sha1(text.encode('utf-8', 'surrogateescape')).hexdigest())
                if tag.startswith('redef:') and 'spec' in r:
                    exp = tag.split(':')[1]
                    got = 'ok' if r['rc'] == 0 else 'reject'
                    stats['redef-' + exp] += 1
                    specsays = 'ok' if r['spec'][0] == 'Ok' else 'reject'
                    if specsays != exp:
                        ctx.broken('correspondence', 'redefinition: specification vs generator expectation', text)
                    elif got != exp:
                        kind, key, what = 'violation', 'redefinition-' + ('rejected-benign' if exp == 'ok' else 'accepted-incompatible') + ':' + tag.split(':')[2], \
                            '6.10.3p2: redefinition should be %s, cproc says %s' % (exp, got)
                if tag == 'malformed' and 'spec' in r and r['spec'][0] in ('Err', 'Unsupported') and r['rc'] == 0 and not c10_accepts_invalid(text):
                    kind, key, what = 'violation', 'invalid-or-unsupported-accepted', 'specification: %s, cproc accepts silently' % r['spec'][0]
                if kind in ('violation', 'drift', 'specval'):
                    worst.setdefault((kind, key or what), []).append((text, r, what))
                if len(samples) < 4 and kind == 'ok' and tag == 'free' and len(text) < 300 and 'spec' in r and r['spec'][0] == 'Ok' and r['real'][1]:
                    samples.append({'text': text, 'output': show(r['real'][1])})
            # report one (shrunk) representative per class
            for (kind, k), lst in sorted(worst.items(), key=lambda kv: str(kv[0])):
                text, r, what = min(lst, key=lambda x: len(x[0]))
                want = verdict(r)[:2]

                def bad(t, want=want):
                    rr = ev.evaluate(t, want_cpp=(kind == 'specval'))
                    return verdict(rr)[:2] == want
                left = (75 if not thorough else 900) - (time.time() - ctx.t0)
                small = shrink_text(text, bad, budget=int(max(0, min(100, left * 2)))) if verdict(r)[0] == kind else text
                rr = ev.evaluate(small, want_cpp=True)
                detail = 'input:\n%s\nreal   : %s %s\nmodel  : %s %s\nspec   : %s %s\ncpp    : %s\n(%d cases of this class)' % (
                    small, rr['real'][0], show(rr['real'][1]), rr.get('model', ('?', None))[0], show(rr.get('model', ('?', None))[1]),
                    rr.get('spec', ('?', None))[0], show(rr.get('spec', ('?', None))[1]), show(rr['cpp'][1]) if 'cpp' in rr else '-', len(lst))
                if kind == 'violation':
                    ctx.violation('%s\n%s' % (what, detail), small, 'c', key=k)
                elif kind == 'drift':
                    ctx.broken('correspondence', 'PP model vs pp.c token dump', what + '\n' + detail)
                else:
                    ctx.broken('correspondence', 'specification vs gcc and clang', what + '\n' + detail)
            ctx.ob('K:token dump of cproc = extracted PP model, exact incl. space and hide flags (%d cases)' % stats['evaluations'],
                   not any(k[0] == 'drift' for k in worst))
            ctx.ob('K:specification validated against cpp and clang -E re-lexed by cproc\'s scanner', not any(k[0] == 'specval' for k in worst))

            # ---- regression corpus and known findings
            for name, text, want in REGRESSION:
                r = ev.evaluate(text, want_cpp=False)
                stats['regression'] += 1
                got = show(r['real'][1]) if r['rc'] == 0 else None
                good = (got == want) if want is not None or r['rc'] != 0 else True
                if name.startswith('stringize'):
                    good = r['rc'] == 0 and [t[3] for t in r['real'][1] if t[0] == T_STRING] == [b'"a"', b'"a b"']
                elif want is None:
                    good = r['rc'] == 1
                if not good:
                    ctx.violation('regression: %s\ngot (rc=%d): %s\nwant: %s' % (name, r['rc'], got, want), text, 'c', key='regression:' + name.split(' ')[0])
            for key, text in KNOWN:
                r = ev.evaluate(text, want_cpp=True)
                stats['known-replays'] += 1
                kind, k, what = verdict(r)
                if kind == 'violation':
                    ctx.violation(what, text, 'c', key=key)

            # ---- compile path: IL(program with macros) = IL(fully expanded text)
            nprog = 40 if not thorough else 400
            progs = [G.gen_program(rng) for _ in range(nprog)] + HAND_PROGRAMS

            def pone(text):
                r = ev.evaluate(text, want_cpp=False)
                rc1, il1, err1 = ctx.qbe(text)
                exp_spec = render(r['spec'][1]) if 'spec' in r and r['spec'][0] == 'Ok' else None
                rcg, outg, errg = run_limited(['cpp', '-P', '-undef', '-std=c11', '-x', 'c', '-w', ev.path(text)], timeout=10)
                il2 = ctx.qbe(exp_spec) if exp_spec else None
                il3 = ctx.qbe(outg.decode('latin1')) if rcg == 0 else None
                return text, r, (rc1, il1, err1), il2, il3
            for text, r, (rc1, il1, err1), il2, il3 in vlib.parallel_map(pone, progs):
                stats['programs'] += 1
                nontrivial.add(hashlib.sha1(text.encode()).hexdigest())
                if rc1 != 0:
                    ctx.violation('valid program using macros rejected: ' + err1[:300], text, 'c', key='program-rejected')
                    continue
                if il2 is None or il3 is None:
                    ctx.broken('correspondence', 'program: specification or cpp gave no expansion', text[:2000])
                    continue
                if il2[0] != 0 or il3[0] != 0:
                    ctx.broken('correspondence', 'program: expanded text does not compile', (il2[2] + il3[2])[:500] + '\n' + text[:2000])
                    continue
                if il1 != il2[1]:
                    ctx.violation('IL of the program differs from the IL of its fully macro-expanded text (specification)', text, 'c', key='il-differs')
                elif il1 != il3[1]:
                    ctx.violation('IL of the program differs from the IL of `cpp -P` of it', text, 'c', key='il-differs-cpp')
            ctx.ob('K:IL(program) = IL(expanded by the specification) = IL(cpp -P) for %d generated programs' % stats['programs'],
                   not any(v['key'].startswith(('il-differs', 'program-rejected')) for v in ctx.violations))

    # -E prints every preprocessing token of the result, also the single "other" characters of 6.4p1
    if snap:
        etext = '#define K(x) x #x\nint a; @ $ ` K(@) \\ K(?)\n'
        rc, out, err = vlib.run_limited([os.path.join(snap, 'cproc-qbe'), '-E'], input=etext.encode(), timeout=20)
        want = ['int', 'a', ';', '@', '$', '`', '@', '"@"', '\\', '?', '"?"']
        if rc != 0 or ''.join(out.decode('latin-1').split()) != ''.join(want):
            ctx.violation('-E does not print the token sequence (rc=%d, stdout %r, stderr %r), expected %r' % (rc, out[:120], err[:120], ' '.join(want)),
                          etext, 'c', key='E-other-characters')

    cov = dict(evaluations=stats['evaluations'] + stats['programs'] + stats['regression'] + stats['known-replays'],
               distinct_nontrivial=len(nontrivial),
               rule='a case counts when cproc\'s output token sequence differs from the raw scanner tokens with directive lines removed '
                    '(at least one macro was expanded), distinct by text; programs always count',
               samples=samples, stats={k: v for k, v in sorted(stats.items())},
               generator='<=12 macros per case from small name pools (self/mutual reference), 0-4 parameters, 25%% variadic, # operator, nested and '
                         'line-split invocations, bare function-like names at end of line / before directives, #undef/#define histories, '
                         '#line/#pragma/null directives; redefinition pairs by kind of change; %d hand-written malformed inputs' % len(G.MALFORMED))
    return ctx.finish(cov, assumptions=[
        'pp.c is tied to Model/PP.v by exact comparison of token dumps (hook H1), not by proof; scan.c is used as the tokenizer for model, specification and reference preprocessors',
        'token values: a frame holds a snapshot of its macro; #pragma lines whose tokens would be macro-expanded and directives that redefine a macro inside its own invocation are outside the model (distinct results)',
        'function-like refinement is proved only as a bounded sweep (C12_funclike_refines_partial); beyond it the evidence is differential testing',
        'white-space flags of tokens following a new-line inside macro arguments are not compared between cproc and the specification'])


def replay(ctx, path):
    snap = ctx.snapshot()
    ok = ctx.coq(['Extract/Extract_c12.vo'])
    oracle = ctx.oracle('c12')
    hexe = os.path.join(ctx.tmp, 'h12')
    ctx.cc(hexe, [os.path.join(vlib.VERIF, 'harness/c12/harness.c')] + [os.path.join(snap, f) for f in ('scan.c', 'token.c', 'util.c')], incl=[snap])
    ev = Evaluator(os.path.join(snap, 'cproc-qbe'), hexe, oracle, ctx.tmp)
    text = open(path, errors='surrogateescape').read()
    r = ev.evaluate(text)
    print(text)
    for k in ('real', 'model', 'spec', 'prosser', 'cpp', 'clang'):
        if k in r:
            print('%-7s %s: %s' % (k, r[k][0], show(r[k][1])))
    print('stderr:', r.get('stderr', '')[:300])
    kind, key, what = verdict(r)
    print('verdict:', kind, key, what)
    if kind == 'ok' and os.path.exists(path + '.what') and 'IL of the program' in open(path + '.what').read():
        rc1, il1, _ = ctx.qbe(text)
        exp = render(r['spec'][1]) if r.get('spec', ('',))[0] == 'Ok' else None
        rc2, il2, _ = ctx.qbe(exp) if exp else (1, '', '')
        print('IL equal:', il1 == il2)
        return 0 if il1 == il2 and rc1 == 0 else 1
    return 1 if kind in ('violation', 'drift') else 0
