# C13 - source text is split into tokens by C11 6.4 maximal munch.   DESIGN.md section 5 (C13), notes/C13.md.
#
# Three parties on every generated file:
#   real   token dump of the snapshot's cproc-qbe (-E, CPROC_VERIF_TOKDUMP=1)
#   model  the extracted Coq scanner model (ocaml/c13/oracle pp), exact comparison incl. locations and errors
#   spec   the reference lexer written from C11 6.4 (gen/c13_lex.py), cross-checked with clang -dump-tokens
# real != spec  -> concrete violation (shrunk);  real == spec but model != real -> broken correspondence.
import itertools, multiprocessing, os, re, sys
import vlib
from vlib import sh, txt, run_limited

sys.path.insert(0, os.path.join(vlib.VERIF, 'gen'))
import c13_lex as L
import c13_tables

LEVEL = 'proof'
MODULE = 'Properties_C13'
ENV = dict(os.environ, CPROC_VERIF_TOKDUMP='1')

_G = {}     # per-process globals for the worker pool: exe, oracle, enum names


def real_dump(exe, path, timeout=60):
    rc, out, err = run_limited([exe, '-E', path], env=ENV, timeout=timeout, cap=512 << 20)
    return rc, out.decode('latin-1'), err.decode('latin-1')


def model_dump(oracle, path, timeout=120):
    # the extracted functions are not tail recursive: give the oracle a big stack
    rc, out, err = run_limited(['sh', '-c', 'ulimit -s 4000000 2>/dev/null || ulimit -s unlimited 2>/dev/null; exec "$0" "$@"', oracle, 'pp', path],
                               timeout=timeout, cap=512 << 20)
    o = out.decode('latin-1')
    i = o.rfind('END ')
    if i < 0:
        return o, 'NOEND rc=%d %s' % (rc, err[:200].decode('latin-1'))
    return o[:i], o[i:].strip()


def spec_lines(text, path, names_num):
    """The dump the specification prescribes: list of (loc-or-None, kindnum, space, spelling), and the end."""
    toks, end = L.lex(text)
    ph = None
    res = []
    # leading new-lines are dropped by the first next() (ppinit runs before PPNEWLINE is set); '#' never starts a line here
    i = 0
    while i < len(toks) and toks[i][0] == 'TNEWLINE':
        i += 1
    bol = True
    for k, sp, space, off in toks[i:]:
        if bol and k == 'THASH':
            return res, 'directive'      # a directive: outside the domain of this check (C11/C12 own them)
        bol = k == 'TNEWLINE'
        res.append((off, names_num[k], 1 if space else 0, sp))
    return res, end


def compare_file(args):
    """Worker: one file through real, model and spec.  Returns a dict of stats and problems (picklable)."""
    path, text, cat, want_model = args
    exe, oracle, names, names_num = _G['exe'], _G['oracle'], _G['names'], _G['names_num']
    out = dict(path=path, cat=cat, ntok=0, nlines=text.count(b'\n'), viol=None, drift=None, multi=0, kinds={})
    rc, rout, rerr = real_dump(exe, path)
    spec, send = spec_lines(text, path, names_num)
    if send == 'directive':
        out['domain'] = False
        return out
    ph = L.physical(text)
    rl = rout.split('\n')
    if rl and rl[-1] == '':
        rl.pop()
    out['ntok'] = len(rl)
    # ---- real vs spec
    bad = None
    n = min(len(rl), len(spec))
    kinds = out['kinds']
    for i in range(n):
        p = rl[i].split('\t', 4)
        off, kn, space, sp = spec[i]
        if len(p) < 5 or int(p[1]) != kn or int(p[2]) != space or p[4] != (sp if '\0' not in sp else sp[:sp.index('\0')]):
            bad = i
            break
        # locations are property C11's business (props/c11.py); here they are compared model-vs-real only
        if len(sp) > 1:
            out['multi'] += 1
        kinds[kn] = kinds.get(kn, 0) + 1
    if bad is None and len(rl) != len(spec):
        bad = n
    real_err = rc != 0
    if bad is None and (send != 'eof') != real_err:
        bad = n
    if bad is not None:
        off = spec[bad][0] if bad < len(spec) else (spec[-1][0] if spec else 0)
        out['viol'] = dict(index=bad, real=rl[bad:bad + 2], spec=[repr(x) for x in spec[bad:bad + 2]], rc=rc,
                           err=rerr[:200], send=send, off=off)
    # ---- model vs real (exact, including locations, hide excepted)
    if want_model and oracle:
        mout, mend = model_dump(oracle, path)
        ml = mout.split('\n')
        if ml and ml[-1] == '':
            ml.pop()
        d = None
        if len(ml) != len(rl):
            d = min(len(ml), len(rl))
        else:
            for i in range(len(rl)):
                if rl[i] != ml[i]:
                    a, b = rl[i].split('\t', 4), ml[i].split('\t', 4)
                    if len(a) < 5 or len(b) < 5 or (a[0], a[1], a[2], a[4]) != (b[0], b[1], b[2], b[4]):
                        d = i
                        break
        e1 = rerr.split('\n')[0]
        if d is None:
            if mend == 'END eof':
                if rc != 0:
                    d = -1
            elif mend.startswith('END error '):
                m = re.match(r'END error (.*?:\d+:\d+): (.*)', mend, re.S)
                if not (rc == 1 and m and e1.startswith(m.group(1) + ': error: ') and
                        (m.group(2) in e1 or 'is not implemented' in e1)):
                    d = -1
            elif mend == 'END unsupported':
                pass
            else:
                d = -1
        if d is not None:
            out['drift'] = dict(index=d, real=rl[d:d + 2] if d >= 0 else e1, model=ml[d:d + 2] if d >= 0 else mend, mend=mend, rc=rc, err=e1)
    return out


def _init_worker(g):
    _G.update(g)


# ------------------------------------------------------------------------------------------------ generators
IDCH = 'abcdefghijklmnopqrstuvwxyzABCDEFGHIJKLMNOPQRSTUVWXYZ0123456789_'


def gen_exhaustive(maxlen):
    """every string of length <= maxlen over the 25 punctuator characters, one per line after `x `;
    a line that opens a block comment is followed by a line closing it"""
    A = L.PUNCT_ALPHABET
    for n in range(1, maxlen + 1):
        for t in itertools.product(A, repeat=n):
            s = ''.join(t)
            yield 'x ' + s
            if '/*' in s:
                yield '*/'


def gen_keyword_lines(kws):
    seen = set()
    for w in kws:
        cands = [w]
        for i in range(len(w)):
            cands.append(w[:i] + w[i + 1:])
            for c in IDCH:
                cands.append(w[:i] + c + w[i + 1:])
        for i in range(len(w) + 1):
            for c in IDCH:
                cands.append(w[:i] + c + w[i:])
        for c in cands:
            if c and c not in seen:
                seen.add(c)
                yield c


def gen_numbers(rng, n):
    fixed = ['1e+5', '0xe+1', '.5.', '1..2', '0b1', '1_000', '0x1p-3', '1e+-5', '1e+-+-5', '0x1p-+3', '1.e-', '1e+', '1E-x',
             '1.2.3', '.5e+5+5', '1a+1', '1p+1', '0x.p-', '1+1', '..5', '...5', '.5...', '1.', '1e', '12_e+3', '9e+e+', '08',
             '1u8"x"', '0x', '0x1.8p+1f', '1.0e-10L', '0XABCdefULL', '0777', '1e+5e-3', '1P+1-1', '.1E+', '5.e+.e+', '1_e-1', '1e_-1',
             '0e+0', '1e--1', '1e++1', '3.14f', '1uLL', '0b1010u', '0x1p', '1p-', '.e+5', '1..e+5', '1...2', '0.0.0e+1-1']
    for f in fixed:
        yield f
    pre = ['', '0', '0x', '0X', '0b', '.', '1.', '12', '9', '0.']
    mid = ['', '1', 'e', 'E', 'p', 'P', 'a', 'f', '_', '.', 'e1', '1e', 'x', 'L', 'u8']
    sign = ['', '+', '-', '+-', '-+', '++', '--']
    post = ['', '1', '5e', 'x', '.', 'e+', 'p-', 'u', '_1', '.5', 'e']
    tail = ['', '+1', '-x', ' 1', '.', '..', '...', 'e', '+', '-']
    for _ in range(n):
        s = rng.choice(pre) + rng.choice('0123456789') + rng.choice(mid) + rng.choice(sign) + rng.choice(post) + rng.choice(sign) + rng.choice(tail)
        yield s


def gen_sequence(rng, ntok, splice=0.0, comments=True, stray=True):
    """a long, mostly valid token sequence with comments (no '#' at line start, no unterminated literals)"""
    puncts = list(L.PUNCT)
    kws = list(L.KEYWORD)
    out = []
    col0 = True          # no token yet on this logical line (white space and comments do not count)
    for _ in range(ntok):
        r = rng.random()
        if r < 0.30:
            t = rng.choice(puncts)
            if col0 and t.startswith('#'):
                t = ';' + t
        elif r < 0.50:
            t = rng.choice(['a', 'b1', '_x', 'u8', 'u', 'U', 'L', 'LL', 'u8x', 'x_y_z', 'e', 'E', 'p']) if rng.random() < 0.7 else rng.choice(kws)
        elif r < 0.62:
            t = rng.choice(['1', '12', '0x1e', '.5', '1e+5', '0xe+1', '1..2', '1e', '0b1', '1_000', '0x1p-3', '9.', '1e-'])
        elif r < 0.70:
            t = rng.choice(['"a"', '"a\\nb"', 'L"x"', 'u8"y"', 'u"z"', 'U"w"', '"\\""', '"\\\\"', '""', '"\\x41\\101"', '"/*"', '"//"'])
        elif r < 0.76:
            t = rng.choice(["'a'", "'\\''", "L'x'", "u'\\n'", "U'\\0'", "u8'a'", "'\"'", "'\\\\'", "'ab'"])
        elif r < 0.84 and comments:
            t = rng.choice(['/**/', '/* c */', '/*/ */', '/***/', '/* " */', "/* ' */", '/* // */', '/*\n*/', '/* a\n b\n*/', '// x\n', '// /* \n', '//\n'])
            if not stray and '\n' in t and t.startswith('/*'):
                t = '/* one line */'
        elif r < 0.90:
            t = rng.choice(['\n', '\n', ' \n', '\t'])
        elif stray:
            t = rng.choice(['$', '@', '`', '\\', '\x7f', '\x80', '\xff', '\x01', '\r', '?'])
        else:
            t = rng.choice(['?', '~', ',', ';'])
        sep = rng.choice(['', '', ' ', ' ', '\t', '  ', '\f', '\v'])
        out.append(t + sep)
        if t.endswith('\n'):
            col0 = True
        elif not (t.startswith('/*') or t.strip(' \t') == ''):
            col0 = False
    s = ''.join(out) + '\n'
    if splice:
        chars = list(s)
        res = []
        for ch in chars:
            if rng.random() < splice:
                res.append('\\\n')
            res.append(ch)
        s = ''.join(res)
    return s


SPLICE_SAMPLES = ['a+++b', 'x<<=y', 'p->q', 'a..b', 'a...b', '1..2', 'f(...)', 'x##y', 'a::b', '1e+5', '0xe+1', 'u8"x"', "L'a'",
                  'a/**/b', 'a//c', 'a/ *b', '"a\\nb"', "'\\''", 'int x', '..', '...', '.5', 'a->b', '--x', 'i---j', 'u8x', 'LL',
                  '/* a */ b', 'x /= y', '<<=', '>>=', '"\\\\"', '%:%:', '. . .', '1.e+5']


def gen_splices():
    """a backslash-new-line inserted at EVERY position of short samples (one variant per line group)"""
    for s in SPLICE_SAMPLES:
        yield 'x ' + s
        for i in range(len(s) + 1):
            yield 'x ' + s[:i] + '\\\n' + s[i:]
        # two splices
        for i in range(len(s) + 1):
            yield 'x ' + s[:i] + '\\\n\\\n' + s[i:]


PREFIX_CASES = ['u8"a"', 'u8 "a"', 'u8x', "u8'a'", 'L"x"', 'LL"x"', 'u"x"', "U'\\''", 'u8', 'u88"x"', 'U8"x"', 'l"x"', "L 'a'", 'uu"x"',
                'u8/**/"a"', 'L/**/\'a\'', 'u\\\n8"a"', 'u8\\\n"a"', 'L\\\n"a"', 'Lu"a"', 'uL"a"', 'u8u8"a"', 'U"a"U"b"', "u'a'u'b'",
                'a/**/b', 'a//x\nb', 'a/ /b', 'a/*/b*/c', 'a / * b */ d', 'a/**//**/b', '/**/a', 'a/**/', '/*/**/x', '/* * / */y',
                # a prefix letter followed by 8 is a prefix only for u8; both quote characters may be escaped in both kinds of literal
                'L8"abc"', "U8'x'", "L8'c'", 'L8 "abc"', 'u8"a"u8"b"', "'\\\"'", '"it\\\'s"', "L'\\\"'", '"\\\'"', "'\\''", '"\\""', 'u"\\\'\\""', "U'\\\"'",
                'a/*\n*/b', 'a/* \\\n */b', 'a//\\\nstill comment\nb', '/\\\n* c *\\\n/ d', '/\\\n/ c\nd']


def clang_tokens(path):
    """(spelling, line, col) list from clang -dump-tokens, or None"""
    rc, out, err = sh(['clang', '-std=c2x', '-fsyntax-only', '-w', '-Xclang', '-dump-tokens', path], timeout=120)
    t = txt(err)
    res = []
    for m in re.finditer(r"^(\w+) '(.*?)'\t[^\n]*?(?:\[UnClean='.*?'\])?\tLoc=<[^<>\n]*?:(\d+):(\d+)>$", t, re.S | re.M):
        if m.group(1) == 'eof':
            break
        res.append((m.group(2), int(m.group(3)), int(m.group(4))))
    return res


# lines on which clang (-std=c2x) and the C11 specification legitimately differ: digraphs, trigraphs, u8 character constants,
# C23 digit separators (a quote directly after a pp-number), $ @ ` and non-printable bytes
DIGRAPHISH = re.compile(r"<:|:>|<%|%>|%:|\?\?|u8'|[0-9][0-9A-Za-z_.+-]*'|[$@`]|[^\x20-\x7e\n\t]")   # u8'a' is C23, clang 14 splits it


def shrink_text(text, still_bad, off=None):
    """reduce a failing text: the line(s) around the first differing token, then character-wise"""
    if off is not None and len(text) > 200:
        ln = text.count(b'\n', 0, off)
        lines = text.split(b'\n')
        for lo, hi in ((ln, ln + 1), (ln - 1, ln + 1), (ln - 2, ln + 2), (ln - 5, ln + 3), (ln - 20, ln + 5)):
            cand = b'\n'.join(lines[max(lo, 0):hi]) + b'\n'
            if still_bad(cand):
                text = cand
                break
    if len(text) > 3000:
        return text
    changed = True
    while changed and len(text) > 1:
        changed = False
        for i in range(len(text)):
            cand = text[:i] + text[i + 1:]
            if cand and still_bad(cand):
                text = cand
                changed = True
                break
    return text


def run(ctx):
    rng = ctx.rng
    thorough = ctx.tier == 'thorough'
    snap = ctx.snapshot()
    ok = ctx.coq(['Properties/%s.vo' % MODULE, 'Extract/Extract_c13.vo'])
    if ok:
        ctx.assumptions(MODULE, ctx.theorem_names(MODULE))
    oracle = ctx.oracle('c13') if ok else None
    stats = dict(files=0, lines=0, tokens=0, multi_char_tokens=0, clang_files=0, clang_tokens=0, categories={})
    samples = []
    kinds_seen = {}
    if not snap:
        return ctx.finish(dict(evaluations=0, distinct_nontrivial=0, rule='snapshot did not build', samples=[]))

    # ---------------------------------------------------------------- G: tables regenerated from the snapshot
    try:
        regen = c13_tables.generate(snap)
        committed = open(os.path.join(vlib.COQ, 'Gen', 'Keywords.v')).read()
        same = regen == committed
        ctx.ob('G:coq/Gen/Keywords.v equals the tables regenerated from cc.h/token.c/pp.c', same)
        if not same:
            import difflib
            d = '\n'.join(list(difflib.unified_diff(committed.split('\n'), regen.split('\n'), 'committed', 'regenerated', lineterm=''))[:60])
            ctx.broken('table', 'enum tokenkind / tokstr[] / keywords[] changed; theorems C13_keywords_sorted, C13_keyword_kinds, '
                       'C13_puncts_agree are about the committed copy (re-run gen/c13_tables.py --write and rebuild)', d)
        names = L.read_enum(open(os.path.join(snap, 'cc.h')).read())
        tokstr = L.read_tokstr(open(os.path.join(snap, 'token.c')).read())
        kws = L.read_keywords(open(os.path.join(snap, 'pp.c')).read())
    except Exception as e:
        ctx.broken('table', 'cannot re-read enum tokenkind / tokstr[] / keywords[] from the snapshot', repr(e))
        return ctx.finish(dict(evaluations=0, distinct_nontrivial=0, rule='tables unreadable', samples=[]))
    names_num = {n: i for i, n in enumerate(names)}
    # the specification's own tables against the source
    tbl_bad = []
    for p, k in L.PUNCT.items():
        if tokstr.get(k) != p:
            tbl_bad.append('tokstr[%s] = %r, C11 6.4.6 spelling %r' % (k, tokstr.get(k), p))
    for k in L.CANON:
        if k not in names_num:
            tbl_bad.append('enumerator %s missing' % k)
    srt = [s.encode('latin-1') for s, _ in kws]
    unsorted = [srt[i].decode() for i in range(len(srt) - 1) if not srt[i] < srt[i + 1]]
    ctx.ob('G:keywords[] strictly sorted by strcmp (%d rows)' % len(kws), not unsorted)
    if unsorted:
        ctx.broken('table', 'keywords[] is not sorted by strcmp at %r: bisection can miss entries (C13_keywords_sorted fails on the regenerated table)' % unsorted[:3], '')
    kwmap = dict(kws)
    for s_, k in L.KEYWORD.items():
        if kwmap.get(s_) != k:
            tbl_bad.append('keyword %r -> %s in the specification, %r in keywords[]' % (s_, k, kwmap.get(s_)))
    for s_ in kwmap:
        if s_ not in L.KEYWORD:
            tbl_bad.append('keywords[] row %r is not a C11/C23/GNU keyword of the specification' % s_)
    ctx.ob('G:punctuator spellings and keyword rows agree with the specification tables', not tbl_bad)
    if tbl_bad:
        ctx.broken('table', 'token tables disagree with the specification: ' + '; '.join(tbl_bad[:4]), '\n'.join(tbl_bad))

    # ---------------------------------------------------------------- K: build the case files
    work = os.path.join(ctx.tmp, 'cases')
    os.makedirs(work)
    files = []      # (path, text, category, want_model)

    def add(cat, text, model=True):
        if isinstance(text, str):
            text = text.encode('latin-1')
        p = os.path.join(work, '%s_%04d.c' % (cat, len(files)))
        with open(p, 'wb') as f:
            f.write(text)
        files.append((p, text, cat, model))

    ex = list(gen_exhaustive(4))
    per = 13000
    i = 0
    while i < len(ex):
        j = min(len(ex), i + per)
        while j < len(ex) and ex[j] == '*/':
            j += 1
        add('exh4', '\n'.join(ex[i:j]) + '\n')
        i = j
    kwl = list(gen_keyword_lines(sorted(set(list(L.KEYWORD) + [s for s, _ in kws] + ['_BitInt']))))
    for i in range(0, len(kwl), 9000):
        add('kw', '\n'.join(kwl[i:i + 9000]) + '\n')
    nums = list(gen_numbers(rng, 3000 if not thorough else 40000))
    for i in range(0, len(nums), 3000):
        part = nums[i:i + 3000]
        add('num', ' '.join(part) + '\n' + '\n'.join('x ' + n for n in part) + '\n' + '\n'.join(n + ';' for n in part) + '\n')
    add('splice', '\n'.join(gen_splices()) + '\n')
    add('prefix', '\n'.join('x ' + c for c in PREFIX_CASES) + '\n' + ' '.join(c for c in PREFIX_CASES if '\n' not in c and '//' not in c) + '\n')
    # the FIRST long token of a file, at and around the lengths at which a doubling token buffer grows (every character is kept)
    for n in (255, 256, 257, 258, 511, 512, 513, 1024, 1025, 4097):
        for mk in (lambda k: 'a' + 'bcdefghij' * (k // 9 + 1), lambda k: '1' + '234567890' * (k // 9 + 1), lambda k: '"' + 'stuvwxyz0' * (k // 9 + 1)):
            tok = mk(n)[:n]
            if tok[0] == '"':
                tok = tok[:-1] + '"'
            add('longtok', tok + ' ' + tok + ';\nshort ' + tok + '\n')
    add('bytes', b''.join(b'x ' + bytes([b]) + b' y' + bytes([b]) + b'z\n' for b in range(0, 256) if b not in (0x22, 0x27, 0x0a, 0x5c)) +
        b'x \\ y\\z \\\\ w\n')
    nseq = 120 if not thorough else 8000
    for _ in range(nseq):
        add('seq', gen_sequence(rng, rng.choice([20, 60, 200, 600])))
    for _ in range(30 if not thorough else 1500):
        add('seqclean', gen_sequence(rng, rng.choice([60, 200]), stray=False).replace('\f', ' ').replace('\v', ' '))
    for _ in range(40 if not thorough else 3000):
        add('seqsplice', gen_sequence(rng, rng.choice([20, 80]), splice=rng.choice([0.02, 0.1, 0.3])))
    # a splice at every position of a few generated sequences
    for _ in range(6 if not thorough else 300):
        base = gen_sequence(rng, 12, comments=True)
        var = [base[:i] + '\\\n' + base[i:] for i in range(len(base))]
        add('seqevery', 'x\n'.join(var))
    # malformed stream: each must be rejected or accepted by all three alike
    for bad in ["x 1'000;\n", '"abc\n', "'a\n", '"abc', "'", '/* open', 'x /* y\n', '"\\q"\n', '"\\x"\n', "'\\8'\n", 'L"\\xg"\n', 'u8"\n', 'x "a\0b" y\n',
                "x 'a\0' y\n", '"\\\0"\n', 'a "b\\\n', 'x\\', '..\\', 'a\0b\n', 'L\'\\', '"\\']:
        add('bad', bad)

    g = dict(exe=os.path.join(snap, 'cproc-qbe'), oracle=oracle, names=names, names_num=names_num)
    with multiprocessing.Pool(vlib.NCPU, initializer=_init_worker, initargs=(g,)) as pool:
        results = pool.map(compare_file, files, chunksize=1)
    _G.update(g)

    nviol = ndrift = 0
    by = {f[0]: f for f in files}
    for r in results:
        stats['files'] += 1
        stats['lines'] += r['nlines']
        stats['tokens'] += r['ntok']
        stats['multi_char_tokens'] += r['multi']
        stats['categories'][r['cat']] = stats['categories'].get(r['cat'], 0) + r['nlines']
        for k, v in r['kinds'].items():
            kinds_seen[k] = kinds_seen.get(k, 0) + v
        text = by[r['path']][1]
        if r['viol'] and nviol < 3:
            nviol += 1

            def still_bad(t):
                p = os.path.join(ctx.tmp, 'shrink.c')
                open(p, 'wb').write(t)
                rr = compare_file((p, t, 'shrink', False))
                return rr['viol'] is not None
            small = shrink_text(text, still_bad, r['viol'].get('off'))
            p = os.path.join(ctx.tmp, 'shrink.c')
            open(p, 'wb').write(small)
            rr = compare_file((p, small, 'shrink', False))
            v = rr['viol'] or r['viol']
            ctx.violation('tokenisation differs from C11 6.4 on %r: cproc %r, specification %r (rc=%s %s, spec end %s)'
                          % (small[:80], v['real'], v['spec'], v['rc'], v['err'][:80], v['send']),
                          small.decode('latin-1'), 'c', key='lex:' + r['cat'])
        elif r['viol']:
            nviol += 1
        if r['drift'] and not r['viol']:
            ndrift += 1
            if ndrift <= 3:
                ctx.broken('correspondence', 'Scan model vs scan.c/pp.c on a %s file' % r['cat'],
                           'first difference at token %s: real=%r model=%r (model end %s; real rc=%s %s)\nfile head: %r'
                           % (r['drift']['index'], r['drift']['real'], r['drift']['model'], r['drift']['mend'], r['drift']['rc'],
                              r['drift']['err'][:120], text[:300]))
    ctx.ob('K:%d files / %d lines / %d tokens: token dump of cproc-qbe = specification lexer (C11 6.4)' % (stats['files'], stats['lines'], stats['tokens']), nviol == 0)
    ctx.ob('K:the same files: extracted Scan model = token dump, exactly (kinds, spellings, space, locations, errors)', ndrift == 0 and oracle is not None)

    # every keyword enumerator is reached through its canonical spelling; every punctuator kind was produced
    missing = [names[names_num[k]] for k in set(L.PUNCT.values()) | set(L.KEYWORD.values()) if names_num[k] not in kinds_seen]
    ctx.ob('K:every punctuator and keyword kind was produced by the real scanner at least once', not missing)
    if missing:
        ctx.broken('correspondence', 'token kinds never produced: %r' % missing[:6], '')

    # ---------------------------------------------------------------- S cross-checked with clang
    cl_bad = 0
    cl_files = [f for f in files if f[2] in ('num', 'seqclean', 'prefix')][:40 if not thorough else 300]
    ex3 = '\n'.join(l for l in gen_exhaustive(3)) + '\n'
    p3 = os.path.join(work, 'exh3_clang.c')
    open(p3, 'w').write(ex3)
    cl_files.append((p3, ex3.encode(), 'exh3', False))

    def clang_one(f):
        path, text, cat, _ = f
        # line-wise filter: keep lines clang and the specification are both defined on (no digraphs, trigraphs, $ @ ` \ or control bytes)
        s = text.decode('latin-1')
        if False:
            pass
        else:
            keep = '\n'.join(l for l in s.split('\n') if not DIGRAPHISH.search(l)) + '\n'
        toks, end = L.lex(keep.encode('latin-1'), keywords=False)
        if end != 'eof':
            return None
        p = path + '.clang.c'
        open(p, 'w', encoding='latin-1').write(keep)
        ct = clang_tokens(p)
        ph = L.physical(keep.encode('latin-1'))
        want = [(sp, ph[off][0], ph[off][1]) for k, sp, space, off in toks if k != 'TNEWLINE']
        return path, cat, ct, want
    for r in vlib.parallel_map(clang_one, cl_files):
        if r is None:
            continue
        path, cat, ct, want = r
        stats['clang_files'] += 1
        stats['clang_tokens'] += len(want)
        if ct != want:
            cl_bad += 1
            i = next((i for i, (a, b) in enumerate(zip(ct, want)) if a != b), min(len(ct), len(want)))
            if cl_bad <= 2:
                ctx.broken('correspondence', 'reference lexer (gen/c13_lex.py) vs clang -dump-tokens on a %s file' % cat,
                           'token %d: clang %r, reference %r' % (i, ct[i:i + 2], want[i:i + 2]))
    ctx.ob('S:reference lexer = clang -dump-tokens on %d files / %d tokens (digraph- and trigraph-free)' % (stats['clang_files'], stats['clang_tokens']), cl_bad == 0)

    # ---------------------------------------------------------------- compile path (no hook needed)
    cp = [('int f0(void) { int a = 3, b = 4; int r = a+++b; return r+a---b; }', None),
          ('int chk1 = 7 - - -2; int chk2 = 1e+5-1 > 0; int chk3 = 0xe + 1; int chk4 = sizeof(int)>=4;', {'chk1': 5, 'chk2': 1, 'chk3': 15, 'chk4': 1}),
          ('int x = 1; int f(void) { x<<=2; x>>=1; x-=-1; return x; }', None),
          ('struct s { int m; } v, *p = &v; int g(void) { return p->m+v.m; }', None),
          ('int h(int n, ...); int k = sizeof(L"ab") / sizeof(L\'a\') ; const void *q = u8"x" "y";', None)]
    cp_bad = 0
    for src, exp in cp:
        rc, out, err = ctx.qbe(src + '\n')
        if rc != 0:
            cp_bad += 1
            ctx.violation('valid program whose meaning depends on maximal munch is rejected: %s' % err[:120], src + '\n', 'c', key='lex:compile')
        elif exp:
            for nme, val in exp.items():
                m = re.search(r'data \$%s = align 4 \{ w (-?\d+), \}' % nme, out)
                if not m or int(m.group(1)) != val:
                    cp_bad += 1
                    ctx.violation('%s evaluates to %s, C11 tokenisation gives %d' % (nme, m.group(1) if m else None, val), src + '\n', 'c', key='lex:compile')
    rc, out, err = ctx.qbe('int z = 0xe+1;\n')
    if rc == 0:
        cp_bad += 1
        ctx.violation('`0xe+1` accepted: it is ONE preprocessing number (6.4.8) and not a valid constant', 'int z = 0xe+1;\n', 'c', key='lex:compile')
    for w in ['int', 'while', '_Alignas', '__typeof__', 'typeof_unqual', 'nullptr']:
        rc, out, err = ctx.qbe('int %s;\n' % w)
        if rc == 0:
            cp_bad += 1
            ctx.violation('`int %s;` accepted: the keyword is lexed as an identifier' % w, 'int %s;\n' % w, 'c', key='lex:keyword-' + w)
    for w in ['in', 'intt', 'whil', 'While', '_alignas', 'typeof_unqua', 'nullpt', '_BitIn']:
        rc, out, err = ctx.qbe('int %s;\n' % w)
        if rc != 0:
            cp_bad += 1
            ctx.violation('`int %s;` rejected: a non-keyword is not lexed as an identifier: %s' % (w, err[:80]), 'int %s;\n' % w, 'c', key='lex:nonkeyword-' + w)
    ctx.ob('K-compile:%d programs / words through the compile path' % (len(cp) + 14), cp_bad == 0)

    for f in files[:1] + [f for f in files if f[2] == 'seq'][:2]:
        samples.append({'category': f[2], 'head': f[1][:160].decode('latin-1')})
    nontrivial = stats['multi_char_tokens']
    cov = dict(evaluations=stats['lines'], distinct_nontrivial=nontrivial,
               rule='evaluations = source lines (one case per line for the exhaustive / keyword / number / splice files, generated '
                    'token sequences otherwise); distinct_nontrivial = tokens of two or more characters delivered by the real scanner and '
                    'equal to the specification (each needs at least one look-ahead decision); all case lines are distinct by construction',
               samples=samples, stats=stats, kinds_produced=len(kinds_seen),
               input_distribution='exhaustive: all %d strings of length <= 4 over the 25 punctuator characters; %d keyword spellings and one-character '
                                  'perturbations; %d numeric forms; splice at every position of %d samples; %d random token sequences (30%% punctuators, 20%% '
                                  'identifiers/keywords, 12%% numbers, 14%% literals, 8%% comments, rest white space / stray bytes); all 256 byte values'
                                  % (len(ex), len(kwl), len(nums), len(SPLICE_SAMPLES), nseq),
               disagreements_checked=nviol + ndrift + cl_bad)
    return ctx.finish(cov, assumptions=[
        'scan.c / pp.c:keyword,nextinto,directive are tied to Model/Scan.v by exact differential runs (token dump incl. locations and error messages), not by proof',
        'isalnum/isdigit/isalpha/isxdigit behave as in the "C" locale (cproc never calls setlocale); glibc keeps two pushed-back bytes (ungetc twice in the `..` case)',
        'getc never fails (the fatal() on ferror is not modelled); a single input file (scanner->next == NULL)',
        'macro expansion is not part of the model: no #define occurs in the inputs, `hide` is not compared',
        'the specification has no digraphs, trigraphs, universal character names or extended identifier characters (unsupported by design, README)',
        '_BitInt has an enumerator and a tokstr[] entry but no keywords[] row and no parser support: it is an identifier in model and specification'])


def replay(ctx, path):
    snap = ctx.snapshot()
    names = L.read_enum(open(os.path.join(snap, 'cc.h')).read())
    _G.update(dict(exe=os.path.join(snap, 'cproc-qbe'), oracle=None, names=names, names_num={n: i for i, n in enumerate(names)}))
    text = open(path, 'rb').read()
    p = os.path.join(ctx.tmp, 'replay.c')
    open(p, 'wb').write(text)
    r = compare_file((p, text, 'replay', False))
    rc, out, err = real_dump(_G['exe'], p)
    print(out[:4000], err[:400])
    if r['viol']:
        print('DIFFERS from the specification at token %d: real %r, specification %r' % (r['viol']['index'], r['viol']['real'], r['viol']['spec']))
        return 1
    print('agrees with the specification (%d tokens)' % r['ntok'])
    return 0
