# C14 - character and string literals denote the standard-mandated values.   DESIGN.md section 5 (C14).
#
#   S  spec      : this file (Python: codecs + C11 6.4.4.4/6.4.5 rules), tied to coq/Spec/Unicode.v + CLiteral.v through
#                  the oracle's T/Q commands; harness/c14/harness.c has a second, table-driven RFC 3629 reference
#   M  model     : coq/Model/Utf.v, Literal.v extracted to ocaml/c14/oracle
#   K-unit       : snapshot's utf.c in harness/c14 vs oracle: all code points, structured decoder sweeps
#   K-CLI        : `T s[] = <literal>;` / constants through cproc-qbe on three targets vs spec and model
import os, re, json, subprocess
import vlib
from vlib import sh, txt, run_limited

LEVEL = 'proof'
MODULE = 'Properties_C14'
TARGETS = ['x86_64-sysv', 'aarch64', 'riscv64']
# what the psABIs say (x86-64 SysV 3.1.2; AAPCS64 (char unsigned, wchar_t unsigned int); RISC-V psABI (char unsigned, wchar_t int))
ABI = {'x86_64-sysv': dict(signedchar=True, wchar='int'),
       'aarch64': dict(signedchar=False, wchar='uint'),
       'riscv64': dict(signedchar=False, wchar='int')}
CLANG_TRIPLE = {'x86_64-sysv': 'x86_64-linux-gnu', 'aarch64': 'aarch64-linux-gnu', 'riscv64': 'riscv64-linux-gnu'}
KINDS = ['-', 'u8', 'u', 'U', 'L']
PREFIX = {'-': b'', 'u8': b'u8', 'u': b'u', 'U': b'U', 'L': b'L'}
SIMPLE = {"'": 39, '"': 34, '?': 63, '\\': 92, 'a': 7, 'b': 8, 'f': 12, 'n': 10, 'r': 13, 't': 9, 'v': 11}
CTYPE_DECL = {'char': 'char', 'uchar': 'unsigned char', 'ushort': 'unsigned short', 'uint': 'unsigned int', 'int': 'int'}
CTYPE_SIZE = {'char': 1, 'uchar': 1, 'ushort': 2, 'uint': 4, 'int': 4}
GENERIC_STR = '_Generic(%s, char*: 1, unsigned char*: 2, unsigned short*: 3, unsigned int*: 4, int*: 5, default: 9)'
GENERIC_CONST = '_Generic(%s, int: 5, unsigned char: 2, unsigned short: 3, unsigned int: 4, char: 1, default: 9)'
TYPE_CODE = {'char': 1, 'uchar': 2, 'ushort': 3, 'uint': 4, 'int': 5}
M64 = 1 << 64


# ------------------------------------------------------------------------------------- specification (Python)
def is_scalar(c):
    return 0 <= c < 0xD800 or 0xE000 <= c < 0x110000


def item_bytes(it):
    k, v = it
    if k == 'c':
        return chr(v).encode('utf-8')
    if k == 's':
        return b'\\' + bytes([v])
    if k == 'o':
        return b'\\' + v.encode()
    if k == 'h':
        return b'\\x' + v.encode()
    raise ValueError(it)


def item_value(it):
    k, v = it
    if k == 'c':
        return v
    if k == 's':
        return SIMPLE[chr(v)]
    if k == 'o':
        return int(v, 8)
    return int(v, 16)


def item_units(w, it):
    k, v = it
    if k != 'c':
        return [item_value(it)]
    if w == 1:
        return list(chr(v).encode('utf-8'))
    if w == 2:
        b = chr(v).encode('utf-16-le')
        return [b[i] | b[i + 1] << 8 for i in range(0, len(b), 2)]
    return [v]


def merge_kinds(ks):
    acc = '-'
    for k in ks:
        if k == '-':
            continue
        if acc == '-':
            acc = k
        elif acc != k:
            return None
    return acc


def kind_type(target, k):
    return {'-': 'char', 'u8': 'uchar', 'u': 'ushort', 'U': 'uint', 'L': ABI[target]['wchar']}[k]


def spec_string(target, parts):
    """parts: list of (kind, [items]).  -> dict(reject=reason) or dict(type, elems)"""
    k = merge_kinds([p[0] for p in parts])
    if k is None:
        return dict(reject='prefix')
    t = kind_type(target, k)
    w = CTYPE_SIZE[t]
    el = []
    for _, its in parts:
        for it in its:
            if it[0] in 'oh' and item_value(it) >= 1 << (8 * w):
                return dict(reject='range', type=t)
            el += item_units(w, it)
    return dict(type=t, elems=el + [0])


def const_type(target, k):
    return 'int' if k == '-' else kind_type(target, k)


def spec_const(target, k, it):
    """-> dict(type, value) value as mathematical integer | dict(type, unspecified=True) | dict(type, reject='range')"""
    t = const_type(target, k)
    v = item_value(it)
    if k == '-':
        if it[0] == 'c':
            return dict(type=t, value=v) if v < 0x80 else dict(type=t, unspecified=True)
        if v >= 256:
            return dict(type=t, reject='range')
        return dict(type=t, value=v - 256 if ABI[target]['signedchar'] and v >= 128 else v)
    bits = 8 * CTYPE_SIZE[t]
    if v >= 1 << bits:
        # escape: constraint violation; source character: not representable in one code unit
        return dict(type=t, reject='range' if it[0] != 'c' else 'unrepresentable')
    if t == 'int' and v >= 1 << (bits - 1):
        v -= 1 << bits
    return dict(type=t, value=v)


def render_tok(kind, items, quote=b'"'):
    return PREFIX[kind] + quote + b''.join(item_bytes(i) for i in items) + quote


def item_text(it):
    k, v = it
    if k == 'c':
        return 'c%x' % v
    if k == 's':
        return 's%x' % v
    return k + v.encode().hex()


# ------------------------------------------------------------------------------------- generators
BOUNDARY_CPS = [1, 0x20, 0x7e, 0x7f, 0x80, 0x81, 0xff, 0x100, 0x7ff, 0x800, 0x801, 0xfff, 0x1000, 0xd7ff, 0xe000, 0xfffd, 0xfffe, 0xffff,
                0x10000, 0x10001, 0x1f600, 0x1ffff, 0x20000, 0xeffff, 0xf0000, 0x100000, 0x10fffe, 0x10ffff]
FORBIDDEN_ASCII = {0, 10, 34, 39, 92}


def rand_cp(rng):
    r = rng.random()
    if r < 0.15:
        return rng.choice(BOUNDARY_CPS)
    if r < 0.35:
        while True:
            c = rng.randrange(1, 0x80)
            if c not in FORBIDDEN_ASCII:
                return c
    if r < 0.5:
        return rng.randrange(0x80, 0x800)
    if r < 0.75:
        while True:
            c = rng.randrange(0x800, 0x10000)
            if is_scalar(c):
                return c
    plane = rng.randrange(1, 17)
    return plane * 0x10000 + rng.randrange(0x10000)


def rand_hex_digits(rng, value, ndig):
    s = '%x' % value
    s = s.rjust(ndig, '0') if ndig > len(s) else s
    return ''.join(ch.upper() if rng.random() < 0.4 else ch for ch in s)


def rand_escape(rng, w, in_range=True):
    """a numeric or simple escape whose value fits width w (or exceeds it when not in_range)"""
    lim = 1 << (8 * w)
    r = rng.random()
    if in_range:
        if r < 0.2:
            return ('s', ord(rng.choice(list(SIMPLE))))
        if r < 0.55:
            nd = rng.randint(1, 3)
            v = rng.randrange(min(8 ** nd, lim, 512))
            if rng.random() < 0.3:
                v = rng.choice([x for x in (0, 1, 7, 8, 63, 64, 127, 128, 255, 256, 511) if x < min(8 ** nd, lim)] or [0])
            return ('o', ('%o' % v).rjust(nd, '0'))
        v = rng.choice([0, 1, 0x7f, 0x80, 0xff, 0x100, 0x7fff, 0x8000, 0xffff, 0x10000, 0x7fffffff, 0x80000000, 0xffffffff, rng.randrange(lim)])
        if v >= lim:
            v = rng.randrange(lim)
        nd = rng.randint(1, 8)
        return ('h', rand_hex_digits(rng, v, nd))
    # out of range
    if w == 1 and r < 0.5:
        return ('o', '%o' % rng.randrange(256, 512))
    if w == 4:
        return ('h', rand_hex_digits(rng, rng.randrange(1 << 32, 1 << 40), rng.randint(9, 12)))
    return ('h', rand_hex_digits(rng, rng.choice([lim, lim + 1, lim * 2 - 1, rng.randrange(lim, 1 << 32)]), rng.randint(1, 8)))


def extends(prev, nxt_bytes):
    """would the first byte of nxt_bytes extend the numeric escape prev (maximal munch)?"""
    if not nxt_bytes:
        return False
    b = nxt_bytes[0:1]
    if prev[0] == 'o':
        return len(prev[1]) < 3 and b in b'01234567'
    if prev[0] == 'h':
        return b in b'0123456789abcdefABCDEF'
    return False


def rand_items(rng, w, n, in_range=True):
    """n items, unambiguous spelling; digit-like characters placed right after numeric escapes where they do not extend them"""
    out = []
    for _ in range(n):
        if rng.random() < 0.45:
            it = rand_escape(rng, w)
        else:
            it = ('c', rand_cp(rng))
        if out and out[-1][0] in 'oh':
            prev = out[-1]
            if rng.random() < 0.6:
                # a digit-like follower that must NOT be absorbed
                if prev[0] == 'o':
                    pool = '89axg' if len(prev[1]) < 3 else '0123456789'
                else:
                    pool = 'gGxhz'
                it = ('c', ord(rng.choice(pool)))
            if extends(prev, item_bytes(it)):
                it = ('c', ord('z'))
        out.append(it)
    return out


def rand_parts(rng, target, compatible=True):
    """a sequence of adjacent string literal tokens"""
    nparts = rng.choice([1, 1, 1, 2, 2, 3, 4])
    if compatible:
        k = rng.choice(KINDS)
        kinds = [k if rng.random() < 0.6 else '-' for _ in range(nparts)]
        if rng.random() < 0.5:
            kinds[rng.randrange(nparts)] = k
    else:
        while True:
            kinds = [rng.choice(KINDS) for _ in range(max(2, nparts))]
            if merge_kinds(kinds) is None:
                break
    mk = merge_kinds(kinds)
    w = CTYPE_SIZE[kind_type(target, mk)] if mk else 1
    return [(kd, rand_items(rng, w, rng.choice([0, 1, 1, 2, 3, 5, 9]))) for kd in kinds]


# ------------------------------------------------------------------------------------- IL data parsing
DATA_RE = re.compile(r'^(?:export )?data \$(\w+) = align (\d+) \{ (.*) \}\s*$', re.M)


def parse_bstring(s):
    out = []
    i = 0
    while i < len(s):
        if s[i] == '\\':
            out.append(int(s[i + 1:i + 4], 8))
            i += 4
        else:
            out.append(ord(s[i]))
            i += 1
    return out


def parse_data(il):
    """name -> (align, letter, [ints], zero_tail)"""
    res = {}
    for m in DATA_RE.finditer(il):
        name, align, body = m.group(1), int(m.group(2)), m.group(3).strip()
        z = 0
        mz = re.search(r',\s*z (\d+),?\s*$', body)
        if mz:
            z = int(mz.group(1))
            body = body[:mz.start()] + ','
        mb = re.match(r'^b "((?:[^"\\]|\\[0-7]{3})*)",$', body)
        if mb:
            res[name] = (align, 'b', parse_bstring(mb.group(1)), z)
            continue
        mi = re.match(r'^([bhwl]) ((?:\d+ ?)+),?\s*,?$', body)
        if mi:
            res[name] = (align, mi.group(1), [int(x) for x in mi.group(2).split()], z)
            continue
        res[name] = (align, '?', body, z)
    return res


LETTER_SIZE = {'b': 1, 'h': 2, 'w': 4, 'l': 8}


# ------------------------------------------------------------------------------------- oracle helpers
class Oracle:
    def __init__(self, exe):
        self.exe = exe

    def run(self, lines, timeout=300):
        rc, out, err = run_limited([self.exe], input=('\n'.join(lines) + '\n').encode(), timeout=timeout, cap=512 << 20)
        return out.decode('latin1').split('\n')[:-1]


def model_string(ol, target, toks, force=False):
    return 'S %s %d %s' % (target, 1 if force else 0, ' '.join(t.hex() for t in toks))


def parse_model_S(line):
    p = line.split(' ')
    if p[1] == 'err':
        return dict(err=p[2])
    el = [int(x, 16) for x in p[5].split(',')] if len(p) > 5 and p[5] else []
    return dict(type=p[2], size=int(p[3], 16), alloc=int(p[4], 16), elems=el)


def parse_model_K(line):
    p = line.split(' ')
    if p[1] == 'err':
        return dict(err=p[2])
    return dict(type=p[2], value=int(p[3], 16))


# ------------------------------------------------------------------------------------- replay files
def mkreplay(target, src, expect):
    """text of a replay file: a header line `//! target=... expect=...` and the C source (hex when it is not UTF-8 text)"""
    head = '//! target=%s expect=%s' % (target, expect)
    try:
        s = src.decode('utf-8')
        if '\x00' in s or '\r' in s:
            raise ValueError
        return head + '\n' + s, 'c'
    except ValueError:
        return head + ' hex\n' + src.hex() + '\n', 'chex'


def expect_data(d):
    return 'data:' + ';'.join('%s=%s' % (k, ','.join(str(x) for x in v)) for k, v in d.items())


# ------------------------------------------------------------------------------------- the check
def run(ctx):
    rng = ctx.rng
    thorough = ctx.tier == 'thorough'
    os.environ['CPROC_VERIF_TOKDUMP'] = '1'      # only looked at by the snapshot's cproc-qbe -E
    snap = ctx.snapshot()
    ok = ctx.coq(['Properties/%s.vo' % MODULE, 'Extract/Extract_c14.vo'])
    if ok:
        ctx.assumptions(MODULE, ctx.theorem_names(MODULE))
    exe = ctx.oracle('c14') if ok else None
    oracle = Oracle(exe) if exe else None
    stats = dict(unit_cases=0, unit_lines=0, strings=0, string_runs=0, consts=0, const_runs=0, rejects_expected=0,
                 rejects_seen=0, scan_cases=0, gcc_cases=0, by_kind={}, by_target={}, by_len={1: 0, 2: 0, 3: 0, 4: 0}, escapes=dict(s=0, o=0, h=0),
                 spec_tie=0)
    samples = []
    nontrivial = set()
    seen_keys = set()

    def violation(what, key, target=None, src=None, expect=None, cmds=None):
        # one report per class; CLI replays carry the target and what the specification expects
        if key in seen_keys:
            return
        seen_keys.add(key)
        if cmds is not None:
            ctx.violation(what, cmds, 'cmds', key=key)
        else:
            text, ext = mkreplay(target, src, expect)
            ctx.violation(what, text, ext, key=key)

    if snap:
        unit_ok = k_unit(ctx, snap, oracle, stats, violation, thorough)
        if oracle and os.path.exists(os.path.join(snap, 'cproc-qbe')):
            g_tables(ctx, snap, oracle, violation)
            k_cli(ctx, snap, oracle, stats, samples, nontrivial, violation, thorough)

    cov = dict(evaluations=stats['unit_cases'] + stats['strings'] + stats['consts'] + stats['scan_cases'],
               distinct_nontrivial=len(nontrivial) + stats['unit_cases'],
               rule='unit: every case is a distinct (function, input) pair (all 0x110000 code points through utf8enc/utf16enc/utf8dec; lead byte x 24^3 '
                    'continuation candidates x n in {2,4}; single-byte corruptions and truncations of valid encodings), all of them run the multi-byte / '
                    'rejecting branches except the 128 ASCII code points; CLI: distinct (target, declaration) pairs whose literal contains a multi-byte '
                    'character, an escape, a prefix or a concatenation (plain one-ASCII-character literals are not counted)',
               samples=samples[:8], stats=stats,
               disagreements_checked=len(ctx.violations) + len(ctx.brokens))
    return ctx.finish(cov, assumptions=[
        'utf.c is tied to Model/Utf.v by exhaustive (encoders) and structured (decoder) differential runs, not by proof; '
        'expr.c/scan.c literal code is tied to Model/Literal.v through the compiler CLI on generated literals',
        'uint_least32_t is 32 bits and uint_least16_t 16 bits on the build host (true of every host cproc supports)',
        'isxdigit/tolower/isprint behave as in the C locale',
        'the emitted `data` text is decoded by this check (b strings with octal escapes, h/w/l items)',
        'NUL bytes, universal character names (\\u, \\U: rejected by cproc) and multi-character constants are outside the generated valid stream',
    ])


# ------------------------------------------------------------------------------------- G: tables re-read from the snapshot
def g_tables(ctx, snap, oracle, violation):
    src = open(os.path.join(snap, 'targ.c'), errors='replace').read()
    blocks = re.findall(r'\{\s*\.name = "([^"]+)",(.*?)\n\t\},', src, re.S)
    parsed = {}
    for name, body in blocks:
        mw = re.search(r'\.typewchar = &type(\w+)', body)
        ms = re.search(r'\.signedchar = (\d+)', body)
        parsed[name] = dict(signedchar=bool(ms and int(ms.group(1))), wchar=mw.group(1) if mw else None)
    # the model's table, asked through the extracted charconst: L'a' gives wchar_t, '\xff' the sign of char
    lines = []
    for t in TARGETS:
        lines += ['K %s %s' % (t, b"L'a'".hex()), 'K %s %s' % (t, b"'\\xff'".hex())]
    out = oracle.run(lines)
    model = {}
    for i, t in enumerate(TARGETS):
        a, b = parse_model_K(out[2 * i]), parse_model_K(out[2 * i + 1])
        model[t] = dict(signedchar=b.get('value') == M64 - 1, wchar=a.get('type'))
    okm = all(parsed.get(t) == model[t] for t in TARGETS) and set(parsed) == set(TARGETS)
    ctx.ob('G:targ.c alltargs (char signedness, wchar_t) equals the model table: %r' % (parsed,), okm)
    if not okm:
        ctx.broken('table', 'targ.c alltargs vs Model/Literal.v targets', 'source: %r\nmodel: %r' % (parsed, model))
    for t in TARGETS:
        if t in parsed and parsed[t] != ABI[t]:
            violation('targ.c: target %s has %r, the psABI says %r' % (t, parsed[t], ABI[t]), 'target-abi-' + t, t,
                      b"long long c = '\\xff'; long long w = (typeof(L' '))-1;\n",
                      expect_data({'c': [(M64 - 1) if ABI[t]['signedchar'] else 255], 'w': [(M64 - 1) if ABI[t]['wchar'] == 'int' else 0xffffffff]}))
    # second opinion on the ABI table itself
    if sh('which clang')[0] == 0:
        agree = True
        for t in TARGETS:
            rc, o, e = sh(['clang', '--target=' + CLANG_TRIPLE[t], '-E', '-dM', '-x', 'c', '/dev/null'], timeout=30)
            if rc != 0:
                continue
            d = txt(o)
            cu = '__CHAR_UNSIGNED__' in d
            mw = re.search(r'#define __WCHAR_TYPE__ (.*)', d)
            wt = {'int': 'int', 'unsigned int': 'uint'}.get(mw.group(1).strip() if mw else '', '?')
            if (not cu) != ABI[t]['signedchar'] or wt != ABI[t]['wchar']:
                agree = False
                ctx.notes.append('clang disagrees with the ABI table of this check for %s: char unsigned=%s wchar=%s' % (t, cu, wt))
        ctx.ob('S:psABI table of the check agrees with clang predefined macros for the three triples', agree)
    # scan.c: the simple-escape set
    ssrc = open(os.path.join(snap, 'scan.c'), errors='replace').read()
    m = re.search(r'strchr\("((?:[^"\\]|\\.)*)", s->chr\)', ssrc)
    if m:
        lit = m.group(1).encode().decode('unicode_escape')
        want = set(ord(c) for c in lit) | ({0} if 's->chr &&' not in ssrc[max(0, m.start() - 40):m.start()] else set())
        lines = ['X %s' % (b'"\\' + bytes([c]) + b'z"').hex() for c in range(256) if c not in (ord('x'),) and not (48 <= c <= 55)]
        cs = [c for c in range(256) if c not in (ord('x'),) and not (48 <= c <= 55)]
        out = oracle.run(lines)
        got = set(c for c, l in zip(cs, out) if l.startswith('X ok'))
        ctx.ob('G:scan.c escape() simple-escape set equals the model (%d characters)' % len(want), got == want)
        if got != want:
            ctx.broken('table', 'scan.c strchr set vs Model/Literal.v scan_simple', 'source: %r model: %r' % (sorted(want), sorted(got)))
    else:
        ctx.broken('table', 'scan.c escape()', 'strchr("...") call not found')
    esrc = open(os.path.join(snap, 'expr.c'), errors='replace').read()
    m = re.search(r"isodigit\(int c\)\s*\{\s*return '0' <= c && c <= '(\d)';", esrc)
    ctx.ob("G:expr.c isodigit is '0'..'7'", bool(m and m.group(1) == '7'))
    if not (m and m.group(1) == '7'):
        ctx.broken('table', 'expr.c isodigit', 'the model has 48 <= c <= 55; source: %r' % (m.group(0) if m else None))


# ------------------------------------------------------------------------------------- K-unit
def k_unit(ctx, snap, oracle, stats, violation, thorough):
    hexe = os.path.join(ctx.tmp, 'h14')
    hdir = os.path.join(vlib.VERIF, 'harness/c14')
    e = ctx.cc(hexe, [os.path.join(hdir, 'harness.c')], incl=[os.path.join(hdir, 'inc'), snap])
    if e:
        ctx.broken('correspondence', 'c14 unit harness does not build against utf.c', e)
        return False
    jobs = []
    nchunk = 16
    step = 0x110000 // nchunk
    for i in range(nchunk):
        jobs.append(['E %d %d' % (i * step, (i + 1) * step)])
    for i in range(0, 256, 16):
        jobs.append(['L %d' % b for b in range(i, i + 16)])
    cstep = 1 if thorough else 3
    for i in range(nchunk):
        jobs.append(['C %d %d %d' % (i * step + (i % cstep), (i + 1) * step, cstep)])

    def one(lines):
        rc, out, err = run_limited([hexe], input=('\n'.join(lines) + '\n').encode(), timeout=300, cap=64 << 20)
        real = out.decode('latin1').split('\n')[:-1]
        model = oracle.run(lines, timeout=900) if oracle else None
        return lines, rc, real, model, err
    results = vlib.parallel_map(one, jobs)
    agree = True
    for lines, rc, real, model, err in results:
        vl = [l for l in real if l.startswith('V ')]
        rl = [l for l in real if not l.startswith('V ')]
        stats['unit_lines'] += len(rl)
        for l in rl:
            p = l.split(' ')
            if p[0] == 'E':
                stats['unit_cases'] += 3 * (int(p[2]) - int(p[1]))
            elif p[0] == 'L':
                stats['unit_cases'] += 2 * 24 * 24
            elif p[0] == 'C':
                stats['unit_cases'] += int(p[4])
        if rc != 0:
            agree = False
            violation('utf.c harness died (rc=%d) on %r: %s' % (rc, lines[:2], txt(err)[-300:]), 'utf-harness-crash', cmds='\n'.join(lines) + '\n')
            continue
        for v in vl[:3]:
            p = v.split(' ')
            agree = False
            if p[1] == 'D':
                violation('utf8dec contradicts RFC 3629: bytes %s n=%s: %s' % (p[2], p[3], ' '.join(p[4:])), 'utf8dec-spec', cmds='D %s %s\n' % (p[2], p[3]))
            else:
                violation('utf.c encoder contradicts the specification: ' + v[2:], 'utfenc-spec', cmds='E %s %d\n' % (p[2], int(p[2]) + 1))
        if model is not None and rl != model:
            agree = False
            i = next((i for i, (a, b) in enumerate(zip(rl, model)) if a != b), min(len(rl), len(model)))
            if any(bk[1] == 'Model/Utf.v vs utf.c' for bk in ctx.brokens):
                continue
            detail = drill(hexe, oracle, rl[i] if i < len(rl) else '', model[i] if i < len(model) else '')
            ctx.broken('correspondence', 'Model/Utf.v vs utf.c', 'block %r: real=%r model=%r\n%s' % (lines[:1], rl[i:i + 1], model[i:i + 1], detail))
    # a few full-detail cases and a second opinion on the reference decoder: Python's strict UTF-8 codec
    rng = ctx.rng
    seqs = []
    for _ in range(3000 if not thorough else 200000):
        r = rng.random()
        if r < 0.4:
            b = bytearray(chr(rand_cp(rng)).encode('utf-8'))
            if rng.random() < 0.6:
                b[rng.randrange(len(b))] = rng.randrange(256)
        else:
            lead = rng.choice([0xc0, 0xc1, 0xc2, 0xdf, 0xe0, 0xe1, 0xec, 0xed, 0xee, 0xef, 0xf0, 0xf1, 0xf3, 0xf4, 0xf5, 0xf7, 0xf8, 0xfc, 0xfe, 0xff, rng.randrange(128, 256)])
            b = bytearray([lead] + [rng.choice([0x7f, 0x80, 0x8f, 0x90, 0x9f, 0xa0, 0xbf, 0xc0, rng.randrange(256)]) for _ in range(3)])
        seqs.append(bytes(b[:4]))
    lines = ['D %s 4' % (s + b'\x22').hex() for s in seqs]
    rc, out, err = run_limited([hexe], input=('\n'.join(lines) + '\n').encode(), timeout=60)
    real = out.decode().split('\n')[:-1]
    model = oracle.run(lines) if oracle else real
    for s, r, m in zip(seqs, real, model):
        stats['unit_cases'] += 1
        want = py_decode(s + b'\x22')
        if r != want:
            agree = False
            violation('utf8dec contradicts Python\'s strict UTF-8 codec on %s: real %r, expected %r' % (s.hex(), r, want), 'utf8dec-spec', cmds='D %s 4\n' % (s + b'\x22').hex())
        elif m != r:
            agree = False
            ctx.broken('correspondence', 'Model/Utf.v vs utf.c (single decode)', 'bytes %s: real %r model %r' % (s.hex(), r, m))
    ctx.ob('K-unit:utf.c equals the extracted model and the RFC 3629 reference on %d cases (%d checksum lines)' % (stats['unit_cases'], stats['unit_lines']), agree)
    return agree


def py_decode(b):
    """first character of b per Python's strict decoder, in the harness's D output format"""
    for l in (1, 2, 3, 4):
        try:
            s = b[:l].decode('utf-8')
            if len(s) == 1:
                return 'D ok %d %d' % (ord(s), l)
        except UnicodeDecodeError:
            pass
    return 'D invalid'


def drill(hexe, oracle, rline, mline):
    """find a single input inside a differing block"""
    p = (rline or mline).split(' ')
    lines = []
    if p[0] == 'E':
        lines = ['e %d' % c for c in range(int(p[1]), int(p[2]))]
    elif p[0] == 'L':
        cand = [0x00, 0x22, 0x27, 0x5c, 0x7f, 0x80, 0x81, 0x8f, 0x90, 0x9f, 0xa0, 0xaf, 0xbf, 0xc0, 0xc1, 0xc2, 0xdf, 0xe0, 0xed, 0xef, 0xf0, 0xf4, 0xf5, 0xff]
        for b2 in cand:
            for b3 in cand:
                for n in (4, 2):
                    lines.append('D %s %d' % (bytes([int(p[1]), int(p[2]), b2, b3, 0]).hex(), n))
    elif p[0] == 'C':
        lo, hi, st = int(p[1]), int(p[2]), int(p[3])
        sub = max(st, ((hi - lo) // 64) // st * st or st)
        blocks = ['C %d %d %d' % (a, min(a + sub, hi), st) for a in range(lo, hi, sub)]
        rc, out, err = run_limited([hexe], input=('\n'.join(blocks) + '\n').encode(), timeout=120)
        r = [l for l in out.decode().split('\n')[:-1] if not l.startswith('V ')]
        m = oracle.run(blocks)
        for a, b in zip(r, m):
            if a != b:
                return 'narrowed to %s (real) / %s (model)' % (a, b)
        return ''
    if not lines:
        return ''
    rc, out, err = run_limited([hexe], input=('\n'.join(lines) + '\n').encode(), timeout=120)
    r = out.decode('latin1').split('\n')[:-1]
    m = oracle.run(lines)
    for l, a, b in zip(lines, r, m):
        if a != b:
            return 'first differing input: %s -> real %r, model %r' % (l, a, b)
    return ''


# ------------------------------------------------------------------------------------- K-CLI
def decl_type_for(target, t):
    return CTYPE_DECL[t]


def string_case_source(i, target, parts, t):
    toks = b' '.join(render_tok(k, its) for k, its in parts)
    src = b'%s s%d[] = %s;\n' % (CTYPE_DECL[t].encode(), i, toks)
    src += b'int g%d = %s;\n' % (i, (GENERIC_STR % '@').encode().replace(b'@', toks))
    src += b'unsigned long z%d = sizeof(%s);\n' % (i, toks)
    return src


def check_string_output(i, data, spec):
    """compare the emitted data of case i with the specification; returns None or a description"""
    t = spec['type']
    w = CTYPE_SIZE[t]
    d = data.get('s%d' % i)
    if d is None:
        return 'no data emitted for the array'
    align, letter, vals, z = d
    if letter == '?':
        return 'unparsed data body %r' % (vals,)
    if LETTER_SIZE[letter] != w:
        return 'element width %d (item %s), expected %d for type %s' % (LETTER_SIZE[letter], letter, w, t)
    vals = vals + [0] * (z // w)
    if vals != spec['elems']:
        return 'elements %r, expected %r' % (vals, spec['elems'])
    g = data.get('g%d' % i)
    if not g or g[2] != [TYPE_CODE[t]]:
        return 'element type code %r, expected %d (%s)' % (g and g[2], TYPE_CODE[t], t)
    zz = data.get('z%d' % i)
    if not zz or zz[2] != [len(spec['elems']) * w]:
        return 'sizeof %r, expected %d' % (zz and zz[2], len(spec['elems']) * w)
    return None


def const_case_source(i, target, tok, t):
    src = b'%s r%d = %s;\n' % (CTYPE_DECL[t].encode(), i, tok)
    src += b'long long v%d = %s;\n' % (i, tok)
    src += b'int g%d = %s;\n' % (i, (GENERIC_CONST % '@').encode().replace(b'@', tok))
    return src


def k_cli(ctx, snap, oracle, stats, samples, nontrivial, violation, thorough):
    rng = ctx.rng
    qbe = lambda src, t: ctx.qbe(src, target=t, timeout=10)
    corr_ok = [True]

    seen_broken = set()

    def broken(name, detail):
        corr_ok[0] = False
        if name in seen_broken:         # one report per class, the first example
            return
        seen_broken.add(name)
        ctx.broken('correspondence', name, detail)

    # ---------------------------------------------------------------- 0. corpus of earlier findings (must stay fixed / known)
    corpus = [
        # (source, target, expected {name: [values]} or 'reject', key, what)
        (b'char s[] = "\\08";', 'x86_64-sysv', {'s': [0, 56, 0]}, 'octal-digit-8', 'fixed D3: 8 is not an octal digit'),
        (b"long long v = '\\xff';", 'x86_64-sysv', {'v': [M64 - 1]}, 'plain-char-const-sign', "fixed D5: '\\xff' is -1 where char is signed"),
        (b"long long v = '\\xff';", 'aarch64', {'v': [255]}, 'plain-char-const-sign', "'\\xff' is 255 where char is unsigned"),
        (b'char s[] = "\xc0\x80";', 'x86_64-sysv', 'reject', 'utf8-overlong', 'fixed D10: overlong UTF-8 rejected'),
        (b'char s[] = "\xed\xa0\x80";', 'x86_64-sysv', 'reject', 'utf8-surrogate-range', 'surrogate D800 rejected'),
        (b'char s[] = "\xed\xbf\xbf";', 'x86_64-sysv', 'reject', 'utf8-surrogate-range', 'surrogate DFFF rejected'),
        (b'char s[] = "\xf4\x90\x80\x80";', 'x86_64-sysv', 'reject', 'above-10ffff-accepted', 'U+110000 rejected'),
        (b"long long v = L'\\x80000000'; long long w = L'\\xffffffff';", 'x86_64-sysv', {'v': [M64 - (1 << 31)], 'w': [M64 - 1]}, 'wide-char-const-sign', "fixed: L'\\xffffffff' is -1 where wchar_t is int"),
        (b"long long v = L'\\x80000000'; long long w = L'\\xffffffff';", 'riscv64', {'v': [M64 - (1 << 31)], 'w': [M64 - 1]}, 'wide-char-const-sign', "fixed: L'\\xffffffff' is -1 where wchar_t is int"),
        (b"long long v = L'\\x80000000'; long long w = L'\\xffffffff';", 'aarch64', {'v': [1 << 31], 'w': [0xffffffff]}, 'wide-char-const-sign', "L'\\xffffffff' is 4294967295 where wchar_t is unsigned"),
        ("long long v = u'\U0001F600';".encode(), 'x86_64-sysv', 'reject', 'char-constant-exceeds-type', "fixed: u'<U+1F600>' does not fit char16_t"),
        ("long long v = u8'\u0100';".encode(), 'x86_64-sysv', 'reject', 'char-constant-exceeds-type', "fixed: u8'<U+0100>' does not fit char8_t"),
        (b'char s[] = "a\x00b";', 'x86_64-sysv', 'reject', 'nul-byte-accepted', 'fixed: NUL byte inside a string literal (heap overflow in stringconcat)'),
        (b'char s[] = "\\\x00";', 'x86_64-sysv', 'reject', 'nul-byte-accepted', 'fixed: backslash NUL reached assert(isodigit) in decodechar'),
    ]
    for src, t, exp, key, what in corpus:
        rc, out, err = qbe(src + b'\n', t)
        stats['strings'] += 1
        if exp == 'reject':
            stats['rejects_expected'] += 1
            if rc == 1 and 'error' in err:
                stats['rejects_seen'] += 1
            else:
                violation('%s: %r gives rc=%d %s' % (what, src, rc, (out or err)[:120]), key, t, src + b'\n', 'reject')
        else:
            data = parse_data(out)
            for nm, vals in exp.items():
                got = data.get(nm)
                if rc != 0 or not got or got[2] != vals:
                    violation('%s: %r gives %r, expected %r' % (what, src, got and got[2], vals), key, t, src + b'\n', expect_data(exp))

    # ---------------------------------------------------------------- 1. valid string literals, batched per target
    ncases = 220 if not thorough else 15000
    batch = 40
    cases = []          # (target, parts, spec)
    for t in TARGETS:
        for _ in range(ncases):
            parts = rand_parts(rng, t)
            sp = spec_string(t, parts)
            if 'reject' in sp:
                continue
            cases.append((t, parts, sp))
        # hand-picked: every scalar-class boundary in every width, each escape form at its limits
        for k in KINDS:
            w = CTYPE_SIZE[kind_type(t, k)]
            lim = (1 << 8 * w) - 1
            cases.append((t, [(k, [('c', c) for c in BOUNDARY_CPS])], None))
            cases.append((t, [(k, [('o', '0'), ('c', ord('8')), ('o', '7'), ('c', ord('9')), ('o', '12'), ('c', ord('8')), ('o', '123'), ('c', ord('4')),
                                   ('o', '377'), ('c', ord('7')), ('o', '000'), ('c', ord('0'))])], None))
            cases.append((t, [(k, [('h', '%x' % lim), ('c', ord('g')), ('h', '%X' % lim), ('c', ord('G')), ('h', '0' * 7 + '1'), ('c', ord('x')),
                                   ('h', 'aB'), ('s', ord('n')), ('h', '7f'), ('s', ord('\\')), ('h', '0')])], None))
            cases.append((t, [(k, [('h', '41')]), ('-', [('c', ord('1'))]), (k, [('o', '1')]), ('-', [('c', ord('2')), ('s', ord('"'))]), ('-', [])], None))
            cases.append((t, [(k, [('s', ord(c)) for c in SIMPLE])], None))
            cases.append((t, [(k, [])], None))
    cases = [(t, p, sp or spec_string(t, p)) for t, p, sp in cases]
    assert all('reject' not in sp for _, _, sp in cases), [c for c in cases if 'reject' in c[2]][:1]

    # tie the Python specification to the Coq specification (extracted Unicode/CLiteral) on every case
    tl = ['T %s %s' % (t, ' '.join('%s:%s' % (k, ','.join(item_text(i) for i in its)) for k, its in parts)) for t, parts, sp in cases]
    tout = oracle.run(tl)
    tie_bad = 0
    for (t, parts, sp), line in zip(cases, tout):
        stats['spec_tie'] += 1
        head, _, toks = line.partition(' | ')
        hp = head.split(' ')
        want_toks = ' '.join(render_tok(k, its).hex() for k, its in parts)
        el = [int(x, 16) for x in hp[3].split(',')] if len(hp) > 3 else None
        if hp[1] != sp['type'] or hp[2] != 'inrange' or el != sp['elems'] or toks != want_toks:
            tie_bad += 1
            if tie_bad == 1:
                broken('Python specification vs Spec/Unicode.v + CLiteral.v (extracted)', 'coq says %r, python says %r / %s' % (line[:300], sp, want_toks[:200]))
    ctx.ob('S:Python specification equals the extracted Coq specification on %d string cases' % len(cases), tie_bad == 0)

    # model predictions
    ml = [model_string(oracle, t, [render_tok(k, its) for k, its in parts]) for t, parts, sp in cases]
    mout = [parse_model_S(l) for l in oracle.run(ml)]

    groups = {}
    for idx, (t, parts, sp) in enumerate(cases):
        groups.setdefault(t, []).append(idx)
    jobs = []
    for t, idxs in groups.items():
        for j in range(0, len(idxs), batch):
            jobs.append((t, idxs[j:j + batch]))

    def run_batch(job):
        t, idxs = job
        src = b''.join(string_case_source(i, t, cases[i][1], cases[i][2]['type']) for i in idxs)
        rc, out, err = qbe(src, t)
        return job, src, rc, out, err
    for (t, idxs), src, rc, out, err in vlib.parallel_map(run_batch, jobs):
        stats['string_runs'] += 1
        if rc != 0:
            # find the case(s) that are rejected
            for i in idxs:
                s1 = string_case_source(i, t, cases[i][1], cases[i][2]['type'])
                rc1, out1, err1 = qbe(s1, t)
                stats['string_runs'] += 1
                judge_string(ctx, i, t, cases[i], mout[i], rc1, out1, err1, s1, stats, nontrivial, violation, broken, samples, qbe)
            continue
        data = parse_data(out)
        for i in idxs:
            judge_string(ctx, i, t, cases[i], mout[i], 0, None, '', None, stats, nontrivial, violation, broken, samples, qbe, data=data)

    # ---------------------------------------------------------------- 2. literals that must be rejected
    rej = []   # (target, source bytes, class, key, model line or None)
    for t in TARGETS:
        n = 40 if not thorough else 1500
        for _ in range(n):
            parts = rand_parts(rng, t, compatible=False)
            toks = [render_tok(k, its) for k, its in parts]
            hard = 'u8' in [p[0] for p in parts]
            rej.append((t, b'unsigned char s[] = ' + b' '.join(toks) + b';\n', 'prefix-mix', 'prefix-mixture-accepted' if hard else 'wide-prefix-mixture-accepted', model_string(oracle, t, toks)))
        # invalid UTF-8 inside a string / constant: corrupt one byte of a valid multi-byte character, or truncate it
        for _ in range(60 if not thorough else 3000):
            c = rand_cp(rng)
            b = bytearray(chr(c).encode('utf-8'))
            if len(b) == 1:
                b = bytearray([rng.randrange(0x80, 0x100)])
            elif rng.random() < 0.5:
                b = b[:rng.randrange(1, len(b))]
            else:
                j = rng.randrange(len(b))
                b[j] = rng.choice([0x00 if j else 0x80, 0x22 if False else 0x7f, 0xc0, 0xff, b[j] ^ 0x80, b[j] ^ 0x40, 0x80 if j == 0 else 0x41])
            bs = bytes(b) + rng.choice([b'', b'a', b'\\n'])
            if py_valid(bs):
                continue
            k = rng.choice(KINDS)
            ty = CTYPE_DECL[kind_type(t, k)].encode()
            if b'\x00' in bs or b'"' in bs or b'\n' in bs:
                continue
            rej.append((t, ty + b' s[] = ' + PREFIX[k] + b'"x' + bs + b'";\n', 'invalid-utf8', 'invalid-utf8-accepted', model_string(oracle, t, [PREFIX[k] + b'"x' + bs + b'"'])))
        # invalid escapes
        for c in list(range(0, 256)) if t == 'x86_64-sysv' else [0, ord('8'), ord('9'), ord('q'), ord('u'), ord('U'), ord('e'), 0x80, 0xff]:
            if chr(c) in SIMPLE or 48 <= c <= 55 or c == ord('x') or c == 10:
                continue
            rej.append((t, b'char s[] = "a\\' + bytes([c]) + b'b";\n', 'invalid-escape', 'invalid-escape-accepted', None))
        rej.append((t, b'char s[] = "\\x";\n', 'invalid-escape', 'invalid-escape-accepted', None))
        rej.append((t, b'char s[] = "\\xg";\n', 'invalid-escape', 'invalid-escape-accepted', None))
        rej.append((t, b"int c = '';\n", 'empty-constant', 'empty-char-constant-accepted', None))
        rej.append((t, b"int c = '\\';\n", 'unterminated', 'unterminated-accepted', None))
        rej.append((t, b'char s[] = "abc;\n', 'unterminated', 'unterminated-accepted', None))
        # a NUL byte in the source of a literal (token texts are C strings): rejected by the scanner
        rej.append((t, b'char s[] = "a\x00b";\n', 'nul-byte', 'nul-byte-accepted', None))
        rej.append((t, b'char s[] = "\x00' + b'b' * 300 + b'";\n', 'nul-byte', 'nul-byte-accepted', None))
        rej.append((t, b"int c = '\x00';\n", 'nul-byte', 'nul-byte-accepted', None))
        rej.append((t, b"int c = L'\\\x00';\n", 'nul-byte', 'nul-byte-accepted', None))
        # element type: a literal must not initialise an array of an incompatible element type (6.7.9p15)
        wrong = {'ushort': 'short', 'uint': 'int', 'int': 'unsigned int'}
        for k in ('u', 'U', 'L'):
            et = kind_type(t, k)
            rej.append((t, b'%s s[] = %s"ab";\n' % (wrong[et].encode(), PREFIX[k]), 'wrong-element-type', 'string-init-wrong-type-accepted', None))
            rej.append((t, b'char s[] = %s"ab";\n' % PREFIX[k], 'wrong-element-type', 'string-init-wrong-type-accepted', None))

    mlines = [r[4] for r in rej if r[4]]
    mres = iter(oracle.run(mlines))
    rej_model = [parse_model_S(next(mres)) if r[4] else None for r in rej]

    def run_rej(r):
        return r, qbe(r[1], r[0])
    for ((t, src, cls, key, _), (rc, out, err)), mm in zip(vlib.parallel_map(run_rej, rej), rej_model):
        stats['rejects_expected'] += 1
        stats['strings'] += 1
        nontrivial.add((t, src))
        if rc == 1 and 'error:' in err and not out.strip():
            stats['rejects_seen'] += 1
            if mm is not None and 'err' not in mm:
                broken('Model/Literal.v accepts what the compiler rejects', '%r (-t %s): real %r, model %r' % (src, t, err.strip()[:100], mm))
            continue
        if rc not in (0, 1):
            violation('compiler dies (rc=%d: %s) on a %s literal instead of diagnosing it: %r' % (rc, err.strip()[:120], cls, src), 'crash-' + cls, t, src, 'reject')
            continue
        if cls == 'prefix-mix' and key.startswith('wide') and rc == 0:
            # implementation-defined (6.4.5p5): only the model has to agree
            if mm is not None and 'err' in mm:
                broken('Model/Literal.v rejects a prefix mixture the compiler accepts', repr(src))
            continue
        # shrink: the smallest source of the same class that is still accepted
        small = src
        if cls == 'prefix-mix':
            ks = re.findall(rb'(u8|u|U|L)?"', src)[::2]
            for i in range(len(ks) - 1):
                for j in range(i + 1, len(ks)):
                    if ks[i] and ks[j] and ks[i] != ks[j]:
                        cand = b'unsigned char s[] = %s"a" %s"b";\n' % (ks[i], ks[j])
                        if qbe(cand, t)[0] == 0 and len(cand) < len(small):
                            small = cand
        elif cls == 'invalid-utf8':
            m = re.search(rb'"x(.*)";', src, re.S)
            body = m.group(1) if m else b''
            for i in range(len(body)):
                for j in range(i + 1, min(i + 4, len(body)) + 1):
                    cand = b'char s[] = "' + body[i:j] + b'";\n'
                    if not py_valid(body[i:j]) and len(cand) < len(small) and qbe(cand, t)[0] == 0:
                        small = cand
        if small is not src:
            rc, out, err = qbe(small, t)
        violation('%s: accepted (rc=%d) and altered instead of rejected: %r -> %s' % (cls, rc, small, out.strip()[:150]), key, t, small, 'reject')

    # ---------------------------------------------------------------- 3. out-of-range escapes (6.4.4.4p9): KNOWN finding, kept detected
    oor = []
    for t in TARGETS:
        for k in KINDS:
            w = CTYPE_SIZE[kind_type(t, k)]
            ty = CTYPE_DECL[kind_type(t, k)].encode()
            for _ in range(3 if not thorough else 100):
                it = rand_escape(rng, w, in_range=False)
                tok = render_tok(k, [('c', ord('a')), it, ('c', ord('z'))])
                oor.append((t, ty + b' s[] = ' + tok + b';\n', 'S', [tok]))
            cw = CTYPE_SIZE[const_type(t, k)] if k != '-' else 1
            cty = CTYPE_DECL[const_type(t, k)].encode()
            for _ in range(2 if not thorough else 60):
                it = rand_escape(rng, cw, in_range=False)
                tok = render_tok(k, [it], b"'")
                oor.append((t, cty + b' c = ' + tok + b';\n', 'K', [tok]))
    oor.append(('x86_64-sysv', b'char s[] = "\\x100";\n', 'S', [b'"\\x100"']))
    oor.append(('x86_64-sysv', b"int c = '\\777';\n", 'K', [b"'\\777'"]))
    mo = oracle.run([model_string(oracle, t, toks) if kind == 'S' else 'K %s %s' % (t, toks[0].hex()) for t, src, kind, toks in oor])

    def run_oor(r):
        return r, qbe(r[1], r[0])
    n_acc = 0
    first_acc = None
    for ((t, src, kind, toks), (rc, out, err)), ml_ in zip(vlib.parallel_map(run_oor, oor), mo):
        stats['rejects_expected'] += 1
        stats['strings' if kind == 'S' else 'consts'] += 1
        nontrivial.add((t, src))
        mm = parse_model_S(ml_) if kind == 'S' else parse_model_K(ml_)
        if rc == 1 and 'error:' in err:
            stats['rejects_seen'] += 1
            if 'err' not in mm:
                broken('Model/Literal.v accepts an out-of-range escape the compiler rejects', repr(src))
            continue
        if rc != 0:
            violation('compiler dies (rc=%d) on an out-of-range escape: %r' % (rc, src), 'crash-escape-range', t, src, 'reject')
            continue
        n_acc += 1
        if first_acc is None or len(src) < len(first_acc[0]):
            first_acc = (src, out.strip())
        # accepted: the model must predict the truncated value exactly
        d = parse_data(out)
        got = d.get('s' if kind == 'S' else 'c')
        if kind == 'S':
            gv = got[2] + [0] * (got[3] // LETTER_SIZE[got[1]]) if got and got[1] != '?' else None
            if 'err' in mm or gv != mm['elems']:
                broken('Model/Literal.v vs compiler on an out-of-range escape (truncating store)', '%r: real %r model %r' % (src, gv, mm))
        else:
            if 'err' in mm or not got or got[2] != [mm['value'] % (1 << 64)]:
                broken('Model/Literal.v vs compiler on an out-of-range escape in a constant', '%r: real %r model %r' % (src, got, mm))
    if n_acc:
        src, out = first_acc
        violation('an octal/hexadecimal escape whose value does not fit the element type is accepted and truncated instead of '
                  'rejected (C11 6.4.4.4p9), %d of %d generated cases; e.g. %r -> %s' % (n_acc, len(oor), src.strip(), out[:100]),
                  'escape-out-of-range-accepted', 'x86_64-sysv', b'char s[] = "\\x100";\nint c = \'\\777\';\n', 'reject')

    # ---------------------------------------------------------------- 4. character constants
    k_consts(ctx, oracle, stats, samples, nontrivial, violation, broken, thorough, qbe)

    # ---------------------------------------------------------------- 4b. string literal OBJECTS: equal-length wide literals with a common beginning
    # (the string pool may share storage only between literals whose whole contents are equal)
    POOL = [('const unsigned *', 'U', ['abcd', 'abXY', 'abcd', 'abcD']), ('const unsigned short *', 'u', ['xxxx1', 'xxxx2', 'xxxy1', 'xxxx1']),
            ('const char *', '', ['same-head-A', 'same-head-B', 'same-head-A']), ('const unsigned char *', 'u8', ['q1', 'q2'])]
    pool_src = ''
    pool_want = {}
    for k, (ty, pre, lits) in enumerate(POOL):
        for j, l in enumerate(lits):
            pool_src += '%sp%d_%d = %s"%s";\n' % (ty, k, j, pre, l)
            pool_want['p%d_%d' % (k, j)] = [ord(c) for c in l] + [0]
    okpool = True
    for t in TARGETS:
        rc, out, err = qbe(pool_src, t)
        stats['cli_cases'] = stats.get('cli_cases', 0) + 1
        if rc != 0:
            okpool = False
            violation('pointers to string literals rejected on %s: %s' % (t, err[:160]), 'string-pool', t, pool_src.encode(), 'accept')
            continue
        datas = {}
        for dm in re.finditer(r'^data \$(\.Lstring\.\d+) = align \d+ \{ (.*?) ?\}\s*$', out, re.M):
            body = dm.group(2).strip()
            mb = re.match(r'^b "((?:[^"\\]|\\[0-7]{3})*)",?$', body)
            mi = re.match(r'^([bhwl]) ((?:\d+ ?)+),?\s*,?$', body)
            if mb:
                datas[dm.group(1)] = (1, 'b', parse_bstring(mb.group(1)), 0)
            elif mi:
                datas[dm.group(1)] = (1, mi.group(1), [int(x) for x in mi.group(2).split()], 0)
        ptr = dict(re.findall(r'^(?:export )?data \$(\w+) = align \d+ \{ l \$([\w.]+), \}', out, re.M))
        for name, want in sorted(pool_want.items()):
            d = datas.get(ptr.get(name, ''), None)
            got = (d[2] + [0] * (d[3] // LETTER_SIZE.get(d[1], 1))) if d and isinstance(d[2], list) else None
            if got != want:
                okpool = False
                violation('the string literal object %s points to holds %r, the literal is %r (%s)' % (name, got, want, t), 'string-pool', t, pool_src.encode(), 'pool')
                break
    # a wide literal whose bytes equal an earlier narrow literal's must still be aligned for its element type
    al_src = ('const char *n1 = "A\\0\\0"; const unsigned short *w1 = u"A"; const char *n2 = "\\0\\0\\0"; const unsigned *w2 = U""; const void *w3 = L"";\n'
              'const char *n3 = "ab\\0"; const unsigned short *w4 = u"\\x6261";\nconst unsigned short *fw(void) { return u"A"; }\n')
    for t in TARGETS:
        rc, out, err = qbe(al_src, t)
        stats['cli_cases'] = stats.get('cli_cases', 0) + 1
        if rc != 0:
            okpool = False
            violation('pointers to string literals rejected on %s: %s' % (t, err[:160]), 'string-pool', t, al_src.encode(), 'accept')
            continue
        aligns = dict((m.group(1), int(m.group(2))) for m in re.finditer(r'^data \$(\.Lstring\.\d+) = align (\d+) \{', out, re.M))
        ptr = dict(re.findall(r'^(?:export )?data \$(\w+) = align \d+ \{ l \$([\w.]+), \}', out, re.M))
        fret = re.findall(r'ret \$(\.Lstring\.\d+)', out)
        for name, need in (('w1', 2), ('w2', 4), ('w3', 4), ('w4', 2)):
            if aligns.get(ptr.get(name, ''), 0) < need:
                okpool = False
                violation('the string literal object %s points to is defined with alignment %s, its element type needs %d (%s)' % (name, aligns.get(ptr.get(name, '')), need, t),
                          'string-pool-alignment', t, al_src.encode(), 'pool')
                break
        if fret and aligns.get(fret[0], 0) < 2:
            okpool = False
            violation('the string literal object returned by fw() is defined with alignment %s, its element type needs 2 (%s)' % (aligns.get(fret[0]), t), 'string-pool-alignment', t, al_src.encode(), 'pool')
    ctx.ob('K-CLI:string literal objects of equal length with a common beginning keep their own contents (%d literals x %d targets)' % (len(pool_want), len(TARGETS)), okpool)

    # ---------------------------------------------------------------- 5. scanner model vs the real tokeniser (-E token dump)
    k_scan(ctx, snap, oracle, stats, violation, broken, thorough)

    # ---------------------------------------------------------------- 6. gcc as a second opinion for the Python specification
    gcc_second_opinion(ctx, cases, stats)

    ctx.ob('K-CLI:%d string declarations, %d constants, %d/%d expected rejections seen; emitted data equals the specification and the extracted model'
           % (stats['strings'], stats['consts'], stats['rejects_seen'], stats['rejects_expected']),
           corr_ok[0] and not [v for v in ctx.violations if v['key'] not in ('escape-out-of-range-accepted',)])


def py_valid(bs):
    try:
        bs.decode('utf-8')
        return True
    except UnicodeDecodeError:
        return False


def judge_string(ctx, i, t, case, mm, rc, out, err, src, stats, nontrivial, violation, broken, samples, qbe, data=None):
    _, parts, sp = case
    stats['strings'] += 1
    stats['by_target'][t] = stats['by_target'].get(t, 0) + 1
    mk = merge_kinds([p[0] for p in parts])
    stats['by_kind'][mk] = stats['by_kind'].get(mk, 0) + 1
    trivial = True
    for _, its in parts:
        for it in its:
            if it[0] == 'c':
                stats['by_len'][len(chr(it[1]).encode('utf-8'))] += 1
                if it[1] >= 0x80:
                    trivial = False
            else:
                stats['escapes'][it[0]] += 1
                trivial = False
    if len(parts) > 1 or mk != '-':
        trivial = False
    toks = b' '.join(render_tok(k, its) for k, its in parts)
    if not trivial:
        nontrivial.add((t, toks))
    one_src = string_case_source(i, t, parts, sp['type'])
    if data is None:
        if rc != 0:
            small = shrink_parts(t, parts, lambda ps: reject_pred(qbe, t, ps))
            stoks = b' '.join(render_tok(k, its) for k, its in small)
            s2 = spec_string(t, small)
            violation('valid string literal rejected (rc=%d: %s): %s' % (rc, err.strip()[:100], stoks[:200]), 'valid-string-rejected', t,
                      string_case_source(0, t, small, s2['type']), expect_data({'s0': s2['elems']}))
            return
        data = parse_data(out)
    bad = check_string_output(i, data, sp)
    if bad:
        def pred(ps):
            s2 = spec_string(t, ps)
            if 'reject' in s2:
                return False
            r, o, e = qbe(string_case_source(0, t, ps, s2['type']), t)
            return r == 0 and check_string_output(0, parse_data(o), s2) is not None
        small = shrink_parts(t, parts, pred)
        s2 = spec_string(t, small)
        ssrc = string_case_source(0, t, small, s2['type'])
        r, o, e = qbe(ssrc, t)
        why = check_string_output(0, parse_data(o), s2) or bad
        violation('string literal has the wrong elements/type on %s: %s; %s' % (t, why, ssrc.split(b'\n')[0][:200]), 'string-elements', t, ssrc,
                  expect_data({'s0': s2['elems'], 'g0': [TYPE_CODE[s2['type']]], 'z0': [len(s2['elems']) * CTYPE_SIZE[s2['type']]]}))
        return
    # the model must predict the same
    if 'err' in mm or mm['elems'] != sp['elems'] or mm['type'] != sp['type'] or mm['size'] != len(sp['elems']):
        broken('Model/Literal.v stringconcat vs compiler/specification', '%s (-t %s): model %r, real = spec = %r' % (toks[:200], t, mm, sp))
    elif mm['alloc'] < mm['size']:
        broken('Model/Literal.v predicts a buffer smaller than what is written', '%s: %r' % (toks[:200], mm))
    if len(samples) < 5 and not trivial and rc == 0:
        samples.append({'target': t, 'decl': one_src.split(b'\n')[0].decode('utf-8', 'replace')[:160], 'elements': sp['elems'][:12]})


def reject_pred(qbe, t, ps):
    s2 = spec_string(t, ps)
    if 'reject' in s2:
        return False
    r, o, e = qbe(string_case_source(0, t, ps, s2['type']), t)
    return r != 0


def shrink_parts(t, parts, bad):
    """greedy removal of parts and items while bad(parts) stays true and the spelling stays unambiguous"""
    parts = [(k, list(its)) for k, its in parts]
    changed = True
    while changed:
        changed = False
        for pi in range(len(parts)):
            if len(parts) > 1:
                cand = parts[:pi] + parts[pi + 1:]
                if bad(cand):
                    parts = cand
                    changed = True
                    break
            k, its = parts[pi]
            for ii in range(len(its)):
                nits = its[:ii] + its[ii + 1:]
                if ii > 0 and ii < len(its) - 1 and extends(its[ii - 1], item_bytes(its[ii + 1])):
                    continue
                cand = parts[:pi] + [(k, nits)] + parts[pi + 1:]
                if bad(cand):
                    parts = cand
                    changed = True
                    break
            if changed:
                break
    return parts


def k_consts(ctx, oracle, stats, samples, nontrivial, violation, broken, thorough, qbe):
    rng = ctx.rng
    cases = []   # (target, kind, item or None, raw token bytes)
    for t in TARGETS:
        for k in KINDS:
            # exhaustive: every byte value as octal and as hex escape, every simple escape
            for v in range(256):
                cases.append((t, k, ('o', '%o' % v if v % 3 else '%03o' % v)))
                cases.append((t, k, ('h', rand_hex_digits(rng, v, rng.choice([1, 2, 2, 3, 8])))))
            for c in SIMPLE:
                cases.append((t, k, ('s', ord(c))))
            # every ASCII character as itself
            for v in range(1, 128):
                if v not in FORBIDDEN_ASCII:
                    cases.append((t, k, ('c', v)))
            for c in BOUNDARY_CPS + [rand_cp(rng) for _ in range(40 if not thorough else 6000)]:
                cases.append((t, k, ('c', c)))
            w = CTYPE_SIZE[const_type(t, k)]
            if w > 1:
                for v in [0x100, 0x7fff, 0x8000, 0xffff] + ([0x10000, 0x7fffffff, 0x80000000, 0xfffffffe, 0xffffffff] if w == 4 else []):
                    cases.append((t, k, ('h', rand_hex_digits(rng, v, rng.choice([1, 4, 8])))))
    # expected
    recs = []
    for t, k, it in cases:
        sp = spec_const(t, k, it)
        tok = render_tok(k, [it], b"'")
        recs.append(dict(t=t, k=k, it=it, sp=sp, tok=tok))
    # Coq spec tie
    ql = ['Q %s %s %s' % (r['t'], r['k'], item_text(r['it'])) for r in recs]
    qo = oracle.run(ql)
    tie_bad = 0
    for r, line in zip(recs, qo):
        head, _, tokhex = line.partition(' | ')
        hp = head.split(' ')
        sp = r['sp']
        if hp[1] == 'unspecified':
            okk = 'value' not in sp
        else:
            okk = 'value' in sp and hp[1] == sp['type'] and int(hp[2], 16) == sp['value'] and int(hp[3][4:], 16) == sp['value'] % M64
        if not okk or tokhex != r['tok'].hex():
            tie_bad += 1
            if tie_bad == 1:
                broken('Python specification vs Spec/CLiteral.v (character constants)', '%s: coq %r python %r' % (r['tok'], line, sp))
    ctx.ob('S:Python specification equals the extracted Coq specification on %d character constants' % len(recs), tie_bad == 0)
    mo = oracle.run(['K %s %s' % (r['t'], r['tok'].hex()) for r in recs])
    for r, l in zip(recs, mo):
        r['model'] = parse_model_K(l)

    accept = [r for r in recs if 'value' in r['sp'] or r['sp'].get('unspecified')]
    other = [r for r in recs if not ('value' in r['sp'] or r['sp'].get('unspecified'))]
    groups = {}
    for idx, r in enumerate(accept):
        groups.setdefault(r['t'], []).append(idx)
    jobs = []
    for t, idxs in groups.items():
        for j in range(0, len(idxs), 60):
            jobs.append((t, idxs[j:j + 60]))

    def run_batch(job):
        t, idxs = job
        src = b''.join(const_case_source(i, t, accept[i]['tok'], accept[i]['sp']['type']) for i in idxs)
        return job, qbe(src, t)

    def judge(i, r, data, rc, err):
        stats['consts'] += 1
        sp, mm, t = r['sp'], r['model'], r['t']
        if not (r['k'] == '-' and r['it'][0] == 'c' and r['it'][1] < 0x80):
            nontrivial.add((t, r['tok']))
        if rc != 0:
            violation('valid character constant rejected on %s (rc=%d %s): %s' % (t, rc, err.strip()[:80], r['tok']), 'valid-const-rejected', t, b'long long v = %s;\n' % r['tok'],
                      expect_data({'v': [sp['value'] % M64]}) if 'value' in sp else 'accept')
            return
        raw, val, g = data.get('r%d' % i), data.get('v%d' % i), data.get('g%d' % i)
        if 'value' in sp:
            if not g or g[2] != [TYPE_CODE[sp['type']]]:
                violation('character constant %s has type code %r on %s, expected %s' % (r['tok'], g and g[2], t, sp['type']), 'const-type', t,
                          b'int g = %s;\n' % (GENERIC_CONST % '@').encode().replace(b'@', r['tok']), expect_data({'g': [TYPE_CODE[sp['type']]]}))
                return
            if not val or val[2] != [sp['value'] % M64]:
                key = 'plain-char-const-sign' if r['k'] == '-' else ('wide-char-const-sign' if sp['value'] < 0 else 'const-value')
                gv = val and val[2] and (val[2][0] - M64 if val[2][0] >= 1 << 63 else val[2][0])
                violation('character constant %s converted to long long is %r on %s, C11 6.4.4.4 gives %d (type %s)' % (r['tok'].decode('latin1'), gv, t, sp['value'], sp['type']),
                          key, t, b'long long v = %s;\n' % r['tok'], expect_data({'v': [sp['value'] % M64]}))
                # still compare the model below
        # exact model comparison on the raw constant
        if 'err' in mm:
            broken('Model/Literal.v charconst rejects what the compiler accepts', '%s -t %s: %r' % (r['tok'], t, mm))
        elif not raw or raw[1] == '?' or raw[2] != [mm['value']] or mm['type'] != sp['type']:
            broken('Model/Literal.v charconst vs compiler', '%s -t %s: raw data %r, model %r' % (r['tok'], t, raw, mm))

    for (t, idxs), (rc, out, err) in vlib.parallel_map(run_batch, jobs):
        stats['const_runs'] += 1
        if rc != 0:
            for i in idxs:
                rc1, out1, err1 = qbe(const_case_source(i, t, accept[i]['tok'], accept[i]['sp']['type']), t)
                stats['const_runs'] += 1
                judge(i, accept[i], parse_data(out1), rc1, err1)
            continue
        data = parse_data(out)
        for i in idxs:
            judge(i, accept[i], data, 0, '')
    if len(samples) < 8:
        samples.append({'constants': [r['tok'].decode('latin1') for r in accept[:3] + accept[600:603]]})

    # constants the specification does not allow: out-of-range escapes are handled in section 3; a source character that
    # does not fit the constant's type must be rejected or yield a value of that type
    def run_one(r):
        src = const_case_source(0, r['t'], r['tok'], r['sp']['type'])
        return r, src, qbe(src, r['t'])
    unrep = [r for r in other if r['sp'].get('reject') == 'unrepresentable']
    for r, src, (rc, out, err) in vlib.parallel_map(run_one, unrep):
        stats['consts'] += 1
        nontrivial.add((r['t'], r['tok']))
        mm = r['model']
        if rc == 1 and 'error:' in err:
            if 'err' not in mm:
                broken('Model/Literal.v accepts a constant the compiler rejects', repr(r['tok']))
            continue
        d = parse_data(out) if rc == 0 else {}
        val = d.get('v0')
        bits = 8 * CTYPE_SIZE[r['sp']['type']]
        if rc != 0 or not val or val[2][0] >= 1 << bits:
            violation('character constant %s has type %s (%d bits) but the value %r on %s: a character that needs more than one code unit must be '
                      'rejected or given a value of the type (gcc, clang: error)' % (r['tok'].decode('utf-8', 'replace'), r['sp']['type'], bits, val and val[2], r['t']),
                      'char-constant-exceeds-type', r['t'], b"long long v = %s;\n" % r['tok'], 'reject-or-below:%d' % (1 << bits))
        raw = d.get('r0')
        if 'err' in mm or not raw or raw[2] != [mm['value']]:
            broken('Model/Literal.v charconst vs compiler (unrepresentable character)', '%s: raw %r model %r' % (r['tok'], raw, mm))

    # raw bytes: every byte value alone between quotes, all prefixes; bytes >= 0x80 are not UTF-8 and must be rejected
    rawc = []
    for t in TARGETS:
        for k in KINDS:
            for b in range(256):
                if b in (0, 10, 39, 92):
                    continue
                rawc.append((t, k, b))

    def run_raw(c):
        t, k, b = c
        tok = PREFIX[k] + b"'" + bytes([b]) + b"'"
        return c, tok, qbe(b'long long v0 = ' + tok + b';\n', t)
    rl = oracle.run(['K %s %s' % (t, (PREFIX[k] + b"'" + bytes([b]) + b"'").hex()) for t, k, b in rawc])
    for ((t, k, b), tok, (rc, out, err)), ml_ in zip(vlib.parallel_map(run_raw, rawc), rl):
        stats['consts'] += 1
        mm = parse_model_K(ml_)
        if b >= 0x80:
            nontrivial.add((t, tok))
            stats['rejects_expected'] += 1
            if rc == 1 and 'invalid UTF-8' in err:
                stats['rejects_seen'] += 1
                if mm.get('err') != 'utf8':
                    broken('Model/Literal.v vs compiler on a raw byte constant', '%r: model %r' % (tok, mm))
            else:
                violation('a byte >= 0x80 that is not UTF-8 is accepted in a character constant: %r (rc=%d) %s' % (tok, rc, out.strip()[:80]), 'invalid-utf8-accepted', t, b'long long v = ' + tok + b';\n', 'reject')
        else:
            d = parse_data(out)
            if rc != 0 or not d.get('v0') or d['v0'][2] != [b]:
                violation('character constant of the ASCII byte %d is %r (rc=%d)' % (b, d.get('v0'), rc), 'const-value', t, b'long long v = ' + tok + b';\n', expect_data({'v': [b]}))
            elif mm.get('value') != b:
                broken('Model/Literal.v vs compiler on an ASCII constant', '%r: model %r' % (tok, mm))


def k_scan(ctx, snap, oracle, stats, violation, broken, thorough):
    """scan.c escape/charconst/stringlit: the model's token boundaries and acceptance vs the real tokeniser."""
    rng = ctx.rng
    inputs = []
    alphabet = [b'a', b'8', b'0', b'7', b'x', b'\\', b'"', b"'", b'\\x', b'\\0', b'\\12', b'\\1234', b'\\xg', b'\\n', b'\\"', b"\\'", b'\\\\', b'?', b'\\?', b'\xc3\xa9', b' ', b'u', b'L', b'\\q', b'\\9', b'\\8']
    for _ in range(300 if not thorough else 12000):
        q = rng.choice([b'"', b"'"])
        pre = rng.choice([b'', b'', b'u8', b'u', b'U', b'L'])
        body = b''.join(rng.choice(alphabet) for _ in range(rng.randint(0, 8)))
        tail = rng.choice([q + b';', q + b' x', b'', q])
        inputs.append(pre + q + body + tail)
    inputs += [b'"\\\x00";', b'"a\\', b'"\\x"', b"'\\x41g'", b'u8"\\377\\400"', b'"\\0000"', b"L'\\xffffffff1'", b'u"x" y', b'"\\1\\12\\123\\1234";']
    mo = oracle.run(['X %s' % i.hex() for i in inputs])

    def one(inp):
        return inp, ctx.qbe(inp + b'\n', extra=['-E'], timeout=10)
    bad = 0
    for (inp, (rc, out, err)), ml_ in zip(vlib.parallel_map(one, inputs), mo):
        stats['scan_cases'] += 1
        first = None
        for l in out.split('\n'):
            p = l.split('\t')
            if len(p) >= 5:
                first = p[4]
                break
        mp = ml_.split(' ')
        if mp[1] == 'err':
            # the model says the scanner errors out before completing the first token
            if rc == 0 or 'error:' not in err:
                bad += 1
                if bad == 1:
                    broken('Model/Literal.v scan_literal vs scan.c', 'input %r: model rejects, real rc=%d first token %r' % (inp, rc, first))
        else:
            tok = bytes.fromhex(mp[2])
            if b'\x00' in tok:
                continue        # the dump prints the text as a C string
            if first is None or first.encode('utf-8', 'surrogateescape') != tok:
                # the first token is complete before any later error only if the dump reached it
                if rc != 0 and first is None:
                    # error came from a later token on the same line (dump is written token by token): accept only when the error location is past the token
                    m = re.search(r':1:(\d+): error', err)
                    if m and int(m.group(1)) > len(tok):
                        continue
                bad += 1
                if bad == 1:
                    broken('Model/Literal.v scan_literal vs scan.c', 'input %r: model token %r, real first token %r (rc=%d %s)' % (inp, tok, first, rc, err.strip()[:80]))
    ctx.ob('K-CLI:scanner model agrees with the token dump on %d literal-like inputs' % len(inputs), bad == 0)


def gcc_second_opinion(ctx, cases, stats):
    """validate the Python specification (element values) against gcc on x86-64 for a sample of the valid cases"""
    if sh('which gcc')[0] != 0:
        ctx.notes.append('gcc not available: no second opinion for the specification')
        return
    def plain(parts):      # gcc's preprocessor has its own ideas about raw control characters (CR ends a line)
        return not any(it[0] == 'c' and (it[1] < 0x20 or it[1] == 0x7f) for _, its in parts for it in its)
    sel = [c for c in cases if c[0] == 'x86_64-sysv' and plain(c[1])][:150 if ctx.tier != 'thorough' else 3000]
    src = [b'#include <stdio.h>\n']
    gtype = {'char': 'char', 'uchar': 'unsigned char', 'ushort': 'unsigned short', 'uint': 'unsigned int', 'int': 'int'}
    for i, (t, parts, sp) in enumerate(sel):
        toks = b' '.join(render_tok(k, its) for k, its in parts)
        ty = gtype[sp['type']] if sp['type'] != 'uchar' else 'char'       # gcc 12: u8 strings are arrays of char
        src.append(b'static const %s a%d[] = %s;\n' % (ty.encode(), i, toks))
    src.append(b'int main(void) {\n')
    for i, (t, parts, sp) in enumerate(sel):
        w = CTYPE_SIZE[sp['type']]
        mask = (1 << 8 * w) - 1
        src.append(b'printf("%%d:", %d); for (unsigned j = 0; j < sizeof a%d / sizeof a%d[0]; ++j) printf(" %%llu", (unsigned long long)a%d[j] & %dull); printf("\\n");\n' % (i, i, i, i, mask))
    src.append(b'return 0; }\n')
    d = ctx.tmp
    p = os.path.join(d, 'gccspec.c')
    open(p, 'wb').write(b''.join(src))
    rc, o, e = sh(['gcc', '-std=gnu2x', '-w', '-o', os.path.join(d, 'gccspec'), p], timeout=120)
    if rc != 0:
        ctx.notes.append('gcc second opinion skipped: ' + txt(e)[:600])
        return
    rc, o, e = sh([os.path.join(d, 'gccspec')], timeout=30)
    agree = True
    for line in txt(o).split('\n'):
        if ':' not in line:
            continue
        i, _, rest = line.partition(':')
        vals = [int(x) for x in rest.split()]
        stats['gcc_cases'] += 1
        if vals != sel[int(i)][2]['elems']:
            agree = False
            ctx.notes.append('gcc disagrees with the specification of this check on %r: gcc %r spec %r' % (sel[int(i)][1], vals, sel[int(i)][2]['elems']))
    ctx.ob('S:gcc (x86-64) gives the same elements as the specification on %d string literals' % stats['gcc_cases'], agree and stats['gcc_cases'] > 0)
    if not agree:
        ctx.broken('correspondence', 'specification of the check vs gcc', 'see notes')


def replay(ctx, path):
    snap = ctx.snapshot()
    data = open(path, 'rb').read()
    if path.endswith('.cmds'):
        hexe = os.path.join(ctx.tmp, 'h14')
        hdir = os.path.join(vlib.VERIF, 'harness/c14')
        e = ctx.cc(hexe, [os.path.join(hdir, 'harness.c')], incl=[os.path.join(hdir, 'inc'), snap])
        if e:
            print(e)
            return 1
        rc, out, err = run_limited([hexe], input=data, timeout=120)
        print(out.decode('latin1'), err.decode('latin1'))
        lines = data.decode().split('\n')
        fail = rc != 0 or b'\nV ' in b'\n' + out
        for l, o in zip(lines, out.decode('latin1').split('\n')):
            if l.startswith('D '):
                want = py_decode(bytes.fromhex(l.split(' ')[1]))
                print('expected (strict UTF-8):', want)
                fail = fail or o != want
        return 1 if fail else 0
    head, _, body = data.partition(b'\n')
    m = re.match(rb'//! target=(\S+) expect=(\S+)( hex)?', head)
    if not m:
        print('not a C14 replay file')
        return 1
    t, expect = m.group(1).decode(), m.group(2).decode()
    src = bytes.fromhex(body.strip().decode()) if m.group(3) else body
    rc, out, err = ctx.qbe(src, target=t)
    print('target %s rc %d\n%s%s' % (t, rc, out, err))
    print('expected:', expect)
    rejected = rc == 1 and 'error:' in err
    if expect == 'reject':
        return 0 if rejected else 1
    if expect == 'accept':
        return 0 if rc == 0 else 1
    d = parse_data(out) if rc == 0 else {}
    if expect.startswith('reject-or-below:'):
        lim = int(expect.split(':')[1])
        return 0 if rejected or (rc == 0 and all(x[2] != '?' and all(v < lim for v in x[2]) for x in d.values())) else 1
    if expect.startswith('data:'):
        for kv in expect[5:].split(';'):
            k, _, vs = kv.partition('=')
            want = [int(x) for x in vs.split(',')] if vs else []
            got = d.get(k)
            if not got or got[1] == '?':
                return 1
            vals = got[2] + [0] * (got[3] // LETTER_SIZE[got[1]])
            if vals != want:
                print('%s: got %r want %r' % (k, vals, want))
                return 1
        return 0
    return 1
