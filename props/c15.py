# C15 - a switch transfers control to exactly the matching case.   DESIGN.md section 5 (C15).
#
#  K-unit  harness/c15 on the snapshot's tree.c: every insertion order of <= 8 distinct keys
#          (exhaustive) and long random sequences; after every treeinsert the real tree must equal the
#          extracted model shape- and height-exactly, and the `new` flag must agree.  The decision
#          "violation or model drift" is taken against the specification implemented here in Python
#          (search-tree order, AVL balance, stored = real heights, key set, new = key was absent).
#  K-CLI   generated switch statements through the snapshot's cproc-qbe; the emitted ladder is parsed
#          out of the IL, executed for probe values with QBE's comparison semantics and compared with
#          (a) the C semantics computed here (spec), (b) the extracted model's `search` on the tree the
#          model builds from the same case constants, (c) the model's tree shape, (d) the fib bound on
#          the depth.  Duplicate case/default templates must be rejected.
import itertools, json, os, re
import vlib
from vlib import run_limited

LEVEL = 'proof'
MODULE = 'Properties_C15'
M32 = (1 << 32) - 1
M64 = (1 << 64) - 1


def toT(w, sgn, c):
    """C11 6.3.1.3 on a two's complement target (the specification of the conversion)."""
    r = c % (1 << w)
    return r - (1 << w) if sgn and r >= 1 << (w - 1) else r


def fib(n):
    a, b = 0, 1
    for _ in range(n):
        a, b = b, a + b
    return a


# =============================================================================== unit level
def parse_dump(tokens):
    """preorder tokens -> nested tuple (key, h, l, r) / None; iterative (trees are shallow)"""
    pos = [0]

    def rec():
        t = tokens[pos[0]]
        pos[0] += 1
        if t == '-':
            return None
        k, h = t.split(':')
        l = rec()
        r = rec()
        return (int(k), int(h), l, r)
    t = rec()
    if pos[0] != len(tokens):
        raise ValueError('trailing tokens')
    return t


def tree_spec_errors(t):
    """the specification of the index: strict search-tree order, AVL balance, stored height = real height.
    Returns (list of errors, real height, sorted key list)."""
    errs = []
    keys = []

    def rec(n, lo, hi):
        if n is None:
            return 0
        k, h, l, r = n
        if not (lo < k < hi):
            errs.append('order: key %d outside (%d,%d)' % (k, lo, hi))
        hl = rec(l, lo, k)
        keys.append(k)
        hr = rec(r, k, hi)
        if abs(hl - hr) > 1:
            errs.append('balance: node %d has subtree heights %d/%d' % (k, hl, hr))
        if h != 1 + max(hl, hr):
            errs.append('height: node %d stores %d, real height %d' % (k, h, 1 + max(hl, hr)))
        return 1 + max(hl, hr)
    ht = rec(t, -1, 1 << 64)
    return errs, ht, keys


def check_real_history(seq_lines, real_lines):
    """Check the harness output of ONE history (starting with R) against the specification.
    Returns None or a description of the first deviation."""
    present = set()
    ri = 0
    for l in seq_lines:
        if l == 'R':
            present = set()
            continue
        if ri >= len(real_lines):
            return 'harness output ends early (crash?) at %r' % l
        out = real_lines[ri]
        ri += 1
        op, k = l.split(' ')
        k = int(k)
        if op in ('I', 'i'):
            want_new = 0 if k in present else 1
            present.add(k)
            if op == 'i':
                if out.strip() != str(want_new):
                    return 'treeinsert(%d): new=%s, key was %s' % (k, out.strip(), 'absent' if want_new else 'present')
                continue
            try:
                head, d = out.split('|')
                t = parse_dump(d.split())
            except Exception as e:
                return 'unparsable harness line %r (%s)' % (out[:80], e)
            if int(head) != want_new:
                return 'treeinsert(%d): new=%s, key was %s' % (k, head.strip(), 'absent' if want_new else 'present')
            errs, ht, keys = tree_spec_errors(t)
            if errs:
                return 'after treeinsert(%d): %s' % (k, errs[0])
            if keys != sorted(present):
                return 'after treeinsert(%d): key set %r, expected %r' % (k, keys[:10], sorted(present)[:10])
            if fib(ht + 2) - 1 > len(keys):
                return 'height %d with only %d nodes' % (ht, len(keys))
    return None


def strip_model(line):
    """model line '<new> <pathlen> |dump' -> ('<new> |dump', pathlen)"""
    head, _, d = line.partition('|')
    p = head.split()
    if len(p) == 2 and _:
        return '%s |%s' % (p[0], d), int(p[1])
    if len(p) == 2:
        return p[0], int(p[1])
    return line, 0


def run_lines(exe, lines, timeout=300):
    rc, out, err = run_limited([exe], input=('\n'.join(lines) + '\n').encode(), timeout=timeout, cap=1 << 30)
    return rc, out.decode('latin1').split('\n')[:-1]


def ddmin(items, bad):
    n = 2
    while len(items) >= 2:
        chunk = max(1, len(items) // n)
        reduced = False
        for i in range(0, len(items), chunk):
            cand = items[:i] + items[i + chunk:]
            if cand and bad(cand):
                items = cand
                n = max(n - 1, 2)
                reduced = True
                break
        if not reduced:
            if chunk == 1:
                break
            n = min(n * 2, len(items))
    return items


SPECIAL8 = [0, 1, (1 << 31) - 1, 1 << 31, 1 << 32, (1 << 63) - 1, 1 << 63, M64]


def random_keys(rng, n):
    centres = [0, 1 << 31, 1 << 32, 1 << 63, M64, rng.getrandbits(64)]
    mode = rng.choice(['cluster', 'cluster', 'asc', 'desc', 'uniform', 'zigzag'])
    keys = []
    base = rng.choice(centres)
    for i in range(n):
        if keys and rng.random() < 0.2:
            keys.append(rng.choice(keys))
        elif mode == 'cluster':
            keys.append((rng.choice(centres) + rng.randint(-40, 40)) & M64)
        elif mode == 'asc':
            keys.append((base - n // 2 + i) & M64)
        elif mode == 'desc':
            keys.append((base + n // 2 - i) & M64)
        elif mode == 'zigzag':
            keys.append((base + (i if i % 2 else -i)) & M64)
        else:
            keys.append(rng.getrandbits(64))
    return keys


def unit_level(ctx, snap, oracle, stats, samples, nontrivial):
    thorough = ctx.tier == 'thorough'
    hexe = os.path.join(ctx.tmp, 'h15')
    e = ctx.cc(hexe, [os.path.join(vlib.VERIF, 'harness/c15/harness.c'), os.path.join(snap, 'tree.c'), os.path.join(snap, 'util.c')],
               incl=[snap])
    if e:
        ctx.broken('correspondence', 'c15 unit harness does not build against tree.c', e)
        return
    # MAXH is re-read from the source: the proved bound needs at least 93 slots
    src = open(os.path.join(snap, 'tree.c')).read()
    m = re.search(r'#define\s+MAXH\s+\((.*)\)', src)
    maxh = None
    if m:
        try:
            maxh = int(eval(re.sub(r'sizeof\s*\(\s*void\s*\*\s*\)', '8', m.group(1)).replace('/', '//'), {'__builtins__': {}}))
        except Exception:
            maxh = None
    okm = maxh is not None and maxh >= 93 and re.search(r'void\s*\*\*\s*a\s*\[\s*MAXH\s*\]', src) is not None
    ctx.ob('G:tree.c path array a[MAXH], MAXH=%r >= 93 (C15_path_fits)' % maxh, okm)
    if not okm:
        ctx.broken('table', 'tree.c MAXH', 'path array bound MAXH=%r; theorem C15_path_fits needs >= 93 slots' % maxh)
    stats['MAXH'] = maxh

    # ---- exhaustive: all insertion orders of n <= NMAX distinct keys (= all reachable shapes)
    nmax = 8
    histories = []       # each: list of lines starting with 'R'
    for n in range(1, nmax + 1):
        keysets = [list(range(1, n + 1))] if n < nmax else [SPECIAL8]
        for ks in keysets:
            for perm in itertools.permutations(ks):
                histories.append(['R'] + ['I %d' % k for k in perm])
    stats['exhaustive_orders'] = len(histories)
    stats['exhaustive_nmax'] = nmax
    # ---- random long sequences
    rnd = []
    nlong = 48 if not thorough else 1600
    for i in range(nlong):
        n = ctx.rng.choice([20, 60, 200, 600] if not thorough else [60, 600, 2000, 5000])
        keys = random_keys(ctx.rng, n)
        lines = ['R']
        full = n <= 60
        for j, k in enumerate(keys):
            lines.append(('I %d' if full or j % 64 == 63 or j == n - 1 else 'i %d') % k)
        rnd.append(lines)
    # duplicates inside the exhaustive family too: every order of 4 keys followed by each key again
    for perm in itertools.permutations([5, 1 << 31, 1 << 63, M64]):
        for again in perm:
            rnd.append(['R'] + ['I %d' % k for k in perm] + ['I %d' % again])
    stats['random_histories'] = len(rnd)

    nchunks = vlib.NCPU
    chunks = [histories[i::nchunks] for i in range(nchunks)] + [rnd[i::nchunks] for i in range(nchunks)]
    chunks = [c for c in chunks if c]

    def one(chunk):
        lines = [l for h in chunk for l in h]
        rc1, real = run_lines(hexe, lines)
        rc2, model = run_lines(oracle, lines) if oracle else (0, None)
        return chunk, rc1, real, rc2, model
    inserts = 0
    maxpl = 0
    agree = True
    maxheight = 0
    for chunk, rc1, real, rc2, model in vlib.parallel_map(one, chunks):
        nlines = sum(len(h) - 1 for h in chunk)
        inserts += nlines
        mstripped = None
        if model is not None:
            mstripped = []
            for l in model:
                s, pl = strip_model(l)
                mstripped.append(s)
                maxpl = max(maxpl, pl)
        good = rc1 == 0 and len(real) == nlines and (mstripped is None or real == mstripped)
        # the specification is always checked on the final state of every history (cheap), and on
        # everything when model and code disagree
        pos = 0
        for h in chunk:
            seg = real[pos:pos + len(h) - 1]
            pos += len(h) - 1
            if good:
                if seg and '|' in seg[-1]:
                    t = parse_dump(seg[-1].split('|')[1].split())
                    errs, ht, keys = tree_spec_errors(t)
                    maxheight = max(maxheight, ht)
                    want = sorted(set(int(l.split(' ')[1]) for l in h[1:]))
                    if errs or keys != want:
                        good = False
                if good:
                    continue
            why = check_real_history(h, seg)
            if why and any(v['key'] == 'tree-invariant' for v in ctx.violations):
                agree = False
                break
            if why:
                agree = False
                keys = [l for l in h[1:]]

                def bad(ks):
                    r, o = run_lines(hexe, ['R'] + ks, timeout=20)
                    return r != 0 or check_real_history(['R'] + ks, o) is not None
                small = ddmin(keys, bad)
                r, o = run_lines(hexe, ['R'] + small, timeout=20)
                why = check_real_history(['R'] + small, o) or why
                ctx.violation('tree.c: %s (history of %d insertions, rc=%d)' % (why, len(small), r),
                              '\n'.join(['R'] + small) + '\n', 'keys', key='tree-invariant')
                break
        if not good and agree and mstripped is not None:
            i = next((i for i, (a, b) in enumerate(zip(real, mstripped)) if a != b), min(len(real), len(mstripped)))
            agree = False
            ctx.broken('correspondence', 'Tree model vs tree.c (shape- and height-exact)',
                       'harness rc=%d; first difference at output %d:\n real =%r\n model=%r' % (rc1, i, real[i:i + 1], mstripped[i:i + 1]))
        nontrivial.update(hash(tuple(x)) for x in chunk if len(x) > 3)
    stats['unit_inserts'] = inserts
    stats['max_path_slots_model'] = maxpl
    stats['max_height_seen'] = maxheight
    if maxh is not None and maxpl > maxh:
        ctx.violation('treeinsert path array overflow: %d slots needed, MAXH=%d' % (maxpl, maxh), 'n/a', 'txt', key='maxh-overflow')
    ctx.ob('K-unit:tree.c shape/height/new-exact vs extracted model: %d insertion orders of <=%d keys (exhaustive) + %d random histories, %d inserts'
           % (len(histories), nmax, len(rnd), inserts), agree and oracle is not None)
    samples.append({'unit_history': rnd[0][:8] + ['...'], 'exhaustive': 'all %d orders of 1..%d distinct keys' % (len(histories), nmax)})


# =============================================================================== CLI level
BASE = {  # name: (size, signed)
    'char': (1, True), 'signed char': (1, True), 'unsigned char': (1, False), 'short': (2, True), 'unsigned short': (2, False),
    'int': (4, True), 'unsigned': (4, False), 'long': (8, True), 'unsigned long': (8, False),
    'long long': (8, True), 'unsigned long long': (8, False), '_Bool': (1, False),
}


def promote(size, signed, width=None):
    """integer promotion of the controlling expression (C11 6.3.1.1p2; cproc type.c typepromote)"""
    if width is None:
        width = size * 8
    if size <= 4 or width <= 32:
        return (4, True) if width - (1 if signed else 0) < 32 else (4, False)
    return (8, signed)


def ctext(rng, c):
    """a C integer constant expression whose value (in its own type) is the mathematical integer c"""
    if c < 0:
        n = -c
        if n == 1 << 63:
            return '(-9223372036854775807-1)'
        return '-%d%s' % (n, rng.choice(['', '', 'l', 'll', 'L']))
    forms = ['hex', 'hexu']
    if c < 1 << 63:
        forms += ['dec', 'dec', 'decl']
    if 32 < c < 127 and chr(c) not in "'\\":
        forms += ['chr']
    if 1 <= c <= M32:
        forms += ['negu']
    f = rng.choice(forms)
    if f == 'dec':
        return '%d' % c
    if f == 'decl':
        return '%d%s' % (c, rng.choice(['l', 'LL', 'u' if c <= M64 else '', 'ul', 'ull']))
    if f == 'hex':
        return '0x%x' % c
    if f == 'hexu':
        return '0x%X%s' % (c, rng.choice(['u', 'U', 'ull', 'UL', 'll' if c < 1 << 63 else 'ull']))
    if f == 'chr':
        return "'%s'" % chr(c)
    return '-%du' % ((1 << 32) - c)


def spell(rng, t, w, sgn, wide_ok):
    """(text, value): a constant whose value converts to t in the type (w, sgn)"""
    f = rng.choice(['plain', 'plain', 'wrapu', 'rep64', 'shift']) if wide_ok else 'plain'
    c = t
    if f == 'wrapu':
        c = t % (1 << w)
    elif f == 'rep64':
        c = t % (1 << 64)
    elif f == 'shift' and w == 32:
        c = t + rng.choice([-2, -1, 1, 2, 1 << 20, (1 << 31) - 1, -(1 << 31)]) * (1 << 32)
        if not (-(1 << 63) <= c <= M64):
            c = t
    assert toT(w, sgn, c) == t
    return ctext(rng, c), c


def choose_targets(rng, n, lo, hi):
    """n distinct values in [lo, hi] around the boundaries the proofs split on, in an order that forces rotations"""
    span = hi - lo + 1
    n = min(n, span)
    out = []
    seen = set()

    def add(v):
        if lo <= v <= hi and v not in seen and len(out) < n:
            seen.add(v)
            out.append(v)
    interesting = [lo, lo + 1, hi, hi - 1, 0, -1, 1, -2, (1 << 31) - 1, 1 << 31, -(1 << 31), -(1 << 31) - 1, M32, 1 << 32,
                   (1 << 63) - 1, 1 << 63, -(1 << 63), M64, 127, 128, 255, 256, -128, -129, 32767, 32768, 65535, 65536]
    mode = rng.choice(['bound', 'run', 'mixed', 'random', 'mixed'])
    if mode in ('bound', 'mixed'):
        for v in rng.sample(interesting, len(interesting)):
            if rng.random() < 0.7:
                add(v)
    if mode in ('run', 'mixed'):
        s = rng.choice([lo, hi - n, -n // 2, rng.randint(lo, hi), (1 << 31) - n // 2, -(1 << 31) - n // 2, M32 - n // 2])
        step = rng.choice([1, 1, 1, 2, 3, 1 << 32 if span > 1 << 40 else 1])
        for i in range(n):
            add(s + i * step)
    tries = 0
    while len(out) < n and tries < 20 * n + 100:
        tries += 1
        r = rng.random()
        if r < 0.4:
            add(rng.randint(lo, hi))
        elif r < 0.7:
            add(rng.choice(interesting) + rng.randint(-50, 50))
        else:
            add(rng.randint(max(lo, -300), min(hi, 300)))
    order = rng.choice(['asc', 'desc', 'shuffle', 'shuffle', 'asis'])
    if order == 'asc':
        out.sort()
    elif order == 'desc':
        out.sort(reverse=True)
    elif order == 'shuffle':
        rng.shuffle(out)
    return out


class Gen:
    """one translation unit: struct V with members of many integer types, enums, functions with switches"""

    def __init__(self, rng):
        self.rng = rng
        self.marker = 1000
        self.enums = []        # text
        self.members = []      # dict(name, decl, psize, psigned, lo, hi, wide_ok, enumerators)
        self.funcs = []        # (text, [switch meta in preorder])
        self.cur = None

    def fresh(self):
        self.marker += 1
        return self.marker

    def add_members(self):
        rng = self.rng
        i = 0
        for name, (size, signed) in BASE.items():
            ps, pg = promote(size, signed)
            self.members.append(dict(name='m%d' % i, decl='%s m%d;' % (name, i), psize=ps, psigned=pg,
                                     lo=-(1 << (8 * ps - 1)) if pg else 0, hi=(1 << (8 * ps - 1)) - 1 if pg else (1 << 8 * ps) - 1,
                                     wide_ok=True, ctype=name, enumerators=[]))
            i += 1
        # bit-fields
        for _ in range(8):
            name = rng.choice(['int', 'unsigned', 'int', 'unsigned', '_Bool', 'long', 'unsigned long', 'long long', 'unsigned long long'])
            size, signed = BASE[name]
            width = 1 if name == '_Bool' else rng.choice([1, 2, 3, 7, 8, 9, 15, 16, 17, 31, 32, 33, 40, 63, 64, rng.randint(1, size * 8)])
            width = min(width, size * 8)
            ps, pg = promote(size, signed, width)
            if size == 8:
                # bit-fields of types other than int/unsigned/_Bool: promotion is implementation-defined;
                # stay inside the field's own range so that every reading agrees
                lo = -(1 << (width - 1)) if signed else 0
                hi = (1 << (width - 1)) - 1 if signed else (1 << width) - 1
                wide_ok = False
            else:
                lo = -(1 << (8 * ps - 1)) if pg else 0
                hi = (1 << (8 * ps - 1)) - 1 if pg else (1 << 8 * ps) - 1
                wide_ok = True
            self.members.append(dict(name='m%d' % i, decl='%s m%d:%d;' % (name, i, width), psize=ps, psigned=pg, lo=lo, hi=hi,
                                     wide_ok=wide_ok, ctype='%s:%d' % (name, width), enumerators=[]))
            i += 1
        # enums
        for e in range(4):
            kind = rng.choice(['small', 'neg', 'big', 'bigneg', 'u32'])
            vals = {'small': [0, 1, 2, 77, 255, 70000], 'neg': [-1, -70000, 5, -(1 << 31), (1 << 31) - 1],
                    'big': [0, 3, 1 << 32, (1 << 40) + 1], 'bigneg': [-5, 1 << 33, -(1 << 40)], 'u32': [0, 9, 1 << 31, M32]}[kind]
            mn, mx = min(vals), max(vals)
            if mn >= -(1 << 31) and mx <= (1 << 31) - 1:
                size, signed = 4, mn < 0
            elif mn >= 0 and mx <= M32:
                size, signed = 4, False
            else:
                size, signed = 8, mn < 0
            ens = [('E%d_%d' % (e, j), v) for j, v in enumerate(vals)]
            self.enums.append('enum En%d { %s };' % (e, ', '.join('%s = %s' % (n, '(-2147483647-1)' if v == -(1 << 31) else
                                                                              '(-%dll)' % -v if v < 0 else '%d' % v if v < 1 << 31 else '0x%xu' % v if v <= M32 else '0x%xll' % v)
                                                                 for n, v in ens)))
            ps, pg = promote(size, signed)
            self.members.append(dict(name='m%d' % i, decl='enum En%d m%d;' % (e, i), psize=ps, psigned=pg,
                                     lo=-(1 << (8 * ps - 1)) if pg else 0, hi=(1 << (8 * ps - 1)) - 1 if pg else (1 << 8 * ps) - 1,
                                     wide_ok=True, ctype='enum(%s)' % kind, enumerators=ens))
            i += 1

    # ---------------------------------------------------------------- statements
    def gen_switch(self, depth, ncases, inloop, ind, flat=False, member=None):
        rng = self.rng
        m = member or rng.choice(self.members)
        w = 8 * m['psize']
        sw = dict(member=m['name'], ctype=m['ctype'], psize=m['psize'], psigned=m['psigned'], cases=[], default=None, join=None)
        self.cur.append(sw)
        targets = choose_targets(rng, ncases, m['lo'], m['hi'])
        # enumerators of an enum-typed member are natural case labels
        labels = []
        used = set()
        for n, v in m['enumerators']:
            t = toT(w, m['psigned'], v)
            if rng.random() < 0.7 and t not in used and m['lo'] <= t <= m['hi']:
                used.add(t)
                labels.append((n, v, t))
        for t in targets:
            if t not in used:
                used.add(t)
                txt, c = spell(rng, t, w, m['psigned'], m['wide_ok'])
                labels.append((txt, c, t))
        if labels and not flat:
            rng.shuffle(labels) if rng.random() < 0.3 else None
        has_default = rng.random() < 0.65
        items = []     # (list of label texts, marker, tail, nested-statement text)
        i = 0
        dpos = rng.randint(0, len(labels)) if has_default else -1
        idx = 0
        while i < len(labels) or (has_default and sw['default'] is None):
            k = 1 if flat or rng.random() < 0.8 else rng.randint(2, 3)
            grp = labels[i:i + k]
            i += len(grp)
            mk = self.fresh()
            lbl = ['case %s:' % g[0] for g in grp]
            for g in grp:
                sw['cases'].append([g[2], mk, g[0]])
            if has_default and sw['default'] is None and (idx >= dpos or i >= len(labels)):
                if not grp or rng.random() < 0.5:
                    lbl.insert(rng.randint(0, len(lbl)), 'default:')
                    sw['default'] = mk
                else:
                    dm = self.fresh()
                    items.append((['default:'], dm, self.tail(inloop), ''))
                    sw['default'] = dm
            nested = ''
            if not flat and depth < 2 and rng.random() < 0.12:
                nested = self.gen_switch(depth + 1, rng.choice([0, 1, 2, 3, 5, 9, 17]), inloop, ind + '\t\t')
            if lbl:
                items.append((lbl, mk, self.tail(inloop) if not flat else 'break;', nested))
            idx += 1
        # wrap runs of items into nested compound statements / loops (case labels inside inner blocks)
        body = []
        j = 0
        while j < len(items):
            run = 1
            wrap = None
            if not flat and rng.random() < 0.15:
                run = rng.randint(1, 3)
                wrap = rng.choice(['{', 'while (p->n--) {', 'if (p->n) {', 'do {', 'for (;p->n;) {'])
            seg = items[j:j + run]
            j += len(seg)
            lines = []
            for lbl, mk, tail, nested in seg:
                lines.append('%s\t%s sink = %d;%s %s' % (ind, ' '.join(lbl), mk, ('\n' + nested) if nested else '',
                                                        tail if wrap is None or not wrap.startswith(('while', 'do', 'for')) else tail.replace('continue;', 'break;')))
            if wrap:
                body.append('%s\t%s' % (ind, wrap))
                body += ['\t' + l for l in lines]
                body.append('%s\t}%s' % (ind, ' while (0);' if wrap == 'do {' else ''))
            else:
                body += lines
        sw['join'] = self.fresh()
        return '%sswitch (p->%s) {\n%s\n%s}\n%ssink = %d;' % (ind, m['name'], '\n'.join(body), ind, ind, sw['join'])

    def tail(self, inloop):
        r = self.rng.random()
        if r < 0.55:
            return 'break;'
        if r < 0.75:
            return ''
        if r < 0.85 and inloop:
            return 'continue;'
        return 'return %d;' % self.rng.randint(0, 9)

    def gen_func(self, nsw, sizes, flat=False, member=None):
        rng = self.rng
        self.cur = []
        parts = []
        for _ in range(nsw):
            n = rng.choice(sizes)
            loop = None if flat else rng.choice([None, None, 'for (;;) {', 'while (p->n--) {', 'do {'])
            s = self.gen_switch(0, n, loop is not None, '\t\t' if loop else '\t', flat=flat, member=member)
            if loop:
                s = '\t%s\n%s\n\t\tbreak;\n\t}%s' % (loop, s, ' while (p->n);' if loop == 'do {' else '')
            parts.append(s)
        name = 'f%d' % len(self.funcs)
        self.funcs.append(('int %s(struct V *p)\n{\n%s\n\treturn 0;\n}\n' % (name, '\n'.join(parts)), self.cur))
        self.cur = None

    def source(self, meta_extra=None):
        meta = {'funcs': [[dict(psize=s['psize'], psigned=s['psigned'], ctype=s['ctype'], default=s['default'], join=s['join'],
                                cases=[[c[0], c[1]] for c in s['cases']]) for s in sws] for _, sws in self.funcs]}
        if meta_extra:
            meta.update(meta_extra)
        head = '// C15 ' + json.dumps(meta, separators=(',', ':')) + '\n'
        return head + 'int sink;\n' + '\n'.join(self.enums) + '\nstruct V {\n\tint n;\n' + ''.join('\t%s\n' % m['decl'] for m in self.members) + '};\n' + \
            '\n'.join(f for f, _ in self.funcs)


# ---------------------------------------------------------------- IL
CMP = {'ceq': lambda a, b, bits: a == b, 'cne': lambda a, b, bits: a != b,
       'cult': lambda a, b, bits: a < b, 'cule': lambda a, b, bits: a <= b, 'cugt': lambda a, b, bits: a > b, 'cuge': lambda a, b, bits: a >= b,
       'cslt': lambda a, b, bits: sg(a, bits) < sg(b, bits), 'csle': lambda a, b, bits: sg(a, bits) <= sg(b, bits),
       'csgt': lambda a, b, bits: sg(a, bits) > sg(b, bits), 'csge': lambda a, b, bits: sg(a, bits) >= sg(b, bits)}


def sg(a, bits):
    return a - (1 << bits) if a >> (bits - 1) else a


class ILError(Exception):
    pass


def parse_functions(il):
    """IL text -> {fname: (order list of labels, {label: (instrs, term)})}"""
    funcs = {}
    cur = None
    for line in il.split('\n'):
        if line.startswith('function '):
            m = re.match(r'function (?:\w+ )?\$(\w+)\(', line)
            cur = ([], {})
            funcs[m.group(1)] = cur
            lab = None
        elif cur is not None and line.startswith('@'):
            lab = line[1:].strip()
            if lab in cur[1]:
                raise ILError('label defined twice: ' + lab)
            cur[0].append(lab)
            cur[1][lab] = [[], None]
        elif cur is not None and line.startswith('\t'):
            ins = line.strip()
            if lab is None:
                continue
            b = cur[1][lab]
            if b[1] is not None:
                continue    # unreachable code after a terminator is dropped by QBE's parser rules; cproc does not emit it
            if ins.startswith(('jmp ', 'jnz ', 'ret', 'hlt')):
                b[1] = ins
            else:
                b[0].append(ins)
        elif line.startswith('}'):
            cur = None
    return {k: (o, b, {l: i for i, l in enumerate(o)}, {}) for k, (o, b) in funcs.items()}


RE_CMP = re.compile(r'^(%[\w.]+) =w (c[a-z]+?)([wl]) (%[\w.]+), (\d+)$')
RE_JNZ = re.compile(r'^jnz (%[\w.]+), @([\w.]+), @([\w.]+)$')
RE_JMP = re.compile(r'^jmp @([\w.]+)$')
RE_MARK = re.compile(r'^storew (\d+), \$sink$')
LADDER = re.compile(r'^switch_(cond|ne|lt|gt)\.\d+$')


def run_ladder(fn, start, pattern):
    """execute the comparison ladder (blocks named switch_cond/ne/lt/gt) on the 64-bit register content
    `pattern` with QBE's semantics; returns (label reached, number of equality tests executed)"""
    order, blocks, index, cache = fn
    lab = start
    depth = 0
    steps = 0
    while True:
        steps += 1
        if steps > 100000:
            raise ILError('ladder does not terminate')
        if not LADDER.match(lab):
            return lab, depth
        dec = cache.get(lab)
        if dec is None:
            ins, term = blocks[lab]
            if not ins and term is None:
                raise ILError('ladder block %s falls through' % lab)
            if not ins:
                m = RE_JMP.match(term)
                if not m:
                    raise ILError('ladder block %s: %s' % (lab, term))
                dec = (None, m.group(1))
            else:
                if len(ins) != 1:
                    raise ILError('ladder block %s has %d instructions' % (lab, len(ins)))
                m = RE_CMP.match(ins[0])
                j = RE_JNZ.match(term or '')
                if not m or not j or m.group(2) not in CMP or j.group(1) != m.group(1):
                    raise ILError('ladder block %s: %r / %r' % (lab, ins[0], term))
                bits = 32 if m.group(3) == 'w' else 64
                dec = (m.group(2), bits, int(m.group(5)) & ((1 << bits) - 1), j.group(2), j.group(3))
            cache[lab] = dec
        if dec[0] is None:
            lab = dec[1]
            continue
        op, bits, key, yes, no = dec
        if op == 'ceq':
            depth += 1
        lab = yes if CMP[op](pattern & ((1 << bits) - 1), key, bits) else no


def strict_tree(fn, start):
    """the ladder must have exactly the shape casesearch() emits; returns (class, nested (key, body, lt, gt) / ('J', target))"""
    order, blocks, index, cache = fn
    cls = [None]
    var = [None]
    seen = set()

    def node(lab, kind):
        if lab in seen:
            raise ILError('ladder block %s reached twice' % lab)
        seen.add(lab)
        if not re.match(r'^switch_%s\.\d+$' % kind, lab):
            raise ILError('expected a switch_%s block, found %s' % (kind, lab))
        ins, term = blocks[lab]
        if not ins:
            m = RE_JMP.match(term or '')
            if not m:
                raise ILError('block %s: %r' % (lab, term))
            return ('J', m.group(1))
        m = RE_CMP.match(ins[0]) if len(ins) == 1 else None
        j = RE_JNZ.match(term or '')
        if not m or not j or m.group(2) != 'ceq' or j.group(1) != m.group(1):
            raise ILError('block %s: %r / %r is not ceq+jnz' % (lab, ins, term))
        if cls[0] is None:
            cls[0], var[0] = m.group(3), m.group(4)
        if (m.group(3), m.group(4)) != (cls[0], var[0]):
            raise ILError('block %s: class/operand changes inside one ladder' % lab)
        key = int(m.group(5))
        body, ne = j.group(2), j.group(3)
        if not re.match(r'^switch_ne\.\d+$', ne) or order[index[lab] + 1] != ne:
            raise ILError('block %s: false target %s is not the following switch_ne block' % (lab, ne))
        ins2, term2 = blocks[ne]
        m2 = RE_CMP.match(ins2[0]) if len(ins2) == 1 else None
        j2 = RE_JNZ.match(term2 or '')
        if not m2 or not j2 or m2.group(2) != 'cult' or (m2.group(3), m2.group(4), int(m2.group(5))) != (cls[0], var[0], key) or j2.group(1) != m2.group(1):
            raise ILError('block %s: %r / %r is not cult+jnz on the same key' % (ne, ins2, term2))
        return (key, body, node(j2.group(2), 'lt'), node(j2.group(3), 'gt'))
    return cls, node(start, 'cond')


def tree_dump_keys(t):
    """preorder dump of the ladder tree in the model's format without heights"""
    out = []

    def rec(n):
        if n[0] == 'J':
            out.append('-')
        else:
            out.append(str(n[0]))
            rec(n[2])
            rec(n[3])
    rec(t)
    return out


def tree_depth(t):
    return 0 if t[0] == 'J' else 1 + max(tree_depth(t[2]), tree_depth(t[3]))


def resolve(fn, lab):
    """follow fall-through / jumps from a label to the first marker store"""
    order, blocks, index, cache = fn
    for _ in range(10000):
        ins, term = blocks[lab]
        if ins:
            m = RE_MARK.match(ins[0])
            if not m:
                raise ILError('block %s starts with %r, expected a marker store' % (lab, ins[0]))
            return int(m.group(1))
        if term is None:
            i = index[lab]
            if i + 1 >= len(order):
                raise ILError('fall off the function at ' + lab)
            lab = order[i + 1]
        else:
            m = RE_JMP.match(term)
            if not m:
                raise ILError('block %s: %r' % (lab, term))
            lab = m.group(1)
    raise ILError('no marker reachable')


def probes_for(rng, sw, limit=400):
    w = 8 * sw['psize']
    sgn = sw['psigned']
    lo, hi = (-(1 << (w - 1)), (1 << (w - 1)) - 1) if sgn else (0, (1 << w) - 1)
    keys = [c[0] for c in sw['cases']]
    if len(keys) > limit:
        keys = rng.sample(keys, limit - 6) + sorted(keys)[:3] + sorted(keys)[-3:]
    vs = set([lo, lo + 1, hi, hi - 1, 0, 1, toT(w, sgn, -1), toT(w, sgn, 1 << 31), toT(w, sgn, (1 << 31) - 1), toT(w, sgn, M32), toT(w, sgn, 1 << (w - 1))])
    for k in keys:
        vs.update([k, toT(w, sgn, k - 1), toT(w, sgn, k + 1)])
        if w == 64:
            vs.update([toT(w, sgn, k + (1 << 32)), toT(w, sgn, k - (1 << 32)), toT(w, sgn, k ^ (1 << 63)), toT(w, sgn, k & M32), toT(64, sgn, toT(32, True, k))])
        else:
            vs.add(toT(w, sgn, k ^ (1 << 31)))
    for _ in range(8):
        vs.add(rng.randint(lo, hi))
    return sorted(vs)


def pattern_of(rng, V, psize):
    """a 64-bit register content representing the promoted value V (class w: high half is garbage)"""
    if psize == 8:
        return V & M64
    return (V & M32) | (rng.choice([0, M32, rng.getrandbits(32)]) << 32)


def check_unit(ctx, src, meta, il, oracle, rng, stats):
    """returns list of problems: ('violation'|'broken', key, text, detail dict)"""
    probs = []
    try:
        funcs = parse_functions(il)
    except ILError as e:
        return [('broken', 'il', 'IL not parsable: %s' % e, {})]
    script = []
    plan = []     # per switch: (fname, idx, sw, start, probes, patterns)
    for fi, sws in enumerate(meta['funcs']):
        fname = 'f%d' % fi
        if fname not in funcs:
            probs.append(('broken', 'il', 'function %s missing from the IL' % fname, {}))
            continue
        fn = funcs[fname]
        conds = sorted((l for l in fn[0] if l.startswith('switch_cond.')), key=lambda l: int(l.split('.')[1]))
        if len(conds) != len(sws):
            probs.append(('broken', 'il', '%s: %d switch_cond blocks for %d switch statements' % (fname, len(conds), len(sws)), {}))
            continue
        for si, (sw, start) in enumerate(zip(sws, conds)):
            w = 8 * sw['psize']
            spec = {}
            for t, mk in sw['cases']:
                spec[t] = mk
            other = sw['default'] if sw['default'] is not None else sw['join']
            stats['switches'] += 1
            stats['cases'] += len(sw['cases'])
            tk = ('bit-field of ' + sw['ctype'].split(':')[0]) if ':' in sw['ctype'] else sw['ctype']
            stats['by_type'][tk] = stats['by_type'].get(tk, 0) + 1
            # (c) shape
            tree = None
            try:
                cls, tree = strict_tree(fn, start)
                want_cls = 'w' if sw['psize'] == 4 else 'l'
                if cls[0] is not None and cls[0] != want_cls:
                    probs.append(('broken', 'class', '%s switch %d on %s: ladder in class %s, promoted type needs %s' % (fname, si, sw['ctype'], cls[0], want_cls), {}))
                d = tree_depth(tree)
                stats['max_depth'] = max(stats['max_depth'], d)
                n = len(sw['cases'])
                if fib(d + 2) - 1 > n:
                    probs.append(('violation', 'ladder-depth', '%s switch %d: ladder depth %d for %d cases exceeds the AVL bound' % (fname, si, d, n), {}))
            except ILError as e:
                probs.append(('broken', 'shape', '%s switch %d: ladder is not of the modelled shape: %s' % (fname, si, e), {}))
            # (a) semantics against the specification
            vs = probes_for(rng, sw)
            pats = [pattern_of(rng, V, sw['psize']) for V in vs]
            bad = None
            for V, p in zip(vs, pats):
                want = spec.get(V, other)
                try:
                    lab, depth = run_ladder(fn, start, p)
                    got = resolve(fn, lab)
                except ILError as e:
                    probs.append(('broken', 'shape', '%s switch %d: %s' % (fname, si, e), {}))
                    bad = True
                    break
                stats['probes'] += 1
                if V in spec:
                    stats['probe_hits'] += 1
                if got != want:
                    bad = (V, p, got, want)
                    break
            if bad and bad is not True:
                V, p, got, want = bad
                probs.append(('violation', 'wrong-case',
                              '%s switch %d on %s (promoted: %d bytes, %s): value %d (register 0x%x) reaches marker %d, C selects %d (%s)'
                              % (fname, si, sw['ctype'], sw['psize'], 'signed' if sw['psigned'] else 'unsigned', V, p, got, want,
                                 'case' if V in spec else 'default' if sw['default'] is not None else 'past the statement'),
                              dict(fi=fi, si=si, V=V)))
            # (b) the extracted model on the same constants and probes
            script.append('R')
            for t, mk in sw['cases']:
                script.append('K %d %d %d' % (sw['psize'], 1 if sw['psigned'] else 0, t & M64))
            script.append('D')
            for p in pats:
                script.append('S %s %d' % ('W' if sw['psize'] == 4 else 'L', p))
            plan.append((fname, si, sw, start, vs, pats, tree, fn, spec, other))
    if oracle and script:
        rc, out = run_lines_raw(oracle, script)
        pos = 0
        for fname, si, sw, start, vs, pats, tree, fn, spec, other in plan:
            n = len(sw['cases'])
            seg = out[pos:pos + n + 1 + len(pats)]
            pos += n + 1 + len(pats)
            if len(seg) != n + 1 + len(pats) or any(not l.startswith('ok ') for l in seg[:n]):
                probs.append(('broken', 'model', '%s switch %d: the model rejects a valid case list: %r' % (fname, si, [l for l in seg[:n] if not l.startswith('ok ')][:2]), {}))
                continue
            mdump = [t.split(':')[0] for t in seg[n].split('|')[1].split()]
            if tree is not None and mdump != tree_dump_keys(tree):
                probs.append(('broken', 'shape', '%s switch %d: ladder tree differs from the model tree\n ladder=%s\n model =%s'
                              % (fname, si, ' '.join(tree_dump_keys(tree)[:40]), ' '.join(mdump[:40])), {}))
            key2mark = {(t & M64): mk for t, mk in sw['cases']}
            for V, p, l in zip(vs, pats, seg[n + 1:]):
                f = l.split(' ')
                got = key2mark.get(int(f[1]), -1) if f[0] == 'case' else other
                want = spec.get(V, other)
                stats['model_probes'] += 1
                if got != want:
                    probs.append(('broken', 'model', '%s switch %d: model search for value %d answers %r, specification %d' % (fname, si, V, l, want), {}))
                    break
                if tree is not None:
                    try:
                        lab, depth = run_ladder(fn, start, p)
                        if depth != int(f[-1]):
                            probs.append(('broken', 'shape', '%s switch %d: value %d takes %d equality tests, model %s' % (fname, si, V, depth, f[-1]), {}))
                            break
                    except ILError:
                        pass
    return probs


def run_lines_raw(exe, lines, timeout=300):
    rc, out, err = run_limited([exe], input=('\n'.join(lines) + '\n').encode(), timeout=timeout, cap=1 << 30)
    return rc, out.decode('latin1').split('\n')[:-1]


def flat_source(sw_meta, texts):
    """a minimal unit with one flat switch, for shrinking: texts = [(label text, converted value)]"""
    ct = sw_meta['ctype']
    if ct.startswith('enum'):
        return None
    if ':' in ct:
        base, width = ct.split(':')
        decl = '%s m:%s;' % (base, width)
    else:
        decl = '%s m;' % ct
    mk = 1000
    cases = []
    body = []
    for txt, t in texts:
        mk += 1
        cases.append([t, mk])
        body.append('\tcase %s: sink = %d; break;' % (txt, mk))
    dm = None
    if sw_meta['default'] is not None:
        dm = mk + 1
        body.append('\tdefault: sink = %d; break;' % dm)
    meta = {'funcs': [[dict(psize=sw_meta['psize'], psigned=sw_meta['psigned'], ctype=ct, default=dm, join=mk + 2, cases=cases)]]}
    return '// C15 ' + json.dumps(meta, separators=(',', ':')) + '\nint sink;\nstruct V { int n; %s };\nint f0(struct V *p)\n{\n\tswitch (p->m) {\n%s\n\t}\n\tsink = %d;\n\treturn 0;\n}\n' \
        % (decl, '\n'.join(body), mk + 2), meta


def shrink_wrong_case(ctx, gen_sw, V, rng):
    """gen_sw: the generator's switch record (with label texts).  Try to reproduce and minimise on a flat unit."""
    texts = [(c[2], c[0]) for c in gen_sw['cases']]
    if gen_sw['ctype'].startswith('enum'):
        return None

    def bad(ts):
        r = flat_source(gen_sw, ts)
        if r is None:
            return False
        src, meta = r
        rc, il, err = ctx.qbe(src, timeout=20)
        if rc != 0:
            return False
        sw = meta['funcs'][0][0]
        try:
            fn = parse_functions(il)['f0']
            start = [l for l in fn[0] if l.startswith('switch_cond.')][0]
            lab, _ = run_ladder(fn, start, pattern_of(rng, V, sw['psize']))
            got = resolve(fn, lab)
        except (ILError, KeyError, IndexError):
            return False
        spec = {t: mk for t, mk in sw['cases']}
        return got != spec.get(V, sw['default'] if sw['default'] is not None else sw['join'])
    if not bad(texts):
        return None
    small = ddmin(texts, bad)
    src, meta = flat_source(gen_sw, small)
    meta['probe'] = V
    return '// C15 ' + json.dumps(meta, separators=(',', ':')) + '\n' + src.split('\n', 1)[1]


def new_stats():
    return dict(switches=0, cases=0, probes=0, probe_hits=0, model_probes=0, max_depth=0, by_type={}, units=0, dup_templates=0,
                gcc_checked_probes=0)


# ---------------------------------------------------------------- duplicates
DUP_FIXED = [
    # (source, expected: 'reject' / 'accept', diagnostic regex)
    ('int f(int x) { switch (x) { case 1: return 1; case 1: return 2; } return 0; }', 'reject', r"multiple 'case' labels"),
    ("int f(int x) { switch (x) { case 'a': return 1; case 97: return 2; } return 0; }", 'reject', r"multiple 'case' labels"),
    ('int f(unsigned x) { switch (x) { case -1: return 1; case 0xffffffffu: return 2; } return 0; }', 'reject', r"multiple 'case' labels"),
    ('int f(int x) { switch (x) { case -1: return 1; case 0xffffffffu: return 2; } return 0; }', 'reject', r"multiple 'case' labels"),
    ('int f(int x) { switch (x) { case 0: return 1; case 0x100000000: return 2; } return 0; }', 'reject', r"multiple 'case' labels"),
    ('int f(char x) { switch (x) { case 2: return 1; case 0x100000002ll: return 2; } return 0; }', 'reject', r"multiple 'case' labels"),
    ('int f(unsigned char x) { switch (x) { case -3: return 1; case 4294967293: return 2; } return 0; }', 'reject', r"multiple 'case' labels"),
    ('int f(long x) { switch (x) { case -1: return 1; case 0xffffffffffffffffull: return 2; } return 0; }', 'reject', r"multiple 'case' labels"),
    ('int f(unsigned long x) { switch (x) { case -1: return 1; case 18446744073709551615u: return 2; } return 0; }', 'reject', r"multiple 'case' labels"),
    ('enum E { A = 5 }; int f(int x) { switch (x) { case A: return 1; case 2+3: return 2; } return 0; }', 'reject', r"multiple 'case' labels"),
    ('int f(int x, int n) { switch (x) { case 1: while (n--) { case 2: n++; { case 1: n--; } } } return 0; }', 'reject', r"multiple 'case' labels"),
    ('int f(int x) { switch (x) { default: return 1; case 1: return 3; default: return 2; } return 0; }', 'reject', r"multiple 'default' labels"),
    ('int f(int x, int n) { switch (x) { default: while (n--) { default: n++; } } return 0; }', 'reject', r"multiple 'default' labels"),
    ('int f(int x) { case 1: return 0; }', 'reject', r"'case' label must be in switch"),
    ('int f(int x) { default: return 0; }', 'reject', r"'default' label must be in switch"),
    ('int f(int x) { switch (x) { case 1: ; } case 1: return 0; }', 'reject', r"'case' label must be in switch"),
    # not duplicates
    ('int f(long x) { switch (x) { case -1: return 1; case 0xffffffffu: return 2; } return 0; }', 'accept', ''),
    ('int f(int x, int y) { switch (x) { case 1: switch (y) { case 1: return 1; default: return 2; } default: return 3; } return 0; }', 'accept', ''),
    ('int f(int x, int y) { switch (x) { case 1: switch (y) { case 1: return 1; } case 2: return 2; } switch (y) { case 1: case 2: return 4; default: return 3; } return 0; }', 'accept', ''),
    ('int f(unsigned long x) { switch (x) { case 0x7fffffffffffffff: return 1; case 0x8000000000000000: return 2; case 0xffffffff: return 3; case 0xffffffffffffffff: return 4; } return 0; }', 'accept', ''),
]


def gen_dup_unit(rng):
    """a valid flat switch plus one extra label that collides with an existing one only after conversion
    (or a second default); returns (source, regex)"""
    g = Gen(rng)
    g.add_members()
    m = rng.choice([x for x in g.members if x['wide_ok'] and not x['enumerators']])
    g.gen_func(1, [rng.choice([1, 2, 5, 12, 40])], flat=True, member=m)
    ftext, sws = g.funcs[0]
    sw = sws[0]
    lines = ftext.split('\n')
    caselines = [i for i, l in enumerate(lines) if 'case ' in l or 'default:' in l]
    if rng.random() < 0.25 or not sw['cases']:
        extra = '\tdefault: sink = 1;'
        rx = r"multiple 'default' labels"
        if sw['default'] is None:
            lines.insert(caselines[0] if caselines else 3, extra) if caselines else None
            if not caselines:
                return None
    else:
        t = rng.choice(sw['cases'])[0]
        w = 8 * sw['psize']
        for _ in range(20):
            txt, c = spell(rng, t, w, sw['psigned'], True)
            if txt != [c2[2] for c2 in sw['cases'] if c2[0] == t][0]:
                break
        extra = '\tcase %s: sink = 1;' % txt
        rx = r"multiple 'case' labels"
    pos = rng.choice(caselines) + rng.choice([0, 1]) if caselines else 3
    lines.insert(pos, extra)
    g.funcs[0] = ('\n'.join(lines), sws)
    return g.source({'expect': 'reject'}), rx


# ---------------------------------------------------------------- gcc as a second opinion on the specification
def gcc_validate(ctx, units, stats):
    """flat re-statement of (some) generated switches compiled with gcc and run on in-range probes;
    checks the Python specification (value -> marker) used above."""
    prog = ['#include <stdio.h>']
    calls = []
    k = 0
    for g in units:
        for ftext, sws in g.funcs:
            for sw in sws:
                ct = sw['ctype']
                if ct.startswith('enum') or len(sw['cases']) > 400 or k >= 60:
                    continue
                if ':' in ct:
                    base, width = ct.split(':')
                    if BASE[base][0] == 8:
                        continue
                    decl = 'struct { %s m:%s; } s; s.m = v;' % (base, width)
                    size, signed = BASE[base]
                    lo, hi = (-(1 << (int(width) - 1)), (1 << (int(width) - 1)) - 1) if signed else (0, (1 << int(width)) - 1)
                    if base == '_Bool':
                        lo, hi = 0, 1
                else:
                    decl = 'struct { %s m; } s; s.m = v;' % ct
                    size, signed = BASE[ct]
                    lo, hi = (-(1 << (8 * size - 1)), (1 << (8 * size - 1)) - 1) if signed else (0, (1 << 8 * size) - 1)
                    if ct == '_Bool':
                        lo, hi = 0, 1
                body = ''.join('case %s: return %d;\n' % (c[2], c[1]) for c in sw['cases'])
                other = sw['default'] if sw['default'] is not None else sw['join']
                prog.append('static int g%d(long long v) { %s switch (s.m) {\n%s default: return %d; } }' % (k, decl, body, other))
                vs = [v for v in probes_for(ctx.rng, sw, limit=60) if lo <= v <= hi]
                spec = {c[0]: c[1] for c in sw['cases']}
                for v in vs:
                    calls.append((k, v, spec.get(v, other)))
                k += 1
    if not calls:
        return
    prog.append('int main(void) {')
    for k, v, want in calls:
        lit = '(-9223372036854775807ll-1)' if v == -(1 << 63) else ('%dll' % v if v < (1 << 63) else '(long long)%dull' % v)
        prog.append('printf("%%d\\n", g%d(%s));' % (k, lit))
    prog.append('return 0; }')
    cfile = os.path.join(ctx.tmp, 'gccspec.c')
    open(cfile, 'w').write('\n'.join(prog))
    exe = os.path.join(ctx.tmp, 'gccspec')
    e = ctx.cc(exe, [cfile], flags='-O0 -fwrapv')
    if e:
        ctx.notes.append('gcc cross-check of the specification skipped: ' + e[:300])
        return
    rc, out, err = run_limited([exe], timeout=60)
    got = out.decode().split()
    bad = [(c, g) for c, g in zip(calls, got) if int(g) != c[2]]
    stats['gcc_checked_probes'] = len(got)
    ctx.ob('S:gcc agrees with the Python statement of the C semantics on %d (switch, value) pairs' % len(got), not bad and len(got) == len(calls))
    if bad or len(got) != len(calls):
        ctx.broken('correspondence', 'specification vs gcc', 'the check\'s own C semantics disagree with gcc: %r' % (bad[:3],))


def cli_level(ctx, snap, oracle, stats, samples, nontrivial):
    rng = ctx.rng
    thorough = ctx.tier == 'thorough'
    units = []
    nunits = 36 if not thorough else 1000
    for u in range(nunits):
        g = Gen(rng)
        g.add_members()
        for f in range(rng.randint(1, 4)):
            g.gen_func(rng.randint(1, 3), [0, 1, 2, 3, 4, 7, 8, 15, 16, 31, 33, 64, 100, 257])
        units.append(g)
    # every member type once, flat, medium size; and a few very large switches
    g = Gen(rng)
    g.add_members()
    for m in g.members:
        g.gen_func(1, [rng.choice([6, 13, 40])], flat=True, member=m)
    units.append(g)
    for big in ([1000, 3000] if not thorough else [1000, 3000, 5000, 5000, 5000, 4096]):
        g = Gen(rng)
        g.add_members()
        m = rng.choice([x for x in g.members if x['hi'] - x['lo'] > 100000])
        g.gen_func(1, [big], flat=True, member=m)
        units.append(g)

    targets = [rng.choice(['x86_64-sysv', 'x86_64-sysv', 'aarch64', 'riscv64']) for _ in units]
    stats['targets'] = {t: targets.count(t) for t in set(targets)}

    def cone(a):
        g, target = a
        src = g.source()
        rc, il, err = ctx.qbe(src, target=target, timeout=60, cap=64 << 20)
        return g, src, rc, il, err
    results = vlib.parallel_map(cone, list(zip(units, targets)))
    ok = True
    reported = set()
    for g, src, rc, il, err in results:
        stats['units'] += 1
        nontrivial.add(hash(src))
        meta = json.loads(src.split('\n', 1)[0][len('// C15 '):])
        if rc != 0:
            ok = False
            ctx.violation('valid generated switch unit rejected (rc=%d): %s' % (rc, err[:300]), src, 'c', key='valid-switch-rejected')
            continue
        probs = check_unit(ctx, src, meta, il, oracle, rng, stats)
        for kind, key, text, det in probs:
            ok = False
            if (kind, key) in reported:
                stats['suppressed_reports'] = stats.get('suppressed_reports', 0) + 1
                continue
            reported.add((kind, key))
            if kind == 'violation':
                rep = src
                if key == 'wrong-case':
                    small = shrink_wrong_case(ctx, g.funcs[det['fi']][1][det['si']], det['V'], rng)
                    if small:
                        rep = small
                        text += ' [replay: the same switch restated flat and minimised; markers renumbered, probe value in the header]'
                ctx.violation(text, rep, 'c', key=key)
            else:
                ctx.broken('correspondence', 'switch lowering vs model (%s)' % key, text + '\n--- source head ---\n' + src[:1500])
        if len(samples) < 4 and meta['funcs'] and meta['funcs'][0]:
            sw = meta['funcs'][0][0]
            samples.append({'switch_on': sw['ctype'], 'ncases': len(sw['cases']), 'first_cases': sw['cases'][:5], 'default': sw['default'] is not None})
    ctx.ob('K-CLI:%d units / %d switches / %d cases: %d ladder probes equal the C semantics, %d model probes agree, ladder trees equal the model trees'
           % (stats['units'], stats['switches'], stats['cases'], stats['probes'], stats['model_probes']), ok and oracle is not None)
    gcc_validate(ctx, units[:12], stats)

    # duplicates
    dups = [(s, e, rx) for s, e, rx in DUP_FIXED]
    for _ in range(40 if not thorough else 1500):
        r = gen_dup_unit(rng)
        if r:
            dups.append((r[0], 'reject', r[1]))

    def done(d):
        return d, ctx.qbe(d[0], timeout=20)
    okd = True
    for (src, exp, rx), (rc, il, err) in vlib.parallel_map(done, dups):
        stats['dup_templates'] += 1
        nontrivial.add(hash(src))
        if exp == 'reject':
            if rc == 0:
                okd = False
                ctx.violation('duplicate/misplaced case or default label accepted without a diagnostic (expected: %s)' % rx,
                              src if src.startswith('// C15') else '// C15 {"expect":"reject"}\n' + src + '\n', 'c', key='duplicate-accepted')
            elif not re.search(rx, err):
                okd = False
                ctx.violation('duplicate template rejected without the expected diagnostic /%s/: rc=%d %s' % (rx, rc, err[:200]),
                              src if src.startswith('// C15') else '// C15 {"expect":"reject"}\n' + src + '\n', 'c', key='duplicate-diagnostic')
        else:
            if rc != 0:
                okd = False
                ctx.violation('distinct case values rejected: %s' % err[:200], '// C15 {"expect":"accept"}\n' + src + '\n', 'c', key='valid-switch-rejected')
    ctx.ob('K-CLI:%d duplicate/misplaced-label templates diagnosed (and %d look-alikes accepted)'
           % (sum(1 for d in dups if d[1] == 'reject'), sum(1 for d in dups if d[1] == 'accept')), okd)
    # the model on the fixed duplicate examples (conversion collisions)
    if oracle:
        sc = ['R', 'K 4 0 %d' % (-1 & M64), 'K 4 0 %d' % M32, 'R', 'K 4 1 0', 'K 4 1 %d' % (1 << 32), 'R', 'K 8 1 %d' % (-1 & M64), 'K 8 1 %d' % M32]
        rc, out = run_lines_raw(oracle, sc)
        heads = [l.split(' ')[0] for l in out]
        ctx.ob('model: switchcase reports the same conversion collisions', heads == ['ok', 'dup', 'ok', 'dup', 'ok', 'ok'])
        if heads != ['ok', 'dup', 'ok', 'dup', 'ok', 'ok']:
            ctx.broken('correspondence', 'model duplicate detection', repr(out))


PLACEMENT_WANT = [-1, 101010, 100010, 100010, 100052, 100012, 100007, 99999, 7, 42, 11012, 0, 1, 3, 6, 0, 1007, 1009, 1012, 1006, 2013, 0, 51, 61, 23, 102,
                  0, 3, 12, 15, 15, 500, 1001, 1001, 1001, 4102, 4102, 102, 102, 2, 1234, 0, 112233, 0]


def placement(ctx, stats):
    """Where case/default labels may stand: before a declaration and at the end of a block (C23, accepted by cproc), in an
    unbraced switch body, inside nested blocks, loops and if/else arms of the body, in a nested unbraced switch, Duff's device,
    `continue` inside a switch inside a loop.  corpus/c15/placement.c is run under Qbe.run (ocaml/qbe/oracle); the expected
    output is fixed here and re-validated against gcc -std=gnu2x on every run."""
    import c03
    src = open(os.path.join(vlib.VERIF, 'corpus', 'c15', 'placement.c')).read()
    want = ''.join('out_l %d\n' % v for v in PLACEMENT_WANT)
    drv = os.path.join(ctx.tmp, 'placement_drv.c')
    open(drv, 'w').write('#include <stdio.h>\nvoid out_l(long v) { printf("out_l %ld\\n", v); }\n')
    cf = os.path.join(ctx.tmp, 'placement.c')
    open(cf, 'w').write(src)
    rc, o, e = vlib.sh('gcc -std=gnu2x -w -O1 %s %s -o %s.exe && %s.exe' % (cf, drv, cf, cf), timeout=120)
    if rc != 0 or vlib.txt(o) != want:
        ctx.broken('correspondence', 'placement corpus vs gcc', 'gcc -std=gnu2x gives %r (rc=%d %s)' % (vlib.txt(o)[:300], rc, vlib.txt(e)[:200]))
        return
    qexe = c03.build_oracle(ctx)
    okp = True
    for target in ('x86_64-sysv', 'aarch64', 'riscv64'):
        rc, il, err = ctx.qbe(src, target=target, timeout=20)
        stats['placement_runs'] = stats.get('placement_runs', 0) + 1
        if rc != 0:
            okp = False
            ctx.violation('valid switch statements (labels in an unbraced body, in nested statements, before declarations) rejected on %s: %s' % (target, err[:200]),
                          '// C15 {"expect":"accept"}\n' + src, 'c', key='valid-switch-rejected')
            continue
        f = os.path.join(ctx.tmp, 'placement-%s.ssa' % target)
        open(f, 'w').write(il)
        rc, o, e = run_limited([qexe, 'run', f, '5000000'], timeout=120, cap=8 << 20)
        got = ''.join(l + '\n' for l in vlib.txt(o).split('\n') if l.startswith('out_l'))
        if got != want or 'status 0' not in vlib.txt(o):
            okp = False
            a, b = got.split('\n'), want.split('\n')
            k = next((j for j in range(min(len(a), len(b))) if a[j] != b[j]), min(len(a), len(b)))
            ctx.violation('a switch reaches the wrong statement on %s: output line %d of corpus/c15/placement.c is %r, expected %r (%s)'
                          % (target, k + 1, a[k:k + 1], b[k:k + 1], vlib.txt(o)[-60:].replace('\n', ' ')), '// C15 {"expect":"run"}\n' + src, 'c', key='wrong-case-placement')
    ctx.ob('K-CLI:label placement corpus (unbraced bodies, labels before declarations and inside nested statements) runs as under gcc on 3 targets', okp)


def once_per_key(ctx):
    """report each finding class once per run (the first, i.e. usually the smallest, instance); count the rest"""
    orig = ctx.violation
    seen = {}

    def violation(what, replay_text, ext='txt', key=None):
        k = key or what
        seen[k] = seen.get(k, 0) + 1
        if seen[k] == 1:
            orig(what, replay_text, ext, key)
    ctx.violation = violation
    return seen


def run(ctx):
    dup_counts = once_per_key(ctx)
    snap = ctx.snapshot()
    ok = ctx.coq(['Properties/%s.vo' % MODULE, 'Extract/Extract_c15.vo'])
    if ok:
        ctx.assumptions(MODULE, ctx.theorem_names(MODULE))
    oracle = ctx.oracle('c15') if ok else None
    stats = new_stats()
    samples = []
    nontrivial = set()
    if snap:
        unit_level(ctx, snap, oracle, stats, samples, nontrivial)
        ctx.log('unit level done')
        if os.path.exists(os.path.join(snap, 'cproc-qbe')):
            cli_level(ctx, snap, oracle, stats, samples, nontrivial)
            placement(ctx, stats)
    cov = dict(evaluations=stats.get('unit_inserts', 0) + stats['probes'] + stats['dup_templates'],
               distinct_nontrivial=len(nontrivial),
               rule='unit: insertion histories of more than 2 keys, distinct by key list (every order of <= %s distinct keys is present, so every '
                    'rotation kind and every early stop occurs); CLI: generated units distinct by text, each probing every case constant, its '
                    'neighbours, the type limits and values equal modulo 2^32' % stats.get('exhaustive_nmax'),
               exhaustive=True,
               exhaustive_part='all %s insertion orders of 1..%s distinct keys into tree.c (shape-, height- and flag-exact against the model); '
                               'everything else is sampled' % (stats.get('exhaustive_orders'), stats.get('exhaustive_nmax')),
               samples=samples, stats=stats,
               disagreements_checked=len(ctx.violations) + len(ctx.brokens), findings_per_class=dup_counts)
    return ctx.finish(cov, assumptions=[
        'tree.c and qbe.c:switchcase/casesearch are tied to Model/Tree.v and Model/CaseSearch.v by differential runs (exhaustive for <= 8 keys), not by proof',
        'the emitted ladder is executed by a small interpreter of ceq/cult/jnz/jmp written in Python (QBE semantics: class w compares the low 32 bits); no QBE binary is involved',
        'the controlling value reaches the ladder as the promoted value (the code computing it - loads, extensions, bit-field extraction - belongs to other properties)',
        'xmalloc returns fresh zero-overlap storage; fewer than 2^64 nodes exist (C15_path_fits)',
        'x86_64-sysv type sizes (char signed, long 8 bytes) in the generator'])


def replay(ctx, path):
    snap = ctx.snapshot()
    if path.endswith('.keys'):
        hexe = os.path.join(ctx.tmp, 'h15')
        e = ctx.cc(hexe, [os.path.join(vlib.VERIF, 'harness/c15/harness.c'), os.path.join(snap, 'tree.c'), os.path.join(snap, 'util.c')], incl=[snap])
        if e:
            print(e)
            return 1
        lines = [l for l in open(path).read().split('\n') if l]
        rc, out = run_lines(hexe, lines)
        why = check_real_history(lines, out)
        print('\n'.join(out[-3:]))
        print('rc=%d' % rc, why or 'history satisfies the specification')
        return 1 if (why or rc != 0) else 0
    src = open(path).read()
    rc, il, err = ctx.qbe(src, timeout=60, cap=64 << 20)
    head = src.split('\n', 1)[0]
    meta = json.loads(head[len('// C15 '):]) if head.startswith('// C15 ') else {}
    if meta.get('expect') == 'reject':
        print('rc=%d %s' % (rc, err.strip()))
        return 1 if rc == 0 else 0
    if meta.get('expect') == 'accept' or 'funcs' not in meta:
        print('rc=%d %s' % (rc, err.strip()))
        return 1 if rc != 0 else 0
    if rc != 0:
        print('rejected:', err)
        return 1
    stats = new_stats()
    probs = check_unit(ctx, src, meta, il, None, ctx.rng, stats)
    for p in probs:
        print(p[0], p[1], p[2])
    print('%d probes' % stats['probes'])
    return 1 if probs else 0
