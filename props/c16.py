# C16 - names always resolve to the declaration C scoping selects.   DESIGN.md section 5 (C16).
import os, re, json
import vlib
from vlib import sh, txt, run_limited

LEVEL = 'proof'
MODULE = 'Properties_C16'
M64 = (1 << 64) - 1


def fnv1a(bs):
    h = 0x811c9dc5
    for b in bs:
        h = ((h ^ b) * 0x1000193) & M64
    return h


def key_pool(rng, nbits, n, alphabet=b'abcdefghijklmnopqrstuvwxyz_0123456789'):
    """n distinct keys whose FNV-1a hashes agree in the low nbits bits (found by brute force)."""
    target = None
    out = []
    seen = set()
    tries = 0
    while len(out) < n and tries < 4000000:
        tries += 1
        k = bytes(rng.choice(alphabet) for _ in range(rng.randint(1, 9)))
        if k in seen:
            continue
        hv = fnv1a(k) & ((1 << nbits) - 1)
        if target is None:
            target = hv
        if hv == target:
            seen.add(k)
            out.append(k)
    return out


def gen_history(rng, nops, cap, pool, dump_every):
    lines = ['M %d' % cap]
    used = []
    for i in range(nops):
        r = rng.random()
        if used and rng.random() < 0.55:
            k = rng.choice(used)
        else:
            k = rng.choice(pool)
            used.append(k)
        kh = k.hex()
        if r < 0.5:
            lines.append('P %s %d' % (kh, rng.choice([0, 1, 2, rng.randint(1, 1 << 40)])))
        elif r < 0.6:
            lines.append('T %s' % kh)
        else:
            lines.append('G %s' % kh)
        if dump_every and (i % dump_every == 0):
            lines.append('D')
    for k in set(used):
        lines.append('G %s' % k.hex())
    lines.append('G %s' % b'never-inserted'.hex())
    lines.append('D')
    return lines


def spec_outputs(lines):
    """The finite-map specification: expected G answers (D lines are not predicted by the spec, only len)."""
    d = {}
    out = []
    for l in lines:
        p = l.split(' ')
        if p[0] == 'M':
            d = {}
        elif p[0] == 'P':
            d[p[1]] = int(p[2])
        elif p[0] == 'T':
            d.setdefault(p[1], 0)
        elif p[0] == 'G':
            out.append('G %d' % d.get(p[1], 0))
        elif p[0] == 'D':
            out.append('D %d' % len(d))
    return out


def project_spec(real_lines):
    return [' '.join(l.split(' ')[:2]) if l.startswith('D') else l for l in real_lines]


def gen_scope_history(rng, nops, names):
    lines = ['S']
    depth = 0
    nextv = 1
    for i in range(nops):
        r = rng.random()
        k = rng.choice(names).hex()
        if r < 0.15 and depth < 200:
            lines.append('+'); depth += 1
        elif r < 0.25 and depth > 0:
            lines.append('-'); depth -= 1
        elif r < 0.45:
            lines.append('d %s %d' % (k, nextv)); nextv += 1
        elif r < 0.60:
            lines.append('t %s %d' % (k, nextv)); nextv += 1
        elif r < 0.80:
            lines.append('gd %s %d' % (k, rng.choice([1, 1, 1, 0])))
        else:
            lines.append('gt %s %d' % (k, rng.choice([1, 1, 1, 0])))
    for n in names[:40]:
        lines.append('gd %s 1' % n.hex())
        lines.append('gt %s 1' % n.hex())
    return lines


def scope_spec(lines):
    st = None
    out = []
    for l in lines:
        p = l.split(' ')
        if p[0] == 'S':
            st = [({}, {})]
        elif p[0] == '+':
            st.insert(0, ({}, {}))
        elif p[0] == '-':
            st.pop(0)
        elif p[0] == 'd':
            st[0][0][p[1]] = int(p[2])
        elif p[0] == 't':
            st[0][1][p[1]] = int(p[2])
        elif p[0] in ('gd', 'gt'):
            idx = 0 if p[0] == 'gd' else 1
            v = 0
            for fr in (st if p[2] == '1' else st[:1]):
                if fr[idx].get(p[1], 0):
                    v = fr[idx][p[1]]
                    break
            out.append('g %d' % v)
    return out


def runbin(exe, lines, timeout=120):
    rc, out, err = run_limited([exe], input=('\n'.join(lines) + '\n').encode(), timeout=timeout, cap=256 << 20)
    return rc, out.decode('latin1').split('\n')[:-1]


def shrink(lines, bad):
    """delta-debug an op list (first line is the header) while bad(lines) stays true"""
    head, ops = lines[:1], lines[1:]
    n = 2
    while len(ops) >= 2:
        chunk = max(1, len(ops) // n)
        reduced = False
        for i in range(0, len(ops), chunk):
            cand = ops[:i] + ops[i + chunk:]
            if cand and bad(head + cand):
                ops = cand
                n = max(n - 1, 2)
                reduced = True
                break
        if not reduced:
            if chunk == 1:
                break
            n = min(n * 2, len(ops))
    return head + ops


# ------------------------------------------------------------------------------- CLI level
def gen_cli_unit(rng, nblocks, names):
    """A translation unit with nested blocks, selection/iteration statements whose substatements are blocks of
    their own (C11 6.8.4p3, 6.8.5p5), declarations inside expressions, shadowing, tags vs ordinary identifiers;
    every use is observed as a constant (static data at file scope, a store to a global inside functions).
    Returns (source, scope-op script, list of check names in order)."""
    src = []
    ops = ['S']
    checks = []
    val = [1]
    st = [dict(d=set(), t={})]      # generator-side view: per scope declared names / tag kinds

    def fresh():
        val[0] += 1
        return val[0]

    def push():
        ops.append('+'); st.insert(0, dict(d=set(), t={}))

    def pop():
        ops.append('-'); st.pop(0)

    def visible_tag(n):
        for fr in st:
            if n in fr['t']:
                return fr['t'][n]
        return None

    def ident_decl_text(n):
        v = fresh()
        ops.append('d %s %d' % (n.encode().hex(), v)); st[0]['d'].add(n)
        return 'enum { %s = %d }' % (n, v)

    def tag_decl_text(n):
        v = fresh() % 4000 + 1
        k = rng.choice(['struct', 'union'])
        ops.append('t %s %d' % (n.encode().hex(), v)); st[0]['t'][n] = k
        return '%s %s { char a[%d]; }' % (k, n, v)

    def tag_forward_text(n, infunc):
        """`struct n;` declares a NEW tag in the current scope even when an outer n is visible (6.7.2.3p7): a pointer
        declared between it and the definition points to the inner type"""
        v = fresh() % 4000 + 1
        k = rng.choice(['struct', 'union'])
        ops.append('t %s %d' % (n.encode().hex(), v)); st[0]['t'][n] = k
        c = 'chk_%d' % len(checks)
        ops.append('gt %s 1' % n.encode().hex()); checks.append(c)
        fp = 'fp_%d' % len(checks)
        return '%s %s; %s%s %s *%s; %s %s { char a[%d]; }; %s = sizeof(*%s);' % (
            k, n, '' if infunc else 'static ', k, n, fp, k, n, v, c if infunc else 'int ' + c, fp)

    def use_text(infunc):
        """returns a statement/declaration observing one name, or None"""
        n = rng.choice(names)
        c = 'chk_%d' % len(checks)
        if rng.random() < 0.6:
            if any(n in fr['d'] for fr in st):
                ops.append('gd %s 1' % n.encode().hex()); checks.append(c)
                return ('%s = %s;' if infunc else 'int %s = %s;') % (c, n)
        else:
            k = visible_tag(n)
            if k:
                ops.append('gt %s 1' % n.encode().hex()); checks.append(c)
                return ('%s = sizeof(%s %s);' if infunc else 'int %s = sizeof(%s %s);') % (c, k, n)
        return None

    def simple_item(ind):
        """a declaration or use valid as a block item"""
        r = rng.random()
        n = rng.choice(names)
        if r < 0.3 and n not in st[0]['d']:
            src.append(ind + ident_decl_text(n) + ';')
        elif r < 0.40 and n not in st[0]['t']:
            src.append(ind + tag_decl_text(n) + ';')
        elif r < 0.47 and n not in st[0]['t']:
            src.append(ind + tag_forward_text(n, True))
        else:
            u = use_text(True)
            if u:
                src.append(ind + u)

    def ctrl(base):
        """controlling expression, half of the time with a declaration inside it (its scope is the statement: the caller has pushed)"""
        if rng.random() < 0.5:
            return base
        n = rng.choice(names)
        if n in st[0]['d'] or n in st[0]['t']:
            return base
        if rng.random() < 0.6:
            return '%s && sizeof(%s)' % (base, ident_decl_text(n))
        return '%s && sizeof(%s)' % (base, tag_decl_text(n))

    def substmt(ind, depth):
        """a substatement of a selection/iteration statement: a block of its own"""
        push()
        r = rng.random()
        if r < 0.4 and depth < 12:
            block(ind, depth + 1)
        elif r < 0.7:
            n = rng.choice(names)
            if rng.random() < 0.6:
                src.append(ind + '\t(void)sizeof(%s);' % ident_decl_text(n))
            else:
                src.append(ind + '\t(void)sizeof(%s);' % tag_decl_text(n))
        else:
            u = use_text(True)
            src.append(ind + '\t' + (u or ';'))
        pop()

    def block(ind, depth):
        src.append(ind + '{'); push()
        for _ in range(rng.randint(1, 7)):
            item(ind + '\t', depth)
        pop(); src.append(ind + '}')

    def item(ind, depth):
        r = rng.random()
        if depth > 14 or r < 0.55:
            simple_item(ind)
        elif r < 0.65:
            block(ind, depth + 1)
        elif r < 0.80:
            push()
            src.append(ind + 'if (%s)' % ctrl(rng.choice(['1', '0', 'chk_g'])))
            substmt(ind, depth)
            if rng.random() < 0.7:
                src.append(ind + 'else')
                substmt(ind, depth)
            pop()
        elif r < 0.86:
            push(); src.append(ind + 'while (%s)' % ctrl('chk_g')); substmt(ind, depth); pop()
        elif r < 0.91:
            # the controlling expression of do-while comes AFTER the body but belongs to the same statement scope
            push(); src.append(ind + 'do'); substmt(ind, depth); src.append(ind + 'while (%s);' % ctrl('0')); pop()
        elif r < 0.96:
            push()
            n = rng.choice(names)
            # declared in the controlling expression: clause-1 may only declare objects (6.8.5p3)
            src.append(ind + 'for (int i_ = 0; chk_g && sizeof(%s); )' % ident_decl_text(n))
            substmt(ind, depth)
            pop()
        else:
            push(); src.append(ind + 'switch (%s)' % ctrl('chk_g')); substmt(ind, depth); pop()

    # file scope
    for n in rng.sample(names, min(len(names), 6)):
        src.append(ident_decl_text(n) + ';')
    for n in rng.sample(names, min(len(names), 4)):
        src.append(tag_decl_text(n) + ';')
    for b in range(nblocks):
        src.append('void fn_%d(void)' % (b + 1))
        src.append('{'); push()       # function body scope (= parameter scope)
        for _ in range(rng.randint(3, 14)):
            item('\t', 1)
        pop(); src.append('}')
        for _ in range(3):
            u = use_text(False)
            if u:
                src.append(u)
    head = 'int chk_g;\n' + ''.join('int chk_%d;\n' % i for i in range(len(checks)))
    # file-scope checks are definitions `int chk_N = ...;` themselves: drop their tentative twins
    body = '\n'.join(src) + '\n'
    for i in range(len(checks)):
        if re.search(r'^int chk_%d = ' % i, body, re.M):
            head = head.replace('int chk_%d;\n' % i, '')
    return head + body, ops, checks


def gcc_accepts(ctx, src):
    f = os.path.join(ctx.tmp, 'gccguard-%d.c' % (hash(src) & 0xffffffff))
    open(f, 'w').write(src)
    rc, out, err = vlib.run_limited(['gcc', '-std=c11', '-fsyntax-only', '-w', f], timeout=120)
    return rc == 0


def parse_data_ints(il):
    """observed constants: `data $name = { w N, }` definitions and `storew N, $name` inside functions"""
    res = {}
    for m in re.finditer(r'^(?:export )?data \$(?:\.L)?([A-Za-z_0-9]+?)(?:\.\d+)? = align \d+ \{ w (-?\d+), \}', il, re.M):
        res.setdefault(m.group(1), []).append(int(m.group(2)))
    for m in re.finditer(r'^\tstorew (-?\d+), \$([A-Za-z_0-9]+)$', il, re.M):
        res.setdefault(m.group(2), []).append(int(m.group(1)))
    return res


EXTRA_CLI = [
    # (source, expected list of (name, value)) hand-written disambiguation cases
    # a block-scope function declaration hides an object or parameter of an enclosing block; a parenthesised parameter name that
    # shadows an enumerator is a name, one that is a typedef name is a type; a tag declared in the body of a for statement hides
    # the tag declared in its clauses
    ('int f(int); int g(int f) { { int f(int); return f(1); } } int h(void) { int f = 2; { { extern int f(int); return f(f(3)); } } }\n'
     'enum { N = 3 }; typedef int T; int p(int (N)) { return N + 1; } int q(int (T));\n'
     'static int chk_a = _Generic(p, int (*)(int): 1, default: 0), chk_b = _Generic(q, int (*)(int (*)(int)): 1, default: 0), chk_c = N;\n'
     'int r(void) { int r = 0; for (int i = 0; i < (int)sizeof(struct Tg { char c[2]; }); ++i) r += (int)sizeof(struct Tg { char c[16]; }); return r; }\n'
     'int r2(void) { int r = 0; while (r < (int)sizeof(union Ug { char c[3]; })) r += (int)sizeof(union Ug { char c[5]; }); return r; }\n',
     [('chk_a', 1), ('chk_b', 1), ('chk_c', 3)]),
    # `struct S;` / `union U;` alone in an inner scope declares a new type that hides the outer one (6.7.2.3p7)
    ('struct S { int a; }; union U { char c; short s; };\n'
     'void f(void) { struct S; struct S *p; union U; union U *q; struct S { long x, y; }; union U { long double d; };\n'
     '  static int chk_a = sizeof(*p); static int chk_b = _Generic(p, struct S *: 1, default: 2); static int chk_c = sizeof(*q); static int chk_d = _Alignof(union U); }\n'
     'static int chk_e = sizeof(struct S); static int chk_f = sizeof(union U);\n',
     [('chk_a', 16), ('chk_b', 1), ('chk_c', 16), ('chk_d', 16), ('chk_e', 4), ('chk_f', 2)]),
    # prototype scopes nested in a parameter list, a struct member or a type name: later parameters see earlier ones
    ('double m; int n0;\nvoid (*cb)(short m, char (*row)[sizeof m]);\nstruct H { int (*cmp)(int n, int (*a)[n], char (*b)[sizeof n]); long (*get)(char m, char (*r)[sizeof m + 1]); };\nvoid reg(int (*f)(char m, int (*p)[sizeof m]), int k);\nstatic int chk_a = _Generic(cb, void (*)(short, char (*)[2]): 1, void (*)(short, char (*)[8]): 2, default: 0);\nstatic int chk_b = _Generic(((struct H *)0)->get, long (*)(char, char (*)[2]): 1, long (*)(char, char (*)[9]): 2, default: 0);\nstatic int chk_c = _Generic((void (*)(char m, char (*)[sizeof m]))0, void (*)(char, char (*)[1]): 1, void (*)(char, char (*)[8]): 2, default: 0);\nstatic int chk_d = _Generic(reg, void (*)(int (*)(char, int (*)[1]), int): 1, default: 0);\nstatic int chk_g = sizeof m;\n', [('chk_a', 1), ('chk_b', 1), ('chk_c', 1), ('chk_d', 1), ('chk_g', 8)]),
    # a tag redeclared in an inner scope names a different type even when tag, size and alignment agree
    ('struct S { int a; } g; union U { int i; float f; } gu;\nvoid f(void)\n{\n\tstruct S { float a; } l; union U { unsigned i; float f; } lu;\n\tstatic int chk_a = _Generic(&g, struct S *: 1, default: 2);\n\tstatic int chk_b = __builtin_types_compatible_p(__typeof__(g), struct S);\n\tstatic int chk_c = _Generic(&l, struct S *: 1, default: 2);\n\tstatic int chk_d = _Generic(&gu, union U *: 1, default: 2);\n\tstatic int chk_e = __builtin_types_compatible_p(__typeof__(lu), union U);\n\t{ struct S; static int chk_f = _Generic((struct S *)0, __typeof__(&l): 1, __typeof__(&g): 3, default: 2); }\n}\n', [('chk_a', 2), ('chk_b', 0), ('chk_c', 1), ('chk_d', 2), ('chk_e', 1), ('chk_f', 2)]),
    ('typedef int T; enum { A = sizeof(T) }; void f(void) { char T[7]; static int chk_a = sizeof(T); { typedef long T; static int chk_b = sizeof(T); } static int chk_c = sizeof T; }\n',
     [('chk_a', 7), ('chk_b', 8), ('chk_c', 7)]),
    ('struct s { char a[3]; }; enum { s = 9 }; static int chk_a = s; static int chk_b = sizeof(struct s);\n'
     'void f(void) { struct s { char a[5]; }; static int chk_c = sizeof(struct s); { enum { s = 4 }; static int chk_d = s; static int chk_e = sizeof(struct s); } }\n',
     [('chk_a', 9), ('chk_b', 3), ('chk_c', 5), ('chk_d', 4), ('chk_e', 5)]),
    ('enum { x = 1 }; void f(int x[static 1]) { static int chk_a = sizeof(x); } void g(void) { static int chk_b = x; for (struct { char c[6]; } x; ; ) { static int chk_c = sizeof(x); break; } static int chk_d = x; }\n',
     [('chk_a', 8), ('chk_b', 1), ('chk_c', 6), ('chk_d', 1)]),
    ('#define M 3\nstatic int chk_a = M;\n#undef M\nenum { M = 5 };\nstatic int chk_b = M;\n#define N M\n#define M 8\nstatic int chk_c = N;\n',
     [('chk_a', 3), ('chk_b', 5), ('chk_c', 8)]),
    ('enum { l = 2 }; int f(void) { goto l; l: ; static int chk_a = l; { enum { l = 3 }; static int chk_b = l; goto l; } return 0; }\n',
     [('chk_a', 2), ('chk_b', 3)]),
    ('char *a = "x", *b = "x"; char *c = "y";\n', None),
    # a definition whose declarator contains several parameter lists: the body sees the parameters of the function being
    # defined, not those of the returned function type (6.2.1p4, 6.9.1p7)
    ('char sel[7]; char bias[9]; int id(int x) { return x; }\n'
     'int (*pick(int sel, long bias))(int) { static int chk_a = sizeof(sel); static int chk_b = sizeof(bias); return id; }\n'
     'int (*(*pick2(short sel))(int bias))(int) { static int chk_c = sizeof(sel); static int chk_d = sizeof(bias); return 0; }\n',
     [('chk_a', 4), ('chk_b', 8), ('chk_c', 2), ('chk_d', 9)]),
    # tags and enumeration constants first declared inside a member list belong to the enclosing scope (members have none)
    ('enum { K = 3 }; struct B { char c[2]; };\n'
     'void f(void) { struct A { struct B { char c[6]; } b; enum { K = 5 } e; struct In *link; } a; static int chk_a = sizeof(struct B); static int chk_b = K; static int chk_c = sizeof(a);'
     ' struct In { char z[9]; }; static int chk_d = sizeof(*a.link); }\n'
     'struct O { struct P { char c[11]; } p; enum { Q = 13 } q; }; static int chk_e = sizeof(struct P); static int chk_f = Q;\n',
     [('chk_a', 6), ('chk_b', 5), ('chk_c', 24), ('chk_d', 9), ('chk_e', 11), ('chk_f', 13)]),
    # an enum with a fixed underlying type defined in an inner scope is a new type even when an outer tag of that name exists
    ('enum E : short { A1 = 1 }; void g(void) { enum E : long { B1 = 2 }; static int chk_g = sizeof(enum E); } static int chk_h = sizeof(enum E);\n'
     'enum G : short; void h(void) { enum G : long { Z = 1 }; static int chk_i = sizeof(enum G); static int chk_j = sizeof Z; }\n',
     [('chk_g', 8), ('chk_h', 2), ('chk_i', 8), ('chk_j', 8)]),
    # every character of a name is significant (names that agree on their first 70 characters)
    ((lambda P: 'enum { %sa = 11, %sb = 22, %sc = 33 }; typedef char %st1[3]; typedef char %st2[5]; struct %ss1 { char c[7]; }; struct %ss2 { char c[9]; };\n'
                'static int chk_a = %sa, chk_b = %sb, chk_c = %sc, chk_d = sizeof(%st1), chk_e = sizeof(%st2), chk_f = sizeof(struct %ss1), chk_g = sizeof(struct %ss2);\n'
                'void f(void) { enum { %sb = 200 }; static int chk_h = %sa, chk_i = %sb; }\n' % ((P,) * 17))('p' * 70),
     [('chk_a', 11), ('chk_b', 22), ('chk_c', 33), ('chk_d', 3), ('chk_e', 5), ('chk_f', 7), ('chk_g', 9), ('chk_h', 11), ('chk_i', 200)]),
    # the scope of an enumeration constant begins after its enumerator (its own initialiser still sees the outer entity)
    ('enum { A = 5 }; void f(void) { enum { A = A + 1, B = A + 1 }; static int chk_a = A; static int chk_b = B; }\n'
     'char C[10]; void g(void) { enum { C = sizeof(C) * 2 }; static int chk_c = C; }\nint x = 3; void h(void) { int x = sizeof(x) + 10; { enum { x = sizeof(x) }; static int chk_d = x; } }\n',
     [('chk_a', 6), ('chk_b', 7), ('chk_c', 20), ('chk_d', 4)]),
    # after a complete type specifier (typedef name, struct, _Bool) the next identifier is the declarator, even if it names a typedef
    ('typedef int T; typedef long U; void f(void) { U T; static int chk_a = sizeof(T); }\nstruct S { char c[3]; }; typedef char V;\n'
     'void g(void) { struct S V; _Bool T; static int chk_b = sizeof(V) * 10 + sizeof(T); }\nint h(U T) { return T; }\nstruct M { U T; V V; }; static int chk_c = sizeof(struct M);\n',
     [('chk_a', 8), ('chk_b', 31), ('chk_c', 16)]),
    # block-scope extern / function declarations find the visible file-scope entity through the intermediate scopes (6.2.2p4)
    ('static int counter = 5; static int helper(int x) { return x; }\n'
     'int f(int p) { extern int counter; int helper(int); { extern int counter; { int helper(int); return helper(counter + p); } } }\nstatic int chk_a = sizeof(counter);\n',
     [('chk_a', 4)]),
]


def run(ctx):
    rng = ctx.rng
    thorough = ctx.tier == 'thorough'
    snap = ctx.snapshot()
    ok = ctx.coq(['Properties/%s.vo' % MODULE, 'Extract/Extract_c16.vo'])
    if ok:
        ctx.assumptions(MODULE, ctx.theorem_names(MODULE))
    oracle = ctx.oracle('c16') if ok else None
    stats = dict(histories=0, ops=0, dumps=0, collisions=0, growths=0, scope_histories=0, cli_units=0, cli_checks=0)
    samples = []
    nontrivial = set()

    if snap:
        # ---- G: precondition of the theorems at every call site: capacity a power of two >= 4
        caps = []
        for fn in sorted(os.listdir(snap)):
            if fn.endswith('.c'):
                for m in re.finditer(r'mapinit\(([^,]+),\s*([^)]+)\)', open(os.path.join(snap, fn), errors='replace').read()):
                    if fn == 'map.c':
                        continue
                    caps.append((fn, m.group(2).strip()))
        bad = [c for c in caps if not (c[1].isdigit() and int(c[1]) >= 4 and int(c[1]) & (int(c[1]) - 1) == 0)]
        ctx.ob('G:mapinit-call-sites-pow2cap (%s)' % ','.join('%s:%s' % c for c in caps), not bad and caps)
        if bad or not caps:
            ctx.broken('table', 'mapinit call sites', 'capacity argument not a literal power of two >= 4 (hypothesis pow2cap of map_refines): %r' % (bad,))

        # ---- K-unit
        hexe = os.path.join(ctx.tmp, 'h16')
        e = ctx.cc(hexe, [os.path.join(vlib.VERIF, 'harness/c16/harness.c')] + [os.path.join(snap, f) for f in ('map.c', 'scope.c', 'util.c')], incl=[snap])
        if e:
            ctx.broken('correspondence', 'c16 unit harness does not build against map.c/scope.c', e)
        elif oracle:
            plans = []
            sizes = [(30, 4, 2, 1), (60, 4, 3, 1), (200, 8, 5, 1), (400, 32, 6, 7), (900, 64, 8, 97)]
            reps = 4 if not thorough else 40
            if thorough:
                sizes += [(1500, 64, 10, 499), (2000, 32, 11, 0)]     # the extracted list model is cubic: larger histories take tens of minutes
            for nops, cap, nbits, de in sizes:
                for r in range(reps if nops < 1200 else 3):
                    pool = key_pool(rng, nbits if rng.random() < 0.7 else 0, max(8, nops // 3))
                    if rng.random() < 0.3:
                        pool += [bytes([rng.randrange(256) for _ in range(rng.randint(0, 300))]) for _ in range(10)]
                        pool += [b'']
                    plans.append(gen_history(rng, nops, cap, pool, de))

            def one(lines):
                rc1, real = runbin(hexe, lines)
                rc2, model = runbin(oracle, lines, timeout=3600)
                return lines, rc1, real, rc2, model
            for lines, rc1, real, rc2, model in vlib.parallel_map(one, plans):
                stats['histories'] += 1
                stats['ops'] += len(lines)
                spec = spec_outputs(lines)
                for l in real:
                    if l.startswith('D '):
                        stats['dumps'] += 1
                        p = l.split(' ')
                        if int(p[2]) > int(lines[0].split(' ')[1]):
                            stats['growths'] += 1
                nontrivial.add(hash(tuple(lines)))
                if (rc1 != 0 or project_spec(real) != spec) and any(v['key'] == 'map-history' for v in ctx.violations):
                    stats['more_failing_histories'] = stats.get('more_failing_histories', 0) + 1
                elif rc1 != 0 or project_spec(real) != spec:
                    # the real table disagrees with the finite-map specification: concrete violation
                    def bad(ls):
                        r, out = runbin(hexe, ls, timeout=20)
                        return r != 0 or project_spec(out) != spec_outputs(ls)
                    small = shrink(lines, bad)
                    r, out = runbin(hexe, small, timeout=20)
                    ctx.violation('map.c disagrees with the finite-map specification on an operation history (rc=%d): got %r want %r'
                                  % (r, project_spec(out)[-6:], spec_outputs(small)[-6:]),
                                  '\n'.join(small) + '\n', 'ops', key='map-history')
                elif rc2 != 0:
                    ctx.broken('correspondence', 'Map model oracle did not finish', 'status %d after %d outputs on a %d-op history' % (rc2, len(model), len(lines)))
                elif real != model:
                    i = next((i for i, (a, b) in enumerate(zip(real, model)) if a != b), min(len(real), len(model)))
                    ctx.broken('correspondence', 'Map model vs map.c (slot-exact)',
                               'first difference at output %d: real=%r model=%r; history:\n%s'
                               % (i, real[i:i + 1], model[i:i + 1], '\n'.join(lines[:80])))
                if len(samples) < 2:
                    samples.append({'history': lines[:12] + ['...'], 'real_tail': real[-2:]})

            # scope histories
            names = key_pool(rng, 5, 30) + key_pool(rng, 0, 30)
            splans = [gen_scope_history(rng, n, names) for n in ([50] * 6 + [400] * 6 + ([1200] * 2 if not thorough else [3000] * 20))]

            def sone(lines):
                return lines, runbin(hexe, lines), runbin(oracle, lines, timeout=600)
            for lines, (rc1, real), (rc2, model) in vlib.parallel_map(sone, splans):
                stats['scope_histories'] += 1
                stats['ops'] += len(lines)
                nontrivial.add(hash(tuple(lines)))
                spec = scope_spec(lines)
                if (rc1 != 0 or real != spec) and any(v['key'] == 'scope-history' for v in ctx.violations):
                    stats['more_failing_histories'] = stats.get('more_failing_histories', 0) + 1
                elif rc1 != 0 or real != spec:
                    def bad(ls):
                        r, out = runbin(hexe, ls, timeout=20)
                        return r != 0 or out != scope_spec(ls)
                    small = shrink(lines, bad)
                    ctx.violation('scope.c disagrees with innermost-binding lookup on a history of scope operations',
                                  '\n'.join(small) + '\n', 'ops', key='scope-history')
                elif real != model:
                    ctx.broken('correspondence', 'Scope model vs scope.c', 'outputs differ; history:\n' + '\n'.join(lines[:80]))
            ctx.ob('K-unit:map.c+scope.c slot-exact vs extracted model (%d histories)' % (stats['histories'] + stats['scope_histories']),
                   not any(b[0] == 'correspondence' for b in ctx.brokens) and not ctx.violations)

        # ---- K-CLI: generated units through the real compiler; the extracted Scope model predicts every value
        if oracle and os.path.exists(os.path.join(snap, 'cproc-qbe')):
            nunits = 12 if not thorough else 120
            names = [k.decode() for k in key_pool(rng, 5, 12, b'abcdefghijklmnopqrstuvwxyz')] + ['x', 'y', 'T', 's', 'aa', 'ab']
            names = list(dict.fromkeys('n_' + n for n in names))     # distinct: rng.sample at file scope must not repeat a name
            units = [gen_cli_unit(rng, rng.randint(2, 12), names) for _ in range(nunits)]
            # one big unit: many names, deep nesting
            big_names = ['id%d_%s' % (i, 'q' * (i % 60)) for i in range(3000 if not thorough else 50000)]
            bigsrc = ''.join('enum { %s = %d };\n' % (n, i + 1) for i, n in enumerate(big_names))
            bigsrc += 'void deep(void) {' + ''.join('{ enum { id0_ = %d };' % (i + 10) for i in range(200)) + ' static int chk_deep = id0_;' + '}' * 200 + ' static int chk_out = id0_; }\n'
            bigsrc += ''.join('static int chk_b%d = %s;\n' % (i, n) for i, n in enumerate(big_names[::37]))

            def cone(u):
                src, ops, checks = u
                rc, out, err = ctx.qbe(src)
                rc2, model = runbin(oracle, ops, timeout=300)
                return u, rc, out, err, model
            for (src, ops, checks), rc, out, err, model in vlib.parallel_map(cone, units):
                stats['cli_units'] += 1
                stats['cli_checks'] += len(checks)
                nontrivial.add(hash(src))
                want_spec = [int(l.split(' ')[1]) for l in scope_spec(ops)]
                want_model = [int(l.split(' ')[1]) if l.split(' ')[1].isdigit() else None for l in model]
                if rc != 0 and not gcc_accepts(ctx, src):
                    # guard of the generator itself: a unit gcc rejects too is the generator's fault, not cproc's
                    stats['generator_rejects'] = stats.get('generator_rejects', 0) + 1
                    ctx.log('generator produced a unit that gcc rejects as well (skipped): %s' % err[:200])
                    continue
                if rc != 0:
                    ctx.violation('valid generated unit rejected (rc=%d): %s' % (rc, err[:300]), src, 'c', key='cli-reject')
                    continue
                got = parse_data_ints(out)
                gotl = [got.get(c, [None])[0] for c in checks]
                if gotl != want_spec:
                    i = next(i for i in range(len(checks)) if gotl[i] != want_spec[i])
                    ctx.violation('name resolves to the wrong entity: %s = %r, C scoping selects %r' % (checks[i], gotl[i], want_spec[i]),
                                  src, 'c', key='cli-resolve')
                elif want_model != want_spec:
                    ctx.broken('correspondence', 'Scope model vs specification on CLI script', '\n'.join(ops[:100]))
                if len(samples) < 4:
                    samples.append({'cli_unit_head': src[:300], 'checks': len(checks)})
            rc, out, err = ctx.qbe(bigsrc, timeout=60)
            stats['cli_units'] += 1
            if rc != 0:
                ctx.violation('large unit (%d identifiers, 200-deep nesting) rejected: %s' % (len(big_names), err[:200]), bigsrc, 'c', key='cli-big')
            else:
                got = parse_data_ints(out)
                exp = {'chk_deep': 209, 'chk_out': 1}
                exp.update({'chk_b%d' % i: 37 * i + 1 for i in range(len(big_names[::37]))})
                stats['cli_checks'] += len(exp)
                wrong = [(k, got.get(k), v) for k, v in exp.items() if got.get(k, [None])[0] != v]
                if wrong:
                    ctx.violation('large unit: %r' % (wrong[:3],), bigsrc, 'c', key='cli-big')
            # macro table history: #define / #undef / re-#define of many (colliding) names; a name that is not
            # currently a macro denotes the enumeration constant of the same name
            for rep in range(3 if not thorough else 20):
                mn = ['m%d_%s' % (i, 'x' * (i % 5)) for i in range(rng.choice([40, 150, 400]))]
                msrc = 'enum { ' + ', '.join('%s = %d' % (n, 100000 + i) for i, n in enumerate(mn)) + ' };\n'
                state = {}
                mexp = {}
                for step in range(len(mn) * 3):
                    i = rng.randrange(len(mn))
                    n = mn[i]
                    r = rng.random()
                    if r < 0.45:
                        if n in state:
                            msrc += '#undef %s\n' % n
                        state[n] = step
                        msrc += '#define %s %d\n' % (n, step)
                    elif r < 0.75:
                        msrc += '#undef %s\n' % n
                        state.pop(n, None)
                    else:
                        c = 'chk_m%d' % len(mexp)
                        msrc += 'static int %s = %s;\n' % (c, n)
                        mexp[c] = state.get(n, 100000 + i)
                for i, n in enumerate(mn):
                    c = 'chk_m%d' % len(mexp)
                    msrc += 'static int %s = %s;\n' % (c, n)
                    mexp[c] = state.get(n, 100000 + i)
                rc, out, err = ctx.qbe(msrc, timeout=60)
                stats['cli_units'] += 1
                stats['cli_checks'] += len(mexp)
                got = parse_data_ints(out) if rc == 0 else {}
                wrong = [(k, got.get(k), v) for k, v in mexp.items() if got.get(k, [None])[0] != v]
                if rc != 0 or wrong:
                    ctx.violation('macro table history (%d names): %s' % (len(mn), err[:200] if rc != 0 else 'wrong expansions %r' % (wrong[:3],)), msrc, 'c', key='cli-macro-history')
                    break
            for src, exp in EXTRA_CLI:
                rc, out, err = ctx.qbe(src)
                stats['cli_units'] += 1
                if rc != 0:
                    ctx.violation('hand-written scoping unit rejected: ' + err[:200], src, 'c', key='cli-extra:' + src[:40])
                    continue
                if exp is None:
                    # string pool: identical literals may share, different ones must not
                    strs = re.findall(r'data \$\.Lstring\.(\d+) = align 1 \{ b "(\w)\\000", \}', out)
                    if sorted(s for _, s in strs) != ['x', 'y']:
                        ctx.violation('string pool: %r' % (strs,), src, 'c', key='cli-strings')
                    continue
                got = parse_data_ints(out)
                stats['cli_checks'] += len(exp)
                for k, v in exp:
                    if got.get(k, [None])[0] != v:
                        ctx.violation('%s = %r, C scoping selects %r' % (k, got.get(k), v), src, 'c', key='cli-extra:' + src[:40])
            # string pool (distinct string literals never share storage contents)
            pool_src = 'char *p = "a"; unsigned short *q = u"a"; int *r = L"ab", *s = L"ac"; unsigned *t = U"ab"; char *p2 = "a";\n'
            rc, out, err = ctx.qbe(pool_src)
            stats['cli_units'] += 1
            refs = dict(re.findall(r'data \$(\w+) = align 8 \{ l \$(\.Lstring\.\d+), \}', out))
            datas = dict(re.findall(r'data \$(\.Lstring\.\d+) = align \d+ \{ (.*?) \}', out))
            expect = {'p': 'b "a\\000",', 'p2': 'b "a\\000",', 'q': 'h 97 0 ,', 'r': 'w 97 98 0 ,', 's': 'w 97 99 0 ,', 't': 'w 97 98 0 ,'}
            for nm, body in expect.items():
                gotb = datas.get(refs.get(nm, ''), None)
                if rc != 0 or gotb != body:
                    ctx.violation('string literal %s refers to storage holding %r, expected %r' % (nm, gotb, body), pool_src, 'c', key='string-pool-key-length')
                    break
            ctx.ob('K-CLI:%d units / %d observed uses equal the specification and the extracted Scope model' % (stats['cli_units'], stats['cli_checks']),
                   not ctx.violations and not any(b[0] == 'correspondence' for b in ctx.brokens))

    cov = dict(evaluations=stats['histories'] + stats['scope_histories'] + stats['cli_units'],
               distinct_nontrivial=len(nontrivial),
               rule='operation histories on map.c/scope.c with keys brute-forced to collide in the low hash bits (every history contains re-puts, '
                    'gets of absent keys and at least one growth for the small capacities) are distinct by op list; CLI units are distinct by text',
               samples=samples, stats=stats,
               disagreements_checked=len(ctx.violations) + len(ctx.brokens))
    return ctx.finish(cov, assumptions=[
        'map.c/scope.c are tied to Model/Map.v, Model/Scope.v by slot-exact differential runs, not by proof',
        'memcmp/strlen/malloc behave as specified; key strings stay alive while in the table',
        'clients of the tables in decl.c/pp.c/qbe.c are exercised through the CLI only'])


def replay(ctx, path):
    snap = ctx.snapshot()
    if path.endswith('.ops'):
        hexe = os.path.join(ctx.tmp, 'h16')
        ctx.cc(hexe, [os.path.join(vlib.VERIF, 'harness/c16/harness.c')] + [os.path.join(snap, f) for f in ('map.c', 'scope.c', 'util.c')], incl=[snap])
        lines = open(path).read().split('\n')
        rc, out = runbin(hexe, lines)
        spec = scope_spec(lines) if lines[0] == 'S' else spec_outputs(lines)
        got = out if lines[0] == 'S' else project_spec(out)
        print('real:', got[-10:])
        print('spec:', spec[-10:])
        return 0 if got == spec else 1
    rc, out, err = ctx.qbe(open(path).read())
    print(out, err)
    return 0
