# C17 - the driver runs exactly the documented stages with the documented arguments.  DESIGN.md section 5 (C17).
#
#   G      the option tables, file-type tables, stage masks and target table are re-read from the snapshot's
#          driver.c on every run and compared with the tables of Spec/DriverSpec.v (printed by the oracle)
#   K      driver.c+util.c of the snapshot, configured by the snapshot's ./configure for three target triples with
#          stub tools, run on command lines generated from the option grammar of cproc(1); what the stubs saw
#          (argv of every stage, pipeline order through the provenance chain, output names) is compared with the
#          extracted Driver.plan (model) and DriverSpec.plan (the manual)
import zlib
import json, os, re, shutil, sys
import vlib
from vlib import sh, txt
sys.path.insert(0, os.path.join(vlib.VERIF, 'gen'))
import c17_drv
from c17_drv import Rig, hexw, unhexw, chain_records

LEVEL = 'proof'
MODULE = 'Properties_C17'
TARGETS = ['x86_64-linux-gnu', 'aarch64-linux-gnu', 'riscv64-linux-gnu']
STAGE_ID = {'PREPROCESS': 'pp', 'COMPILE': 'cc', 'CODEGEN': 'cg', 'ASSEMBLE': 'as', 'LINK': 'ld'}
ORDER = {'pp': 0, 'cc': 1, 'cg': 2, 'as': 3, 'ld': 4}

KEYS = {
    'q_onechar': ('D24-one-char-input-name',
                  'an input file whose name is one character long (cproc -c x) is refused with "reading from standard input requires -x"; '
                  'cproc(1): the language is determined from the file extension'),
    'q_qbefile': ('D20-emit-qbe-output-name',
                  'cproc -emit-qbe a.c writes a.qbe; cproc(1) says the output of -emit-qbe is written to standard output '
                  '(-S and -emit-qbe are not in the usage string / option list)'),
    'q_hdrlink': ('header-handed-to-linker',
                  'an input that does not take part in linking (cproc a.c b.h: b.h is only preprocessed) is ignored by the pipelines but '
                  'its name is still handed to the linker'),
}
# fixed in /repo (015b89c); the replay stays in the systematic cases: cproc -c -D X -include must be a usage error
KEY_EMPTY = ('empty-operand-read', 'an empty-string operand makes the driver read arg[1] outside the string and the outcome differs from the manual')


# ------------------------------------------------------------------------------------------------ G: tables from driver.c
def tables_from_source(src):
    """Rebuild the lines printed by the oracle's TABLES command from the text of driver.c.  Raises ValueError."""
    lines = []
    m = re.search(r'\nmain\(int argc, char \*argv\[\]\)\n\{(.*?)\n\}\n', src, re.S)
    if not m:
        raise ValueError('main not found')
    main = m.group(1)

    def body_items(word, body, strict=None):
        """describe what a branch does"""
        its = []
        adds = re.findall(r'arrayaddptr\(&stages\[(\w+)\]\.cmd, ([^;]*)\);', body)
        if adds:
            g = adds[0][0]
            if any(a[0] != g for a in adds):
                raise ValueError('branch %s adds to several tools' % word)
            ws = []
            for _, w in adds:
                w = w.strip()
                if w == 'arg':
                    ws.append(word)
                elif w.startswith('"'):
                    ws.append(w.strip('"'))
                elif w in ('nextarg(&argv)', '*++argv'):
                    ws.append('<operand>')
                else:
                    raise ValueError('branch %s: unknown word %s' % (word, w))
            its.append(('fwd', STAGE_ID[g], ws))
        m2 = re.search(r'\blast = (\w+);', body)
        if m2:
            its.append(('mode', STAGE_ID[m2.group(1)]))
        if 'flags.nostdlib = true' in body:
            its.append(('nostdlib',))
        if 'flags.verbose = true' in body:
            its.append(('verbose',))
        if not its and re.search(r'/\* ignore', body):
            its.append(('nop',))
        return its

    def show(its):
        out = []
        for it in its:
            if it[0] == 'fwd':
                out.append('fwd:%s:%s' % (it[1], ','.join(it[2])))
            elif it[0] == 'mode':
                out.append('mode:' + it[1])
            else:
                out.append(it[0])
        return ' '.join(out)

    # the if / else-if chain on whole words (two tabs deep)
    chain = re.findall(r'\n\t\t(?:\} else )?if \(((?:strcmp|strncmp)\(arg, .*?)\) \{\n(.*?)(?=\n\t\t\} else)', main, re.S)
    if len(chain) < 8:
        raise ValueError('long-option chain not recognised')
    for cond, body in chain:
        words = re.findall(r'strcmp\(arg, "([^"]+)"\) == 0', cond)
        pfx = re.findall(r'strncmp\(arg, "([^"]+)", (\d+)\) == 0', cond)
        for w in words:
            its = body_items(w, body)
            if '*++argv' in body:
                if not (re.search(r'if \(!argv\[1\]\)\n\t+usage\(NULL\);', body)) or its != [('fwd', 'pp', [w, '<operand>'])]:
                    raise ValueError('pair option %s has an unexpected body' % w)
                lines.append('pair ' + w)
            else:
                lines.append('word %s %s' % (w, show(its)))
        for w, n in pfx:
            if len(w) != int(n) or body_items(w + '*', body) != [('fwd', 'pp', [w + '*'])]:
                raise ValueError('prefix option %s' % w)
            lines.append('prefix ' + w)
    m = re.search(r'if \(arg\[2\] != \'\\0\' && strchr\("(\w+)", arg\[1\]\)\)\n\t+usage\(NULL\);', main)
    if not m:
        raise ValueError('one-letter rule not found')
    strict = m.group(1)
    m = re.search(r'switch \(arg\[1\]\) \{\n(.*?)\n\t\t\t\}\n', main, re.S)
    if not m:
        raise ValueError('switch (arg[1]) not found')
    sw = m.group(1)
    cases = re.split(r'\n?\t\t\tcase \'(.)\':\n', '\n' + sw)
    default = None
    for i in range(1, len(cases), 2):
        c, body = cases[i], cases[i + 1]
        if '\n\t\t\tdefault:' in body:
            body, default = body.split('\n\t\t\tdefault:', 1)
        if c == 'M':
            for cond, b in re.findall(r'if \((strcmp\(arg, .*?)\) \{\n(.*?)(?=\n\t\t\t\t\} else)', body, re.S):
                for w in re.findall(r'strcmp\(arg, "([^"]+)"\) == 0', cond):
                    its = body_items(w, b)
                    if '*++argv' in b:
                        if not re.search(r'if \(!argv\[1\]\)\n\t+usage\(NULL\);', b) or its != [('fwd', 'pp', [w, '<operand>'])]:
                            raise ValueError('pair option %s has an unexpected body' % w)
                        lines.append('pair ' + w)
                    else:
                        lines.append('word %s %s' % (w, show(its)))
            if not re.search(r'\} else \{\n\t+usage\(NULL\);', body):
                raise ValueError('-M: other spellings are not refused')
            lines.append('letter M M')
            continue
        if c == 'W':
            for wc, g in re.findall(r"case '(.)': cmd = &stages\[(\w+)\]\.cmd; break;", body):
                lines.append('wtool %s %s' % (wc, STAGE_ID[g]))
            if "default: usage(NULL);" not in body or "arg[2] && arg[3] == ','" not in body:
                raise ValueError('-W body')
            lines.append('letter W W')
            continue
        if c == 'x':
            for w, t in re.findall(r'strcmp\(arg, "([^"]+)"\) == 0\)\n\t+filetype = (\w+);', body):
                lines.append('lang %s %s' % (w, t))
            if 'nextarg(&argv)' not in body or not re.search(r'else\n\t+usage\("', body):
                raise ValueError('-x body')
            lines.append('letter x lang')
            continue
        if 'input->lib = true' in body and 'nextarg(&argv)' in body:
            lines.append('letter %s lib' % c)
            continue
        if re.search(r'output = nextarg\(&argv\)', body):
            lines.append('letter %s out' % c)
            continue
        its = body_items('-' + c, body)
        if len(its) == 1 and its[0][0] == 'fwd' and its[0][2] == ['-' + c, '<operand>'] and 'nextarg(&argv)' in body:
            lines.append('letter %s fwd %s' % (c, its[0][1]))
        elif len(its) == 1:
            lines.append('letter %s %s %s' % (c, 'strict' if c in strict else 'lax', show(its)))
        else:
            raise ValueError('case %s not understood' % c)
    if default is None or 'usage("' not in default:
        raise ValueError('default case')
    for c in strict:
        if not any(l.startswith('letter %s strict' % c) for l in lines):
            raise ValueError('letter %s of the strict list has no case' % c)
    # detectfiletype
    m = re.search(r'\ndetectfiletype\(const char \*name\)\n\{(.*?)\n\}\n', src, re.S)
    if not m or 'strrchr(name, \'.\')' not in m.group(1) or not re.search(r'\n\treturn OBJ;', m.group(1)):
        raise ValueError('detectfiletype')
    for w, t in re.findall(r'strcmp\(dot, "(\w+)"\) == 0\)\n\t+return (\w+);', m.group(1)):
        lines.append('suffix %s %s' % (w, t))
    # stage masks
    for t, e in re.findall(r'case (\w+):\s+input->stages = ([^;]*);', main):
        lines.append('stages %s %s' % (t, ','.join(STAGE_ID[g] for g in re.findall(r'1<<(\w+)', e))))
    if not re.search(r'default:\s+usage\("', main):
        raise ValueError('default of the stage switch')
    # targets
    for cond, a, b in re.findall(r'if \((hasprefix\(target, .*?)\) \{\n\t\tarch = "([^"]+)";\n\t\tqbearch = "([^"]+)";', main, re.S):
        for p in re.findall(r'hasprefix\(target, "([^"]+)"\)', cond):
            lines.append('arch %s %s %s' % (p, a, b))
    return lines


# ------------------------------------------------------------------------------------------------ generator
NAMES = {
    'C': [b'a.c', b'dir/b.c', b'x.y.c', b'.c', b'weird name.c', b'\xc3\xbc.c', b'dir.d/m.c'],
    'CHDR': [b'h.h', b'dir/k.h'],
    'CPPOUT': [b'p.i', b'a.c.i'],
    'QBE': [b'q.qbe', b'dir/r.qbe'],
    'ASM': [b's.s', b'dir.d/t.s'],
    'ASMPP': [b'S.S', b'u.S'],
    'OBJ': [b'o.o', b'lib.a', b'noext', b'dir.d/file', b'a.cc', b'a.C', b'a.', b'.hidden', b'f.o.bak', b'ab'],
}
ONECHAR = [b'x', b'c', b'1']
LANGS = [b'none', b'c', b'c-header', b'cpp-output', b'qbe', b'assembler', b'assembler-with-cpp']
MODES = [[], [], [b'-c'], [b'-S'], [b'-E'], [b'-emit-qbe'], [b'-M'], [b'-MM']]
OPERAND_VALUES = [b'X', b'NAME=1', b'inc', b'dir/inc', b'm', b'v w', b'-c', b'--', b'a,b', b'x', b'/opt/lib/libfoo.a', b':libz.a', b'../up/l', b'/', b'=v']


def gen_option(rng):
    """one option (list of words) from the grammar"""
    r = rng.random()
    v = rng.choice(OPERAND_VALUES)
    if r < 0.30:
        c = rng.choice([b'-D', b'-U', b'-I', b'-L', b'-l'])
        return [c + v] if rng.random() < 0.5 else [c, v]
    if r < 0.42:
        return [rng.choice([b'-include', b'-idirafter', b'-isystem', b'-iquote', b'-MT', b'-MF']), v]
    if r < 0.62:
        return [rng.choice([b'-nostdinc', b'-static', b'-nostdlib', b'-pthread', b'-s', b'-P', b'-MD', b'-MMD', b'-std=c11', b'-std=',
                            b'-Pxyz', b'-v'])]
    if r < 0.74:
        return [rng.choice([b'-g', b'-g3', b'-O', b'-O2', b'-Os', b'-pipe', b'-pedantic', b'-Wall', b'-W', b'-Wextra', b'-Wl', b'-Wno-x', b'-Wno,y'])]
    if r < 0.90:
        t = rng.choice([b'p', b'a', b'l'])
        parts = [rng.choice([b'--gc-sections', b'-z', b'now', b'', b'-DX', b'x y', b'--a=b']) for _ in range(rng.randint(1, 3))]
        if rng.random() < 0.1:
            parts = [b'']
        return [b'-W' + t + b',' + b','.join(parts)]
    lang = rng.choice(LANGS)
    return [b'-x' + lang] if rng.random() < 0.5 else [b'-x', lang]


def gen_bad(rng):
    r = rng.random()
    if r < 0.35:
        return [rng.choice([b'-z', b'-foo', b'-cfoo', b'-Ex', b'-Sx', b'-sx', b'-vv', b'-Mfoo', b'-MQ', b'-Wx,y', b'-W?,', b'--', b'--help', b'-e',
                            b'-nostdlibx', b'-staticx', b'-emit-qbe2', b'-std', b'-includex', b'-pthreads', b'-X', b'-\xff'])]
    if r < 0.55:
        return [b'-x', rng.choice([b'foo', b'C', b'', b'c++', b'none '])]
    if r < 0.65:
        return [b'-']
    if r < 0.72:
        return [b'']
    return [rng.choice(ONECHAR)]


def gen_cmdline(rng, bad_rate=0.15):
    ninputs = rng.choice([0, 1, 1, 1, 2, 2, 3, 4, 5, 6])
    words = []
    chunks = []
    used = set()
    for _ in range(ninputs):
        t = rng.choice(list(NAMES))
        n = rng.choice(NAMES[t])
        stem = n.rsplit(b'/', 1)[-1]
        stem = stem.rsplit(b'.', 1)[0] if b'.' in stem else stem
        if stem not in used:    # two inputs with the same stem write the same output: the first chain would be lost
            used.add(stem)
            chunks.append([n])
    chunks += [rng.choice(MODES) for _ in range(rng.choice([1, 1, 1, 2]))]
    for _ in range(rng.choice([0, 0, 1, 1, 2, 3, 5, 8])):
        chunks.append(gen_option(rng))
    if rng.random() < 0.45:
        o = rng.choice([b'out', b'-', b'-', b'dir/out', b'o.x', b'x'])
        chunks.append([b'-o' + o] if rng.random() < 0.4 else [b'-o', o])
    if rng.random() < 0.08:
        chunks.append([b'-x', rng.choice(LANGS[1:]), b'-'])
    if rng.random() < bad_rate:
        for _ in range(rng.choice([1, 1, 2])):
            chunks.append(gen_bad(rng))
    chunks = [c for c in chunks if c]
    rng.shuffle(chunks)
    for c in chunks:
        words += c
    if rng.random() < 0.06:
        # an option whose operand is missing at the very end
        words.append(rng.choice([b'-D', b'-o', b'-include', b'-MF', b'-x', b'-l', b'-iquote', b'-L', b'-MT']))
    return words


def systematic(rng):
    """every option form alone and in front of / behind one input of every type, under every mode"""
    out = []
    opts = []
    for c in (b'-D', b'-U', b'-I', b'-L', b'-l', b'-o'):
        opts += [[c + b'V'], [c, b'V'], [c]]
        if c != b'-o':      # (an output file in a directory that does not exist makes the last tool fail: not an option-parsing matter)
            opts += [[c + b'/abs/V.a'], [c, b'/abs/V.a'], [c, b':V.a']]
    for w in (b'-include', b'-idirafter', b'-isystem', b'-iquote', b'-MT', b'-MF'):
        opts += [[w, b'V'], [w]]
    opts += [[w] for w in (b'-nostdinc', b'-static', b'-nostdlib', b'-pthread', b'-s', b'-P', b'-MD', b'-MMD', b'-M', b'-MM', b'-std=c99', b'-v',
                           b'-g', b'-O3', b'-pipe', b'-pedantic', b'-Wall', b'-Wp,a,b', b'-Wa,a', b'-Wl,a,,b', b'-Wl,', b'-Wq,a', b'-c', b'-S',
                           b'-E', b'-emit-qbe', b'-cx', b'-Ex', b'-Sx', b'-sx', b'-vx', b'-gx', b'-Px', b'-q')]
    for l in LANGS + [b'bogus']:
        opts += [[b'-x', l], [b'-x' + l]]
    inputs = [NAMES[t][0] for t in NAMES] + [b'x', b'-']
    for o in opts:
        i = rng.choice(inputs)
        m = rng.choice(MODES)
        out.append(o + [i] + m)
        out.append(m + [i] + o)
    for t in NAMES:
        for m in MODES[1:]:
            for tail in ([], [b'-o', b'out'], [b'-o', b'-'], [b'second.c'], [b'second.c', b'-o', b'out']):
                out.append(m + [NAMES[t][0]] + tail)
    for l in LANGS:
        for i in inputs:
            out.append([b'-x', l, b'-c', i])
            out.append([b'-x', l, i, b'-x', b'none', b'z.c'])
    # the same library named more than once keeps every occurrence, in place
    out += [[b'a.c', b'-lfoo', b'-lbar', b'-lfoo'], [b'-lm', b'o.o', b'-l', b'm', b'a.c', b'-lm'], [b'-lx', b'-lx'], [b'o.o', b'-l', b'y', b'lib.a', b'-l', b'y', b'-static'],
            [b'-Lp', b'-Lp', b'-Ia', b'-Ia', b'-DX', b'-DX', b'a.c', b'-c']]
    # argc bookkeeping: a detached operand earlier, a pair option without operand at the end
    for first in ([b'-D', b'X'], [b'-DX'], [b'-o', b'out'], [b'-x', b'c'], [b'-l', b'm'], [b'-include', b'f']):
        for lastw in (b'-include', b'-MF', b'-iquote', b'-MT'):
            out.append([b'-c'] + first + [lastw])
            out.append([b'-c', b'a.c'] + first + [lastw])
    return out


# ------------------------------------------------------------------------------------------------ observation -> canonical text
def usage_kind(head):
    """classify the diagnostic in front of the usage line by what it talks about, not by its exact wording"""
    if head == b'':
        return 'plain'
    q = re.search(rb"'(.*)'", head, re.S)
    low = head.lower()
    if b'standard input' in low or b'stdin' in low:
        return 'stdin'
    if b'language' in low and q:
        return 'lang:' + hexw(q.group(1))
    if b'option' in low and q:
        return 'opt:' + hexw(q.group(1))
    if b'stdout' in low or b'standard output' in low:
        return 'objstdout'
    if b'multiple' in low:
        return 'multi'
    return None


def canon_real(res):
    """What the stubs saw, in the oracle's notation.  Returns (text, problems)."""
    problems = []
    recs = res['recs']
    if res['timed_out']:
        return 'timeout', ['timed out']
    if res['rc'] == 2:
        err = res['err']
        i = err.lower().rfind(b'usage: ')
        head = err[:i].rstrip(b'\n') if i >= 0 else err
        kind = None
        if i < 0:
            problems.append('exit status 2 without the usage line')
        if head.startswith(b'cproc: '):
            head = head[7:]
        kind = usage_kind(head)
        if recs:
            problems.append('usage error after %d tool(s) had been started' % len(recs))
        if res['files'] and set(res['files']) - set():
            problems.append('usage error but files were created: %r' % sorted(res['files']))
        return 'usage %s' % (kind or 'unrecognised:' + hexw(head[:80])), problems
    if res['rc'] != 0:
        return 'exit %d %s' % (res['rc'], hexw(res['err'][:120])), ['exit status %d' % res['rc']]
    temps = {}

    def word(w):
        if w.startswith(b'/tmp/cproc-'):
            if w not in temps:
                temps[w] = len(temps)
            return 'T%d' % temps[w]
        return hexw(w)
    # chains: stdout, every file, temp blocks inside the linker's output
    pipes = []      # (order key, dest text, chain)
    seen = []
    link = None

    def split_chain(chain):
        cur = []
        for r in chain:
            if cur and ORDER[r[0]] <= ORDER[cur[-1][0]]:
                yield cur
                cur = []
            cur.append(r)
        if cur:
            yield cur
    for ch in split_chain(chain_records(res['out'])):
        pipes.append((ch[-1][0], ch[-1][1], '-', ch))
    for name, data in res['files'].items():
        if b'<<temp ' in data or any(r[0] == 'ld' for r in chain_records(data)):
            # the linker's output: temp blocks, then its own record
            for m in re.finditer(rb'<<temp (\S+) (\w+)\n(.*?)>>\n', data, re.S):
                if m.group(2) != b'present':
                    problems.append('temporary object %s did not exist when the linker ran' % m.group(1).decode())
                ch = chain_records(m.group(3))
                if ch:
                    pipes.append((ch[-1][0], ch[-1][1], m.group(1), ch))
            rest = re.sub(rb'<<temp .*?>>\n', b'', data, flags=re.S)
            lch = [r for r in chain_records(rest) if r[0] == 'ld']
            if len(lch) == 1:
                if link is not None:
                    problems.append('two linker outputs')
                link = (name, lch[0])
            else:
                problems.append('linker output %s has %d linker records' % (name, len(lch)))
        else:
            for ch in split_chain(chain_records(data)):
                pipes.append((ch[-1][0], ch[-1][1], name.encode(), ch))
    pipes.sort(key=lambda p: (p[1], ORDER[p[0]]))
    # temps numbered in pipeline order
    texts = []
    for lastid, k, dest, ch in pipes:
        for r in ch:
            seen.append((r[0], r[1]))
        if isinstance(dest, bytes) and dest.startswith(b'/tmp/cproc-'):
            d = word(dest)
        elif dest == '-':
            d = '-'
        else:
            # the name the tool was given with -o (relative to the working directory)
            o = None
            a = ch[-1][2]
            for i in range(1, len(a) - 1):
                if a[i] == b'-o':
                    o = a[i + 1]
                    break
            if o is None or os.path.normpath(o.decode('latin1')) != os.path.normpath(dest.decode('latin1')):
                problems.append('output found in %r but the last stage was told -o %r' % (dest, o))
            d = hexw(o if o is not None else dest)
        texts.append(' | P ' + d + ''.join(' ; ' + r[0] + ''.join(' ' + word(w) for w in r[2]) for r in ch))
    ltext = ''
    if link:
        seen.append(('ld', link[1][1]))
        ltext = ' | L' + ''.join(' ' + word(w) for w in link[1][2])
        a = link[1][2]
        o = next((a[i + 1] for i in range(1, len(a) - 1) if a[i] == b'-o'), None)
        if o is None or os.path.normpath(o.decode('latin1')) != os.path.normpath(link[0]):
            problems.append('linker output found in %r, -o %r' % (link[0], o))
    started = sorted((r['id'], r['k']) for r in recs)
    if sorted(seen) != started:
        problems.append('tools started %r but the outputs show the chain %r' % (started, sorted(seen)))
    for r in recs:
        if 'end' not in r['events'] or 'term' in r['events']:
            problems.append('%s.%d did not finish normally: %r' % (r['id'], r['k'], r['events']))
    left = [t.decode() for t in temps if os.path.exists(t)]
    if left:
        problems.append('temporary objects left behind: %r' % left)
        for t in left:
            try:
                os.unlink(t)
            except OSError:
                pass
    spawning = [l[len(b'cproc: spawning '):] for l in res['err'].split(b'\n') if l.startswith(b'cproc: spawning ')]
    v = (1 if spawning else 0) if recs else '?'      # -v shows only when something is started
    if v:
        want = sorted(b' '.join(r['argv']) for r in recs)
        if sorted(spawning) != want and not any(b'\n' in w for r in recs for w in r['argv']):
            problems.append('-v lines differ from the argument vectors seen by the tools')
    return 'run v=%s' % v + ''.join(texts) + ltext, problems


def pretty(text):
    return re.sub(r'\bx((?:[0-9a-f]{2})*)\b', lambda m: repr(bytes.fromhex(m.group(1)).decode('latin1')), text)


class Oracle:
    def __init__(self, exe, rig):
        self.exe = exe
        self.cfg = rig.oracle_cfg_lines()

    def ask(self, argvs):
        inp = '\n'.join(self.cfg + ['ARGV ' + ' '.join(hexw(w) for w in a) for a in argvs]) + '\n'
        rc, out, err = vlib.run_limited([self.exe], input=inp.encode(), timeout=300, cap=512 << 20)
        blocks = out.decode().split('\n.\n')
        res = []
        for b in blocks[:len(argvs)]:
            d = {}
            for l in b.split('\n'):
                if ' ' in l:
                    k, v = l.split(' ', 1)
                    d[k] = v
            res.append(d)
        return res if len(res) == len(argvs) and rc == 0 else None


def shrink(argv, bad):
    cur = list(argv)
    changed = True
    while changed and len(cur) > 1:
        changed = False
        for n in (2, 1):
            i = 0
            while i + n <= len(cur):
                cand = cur[:i] + cur[i + n:]
                if cand and bad(cand):
                    cur = cand
                    changed = True
                else:
                    i += 1
    return cur


def run(ctx):
    rng = ctx.rng
    thorough = ctx.tier == 'thorough'
    snap = ctx.snapshot(build=False)
    ok = ctx.coq(['Properties/%s.vo' % MODULE, 'Extract/Extract_c17.vo'])
    if ok:
        ctx.assumptions(MODULE, ctx.theorem_names(MODULE))
    oracle = ctx.oracle('c17') if ok else None
    stats = dict(cmdlines=0, by_outcome={}, by_target={}, pipelines_per_run={}, undefined_in_model=0, tools_started=0, known_deviation_cases={})
    samples = []
    nontrivial = set()

    # ---- G: tables
    if oracle:
        rc, out, err = vlib.run_limited([oracle], input=b'TABLES\n', timeout=30)
        spec_lines = sorted(l for l in out.decode().split('\n') if l and l != '.')
        try:
            src_lines = sorted(tables_from_source(open(os.path.join(snap, 'driver.c')).read()))
            diff = sorted(set(spec_lines) ^ set(src_lines))
            ctx.ob('G:option/type/stage/target tables of driver.c equal DriverSpec tables (%d lines)' % len(src_lines), not diff)
            if diff:
                ctx.broken('table', 'driver.c option tables', 'lines present on one side only (spec = DriverSpec.v, src = driver.c):\n' +
                           '\n'.join(('spec  ' if l in spec_lines else 'src   ') + l for l in diff))
        except ValueError as e:
            ctx.ob('G:tables of driver.c', False)
            ctx.broken('table', 'driver.c option tables', 'the option-handling code of driver.c is no longer recognised: %s' % e)

    # ---- K: the real driver with stub tools
    rigs = []
    for t in TARGETS:
        r = Rig(ctx, snap, t)
        if r.err:
            ctx.broken('build', 'driver rig ' + t, r.err)
        else:
            rigs.append(r)
    ctx.ob('K:driver.c+util.c build against configure-generated config.h for %d targets' % len(TARGETS), len(rigs) == len(TARGETS))
    unexplained = 0
    if oracle and rigs:
        n_random = 2400 if not thorough else 60000
        cases = systematic(rng)
        cases += [gen_cmdline(rng) for _ in range(n_random)]
        cases += [[b'-emit-qbe', b'a.c'], [b'-c', b'x'], [b'a.c', b'b.h'], [b'-c', b'-D', b'X', b'-include'], [b'', b'', b'o.o']]
        jobs = [(rigs[i % len(rigs)], a) for i, a in enumerate(cases)]
        byrig = {}
        for rg, a in jobs:
            byrig.setdefault(rg.target, []).append(a)
        predicted = {}
        for rg in rigs:
            answers = Oracle(oracle, rg).ask(byrig.get(rg.target, []))
            if answers is None:
                ctx.broken('build', 'oracle', 'the extracted model did not answer')
                answers = []
            for a, d in zip(byrig.get(rg.target, []), answers):
                predicted[(rg.target, tuple(a))] = d

        def one(job):
            rg, a = job
            # one command line in eight is run through a symbolic link to the driver with another name in another directory
            res = rg.run(a, via_link=(zlib.crc32(b'\0'.join(a)) % 8 == 0))
            return rg, a, canon_real(res), res['rc']
        reported = {}
        for rg, a, (real, problems), rc in vlib.parallel_map(one, jobs, nproc=2 * vlib.NCPU):
            d = predicted.get((rg.target, tuple(a)))
            if d is None:
                continue
            stats['cmdlines'] += 1
            stats['by_target'][rg.target] = stats['by_target'].get(rg.target, 0) + 1
            kind = real.split(' ')[0] + (':' + real.split(' ')[1].split(':')[0] if real.startswith('usage') else '')
            stats['by_outcome'][kind] = stats['by_outcome'].get(kind, 0) + 1
            stats['tools_started'] += real.count(' ; ') + real.count(' | L')
            np_ = real.count(' | P ')
            stats['pipelines_per_run'][np_] = stats['pipelines_per_run'].get(np_, 0) + 1
            if len(a) > 1:
                nontrivial.add((rg.target, tuple(a)))
            for k in d:
                if d[k].startswith('run v=') and ' ; ' not in d[k] and ' | L' not in d[k]:
                    d[k] = 'run v=?' + d[k][7:]
            model, spec = d['model'], d['q000']
            d['spec'], d['asbuilt'] = d['q000'], d['q111']
            if len(samples) < 4 and real.startswith('run') and np_ >= 2:
                samples.append({'target': rg.target, 'argv': [w.decode('latin1') for w in a], 'observed': pretty(real)[:600]})
            dests = [x.split(' ')[0] for x in d['model'].split(' | P ')[1:]]
            if any(x != '-' and dests.count(x) > 1 for x in dests):
                stats['skipped_colliding_outputs'] = stats.get('skipped_colliding_outputs', 0) + 1
                continue        # two inputs write the same file: the first chain is overwritten, nothing to compare
            if problems:
                # the observation itself is inconsistent (tool outside every chain, output in the wrong place, ...)
                unexplained += 1
                stats['inconsistent_runs'] = stats.get('inconsistent_runs', 0) + 1
                if stats['inconsistent_runs'] > 3:
                    continue
                ctx.violation('cproc %s: %s' % (' '.join(repr(w.decode('latin1')) for w in a), '; '.join(problems)),
                              json.dumps({'target': rg.target, 'argv': [w.decode('latin1') for w in a]}), 'json', key='inconsistent-run')
                continue
            if model == 'undefined':
                # arg[1] of an empty-string operand: what the driver reads there is the first byte of the next string
                stats['undefined_in_model'] += 1
                if real == d['q111']:
                    model = real            # it read a non-zero byte: same as the as-built specification; classify below
                else:
                    if real != spec:
                        # same root cause as D24 (the arg[1] test) when the operand is taken for standard input
                        key, what = KEYS['q_onechar'] if real == 'usage stdin' else KEY_EMPTY
                        if key not in reported or len(a) < len(reported[key][0]):
                            reported[key] = (a, rg.target, what, real, spec)
                    continue
            if real == model == spec:
                continue
            if real == model:
                # known deviation of the code from the manual: which switches of the as-built specification matter here
                if real != d['asbuilt']:
                    ctx.broken('theorem', 'plan_asbuilt', 'model differs from the as-built specification on %r' % (a,))
                    continue
                active = [q for q, tag in (('q_onechar', 'q011'), ('q_qbefile', 'q101'), ('q_hdrlink', 'q110')) if d[tag] != d['asbuilt']]
                for q in active:
                    stats['known_deviation_cases'][q] = stats['known_deviation_cases'].get(q, 0) + 1
                    key, what = KEYS[q]
                    if key not in reported or len(a) < len(reported[key][0]):
                        reported[key] = (a, rg.target, what, real, spec)
                if not active:
                    ctx.broken('correspondence', 'quirk classification', 'model = as-built spec <> manual but no single switch explains it: %r' % (a,))
                continue
            # the model mispredicts the real driver
            unexplained += 1
            if unexplained > 4:
                continue            # the first few are shrunk and reported, the rest only counted
            if real == spec:
                ctx.broken('correspondence', 'Driver.plan vs driver.c',
                           'the real driver agrees with the manual but not with the model.\nargv: %r (%s)\nreal : %s\nmodel: %s'
                           % (a, rg.target, pretty(real), pretty(model)))
            else:
                def bad(c, rg=rg):
                    rr, pp = canon_real(rg.run(c))
                    ans = Oracle(oracle, rg).ask([c])
                    return ans is not None and ans[0]['model'] != 'undefined' and (pp or rr not in (ans[0]['q000'], ans[0]['q111']))
                small = shrink(a, bad)
                rr, pp = canon_real(rg.run(small))
                ans = Oracle(oracle, rg).ask([small])[0]
                ctx.violation('cproc %s (%s): observed %s; cproc(1) implies %s' % (' '.join(repr(w.decode('latin1')) for w in small), rg.target,
                                                                                 pretty(rr)[:700], pretty(ans['q000'])[:700]),
                              json.dumps({'target': rg.target, 'argv': [w.decode('latin1') for w in small]}), 'json',
                              key='driver-plan:' + ' '.join(w.decode('latin1') for w in small)[:60])
                if rr != ans['model']:
                    ctx.broken('correspondence', 'Driver.plan vs driver.c', 'argv %r: real %s model %s' % (small, pretty(rr), pretty(ans['model'])))
        for key, (a, tgt, what, real, spec) in sorted(reported.items()):
            ctx.violation('%s.  cproc %s (%s): observed %s; cproc(1) implies %s' % (what, ' '.join(w.decode('latin1') for w in a), tgt,
                                                                                  pretty(real)[:400], pretty(spec)[:400]),
                          json.dumps({'target': tgt, 'argv': [w.decode('latin1') for w in a]}), 'json', key=key)
        stats['mismatches'] = unexplained
        ctx.ob('K:%d command lines x stub tools: observed stages/arguments/outputs equal the extracted Driver.plan' % stats['cmdlines'],
               unexplained == 0 and not any(b[0] == 'correspondence' for b in ctx.brokens))

    cov = dict(evaluations=stats['cmdlines'], distinct_nontrivial=len(nontrivial),
               rule='distinct (target, argv) with at least two words; every command line is generated from the option grammar '
                    '(all 7 input types, 7 mode flags, every forwarding option attached and detached, -x, -o/-o -, malformed stream 15%) '
                    'and run through the real driver with stub tools',
               samples=samples, stats=stats)
    return ctx.finish(cov, assumptions=[
        'driver.c is tied to Model/Driver.v by differential runs (stub tools observe argv, pipeline order and output names), not by proof',
        'posix_spawnp/pipe/dup2 behave as specified; the stubs stand in for cpp, cproc-qbe, qbe, as, ld',
        'Spec/DriverSpec.v is our reading of cproc(1), the usage string and the driver\'s diagnostics; -S, -emit-qbe, -M*, -P, -std=, '
        '-include..., -o - are not in the manual and were specified from the usage string / gcc conventions'])


def replay(ctx, path):
    snap = ctx.snapshot(build=False)
    j = json.load(open(path))
    rig = Rig(ctx, snap, j['target'])
    if rig.err:
        print(rig.err)
        return 1
    a = [w.encode('latin1') for w in j['argv']]
    real, problems = canon_real(rig.run(a))
    print('argv :', a)
    print('real :', pretty(real), problems)
    oracle = ctx.oracle('c17')
    if oracle:
        d = Oracle(oracle, rig).ask([a])[0]
        print('model:', pretty(d['model']))
        print('spec :', pretty(d['q000']))
        return 0 if real == d['q000'] and not problems else 1
    return 1
