# C18 - a failing stage makes the whole driver invocation fail cleanly.  DESIGN.md section 5 (C18).
#
#   K   driver.c+util.c of the snapshot (unmodified, configured by the snapshot's ./configure) run with stub tools whose
#       behaviour is injected per stage (not executable -> spawn failure; exit 1 / SIGSEGV / SIGKILL before reading, after
#       half of the output, after finishing; delays that force the order of termination), under an LD_PRELOAD shim that
#       records the driver's posix_spawnp/wait/waitpid/kill/unlink/mkstemp calls with their results.
#       (1) the property itself is checked on what is observed: exit status, linker not started, output and temporaries
#           gone, every child reaped, nobody left running, SIGTERM reached the stages still running, wall-clock bound;
#       (2) the observed environment (spawn results, the order in which wait() returned which status) is fed to the
#           extracted DriverProc.run, whose trace must equal the recorded trace call by call.
import json, os, re, shutil, sys, time
import vlib
from vlib import sh, txt
sys.path.insert(0, os.path.join(vlib.VERIF, 'gen'))
import c17_drv
from c17_drv import Rig, hexw, unhexw, chain_records

LEVEL = 'proof'
MODULE = 'Properties_C18'
LEVEL_NOTE = ('proof over a model of the operating system: partial - the semantics of posix_spawn/wait/kill/unlink are an '
              'explicit environment (schedule) and a fairness assumption, not derived from the kernel')
TARGETS = ['x86_64-linux-gnu', 'aarch64-linux-gnu', 'riscv64-linux-gnu']
SHIM_SRC = os.path.join(vlib.VERIF, 'harness', 'c18', 'shim.c')
TOOL_OF = {'pp-stub': 'pp', 'cproc-qbe': 'cc', 'qbe-stub': 'cg', 'as-stub': 'as', 'ld-stub': 'ld'}
ORDER = {'pp': 0, 'cc': 1, 'cg': 2, 'as': 3, 'ld': 4}
# stages of each input type (linking), as in cproc(1) / DriverSpec.stages_for
STAGES = {'c': ['pp', 'cc', 'cg', 'as', 'ld'], 'i': ['cc', 'cg', 'as', 'ld'], 'qbe': ['cg', 'as', 'ld'], 's': ['as', 'ld'],
          'S': ['pp', 'as', 'ld'], 'h': ['pp'], 'o': ['ld']}
LAST = {'-E': 'pp', '-emit-qbe': 'cc', '-S': 'cg', '-c': 'as', 'link': 'ld'}


def stages_run(ext, mode):
    st = STAGES[ext]
    last = LAST[mode]
    if last not in st or ext == 'o':
        return []
    return [g for g in st if ORDER[g] <= ORDER[last] and g != 'ld']


def gen_scenario(rng, idx):
    mode = ['-E', '-emit-qbe', '-S', '-c', 'link'][idx % 5]
    n = 1 + (idx // 5) % 3
    exts = {'-E': ['c', 'c', 'S', 'h'], '-emit-qbe': ['c', 'c', 'i'], '-S': ['c', 'c', 'i', 'qbe'],
            '-c': ['c', 'c', 'i', 'qbe', 's', 'S'], 'link': ['c', 'c', 'i', 'qbe', 's', 'S', 'o']}[mode]
    names = []
    for j in range(n):
        names.append('in%d.%s' % (j, rng.choice(exts)))
    argv = ['-v'] if rng.random() < 0.3 else []
    if mode != 'link':
        argv.append(mode)
    argv += names
    if rng.random() < 0.3 and (mode == 'link' or n == 1):
        argv += ['-o', 'out.bin']
    elif rng.random() < 0.15 and mode in ('-E', '-emit-qbe', '-S'):
        argv += ['-o', '-']
    pipes = [(nm, stages_run(nm.rsplit('.', 1)[1], mode)) for nm in names]
    pipes = [p for p in pipes if p[1]]
    beh = {}
    nospawn = None
    kind = rng.choice(['none', 'stage', 'stage', 'stage', 'stage', 'stage', 'spawn', 'link' if mode == 'link' else 'stage'])
    if mode == 'link' and rng.random() < 0.25:
        kind = 'link'
    if not pipes and kind in ('stage', 'spawn'):
        kind = 'none'
    count = {}
    slot = []           # STUB_B index of every (pipeline, stage)
    for nm, st in pipes:
        row = {}
        for g in st:
            row[g] = count.get(g, 0)
            count[g] = row[g] + 1
        slot.append(row)
    # background: delays on successful stages, to vary the order in which wait() sees them
    for row in slot:
        for g, k in row.items():
            if rng.random() < 0.5:
                beh['%s_%d' % (g, k)] = 'finish,exit0,%d' % rng.choice([0, 40, 80, 120, 160])
    what = 'no failure'
    if kind == 'stage':
        f = rng.randrange(len(pipes))
        g = rng.choice(pipes[f][1])
        when = rng.choice(['before', 'half', 'finish'])
        how = rng.choice(['exit1', 'exit1', 'segv', 'kill', 'term', 'hup', 'pipe'])
        d = rng.choice([0, 0, 60, 120])
        beh['%s_%d' % (g, slot[f][g])] = '%s,%s,%d' % (when, how, d)
        what = 'input %d stage %s: %s %s after %d ms' % (f, g, when, how, d)
        if rng.random() < 0.25:
            # a second failing stage in the same pipeline
            g2 = rng.choice(pipes[f][1])
            if g2 != g:
                beh['%s_%d' % (g2, slot[f][g2])] = '%s,%s,%d' % (rng.choice(['before', 'half', 'finish']), rng.choice(['exit1', 'kill', 'term']),
                                                             rng.choice([0, 60, 120]))
                what += ' and stage %s' % g2
    elif kind == 'spawn':
        tools = sorted({g for _, st in pipes for g in st})
        nospawn = rng.choice(tools)
        what = 'tool %s cannot be executed' % nospawn
    elif kind == 'link':
        r = rng.random()
        if r < 0.3:
            nospawn = 'ld'
            what = 'linker cannot be executed'
        else:
            beh['ld_0'] = '%s,%s,%d' % (rng.choice(['before', 'half', 'finish']), rng.choice(['exit1', 'segv', 'kill', 'term']), rng.choice([0, 50]))
            what = 'linker: ' + beh['ld_0']
    unknown_child = rng.random() < 0.12
    # the driver may be started with standard input and/or output closed: pipe() then hands out descriptors 0 and 1, which
    # the stages' redirections must cope with (standard output is closed only when no stage writes to it and no failure is injected:
    # the stubs report their own termination through descriptors they inherit)
    closed = None
    if not unknown_child and rng.random() < 0.15:
        to_stdout = mode == '-E' or '-' in argv or (mode in ('-S', '-emit-qbe') and False)
        closed = rng.choice(['in', 'in'] + ([] if to_stdout or '-v' in argv or kind != 'none' else ['out', 'both', 'out', 'both']))
        what += '; driver started with standard %s closed' % {'in': 'input', 'out': 'output', 'both': 'input and output'}[closed]
    return dict(argv=argv, beh=beh, nospawn=nospawn, unknown_child=unknown_child, what=what, mode=mode, ninputs=n, kind=kind, closed=closed)


class ProcRig(Rig):
    """driver rig plus tool directories in which one tool is not executable, plus the shim"""

    def __init__(self, ctx, snap, target):
        super().__init__(ctx, snap, target, name='prig-' + target)
        if self.err:
            return
        self.shim = os.path.join(self.dir, 'shim.so')
        rc, out, err = sh('gcc -shared -fPIC -O1 -w %s -o %s -ldl' % (SHIM_SRC, self.shim), timeout=120)
        if rc != 0:
            self.err = 'shim does not compile: ' + txt(err)[-1000:]
            return
        self.tooldirs = {}
        self.bindirs = {}
        for g, tool in c17_drv.TOOLS.items():
            d = os.path.join(self.dir, 'tools-no-' + g)
            os.makedirs(d)
            for g2, tool2 in c17_drv.TOOLS.items():
                if g2 == g:
                    with open(os.path.join(d, tool2), 'w') as f:
                        f.write('not executable\n')
                    os.chmod(os.path.join(d, tool2), 0o644)
                else:
                    os.link(self.stub, os.path.join(d, tool2))
            self.tooldirs[g] = d
        d = os.path.join(self.dir, 'bin-no-cc')
        os.makedirs(d)
        os.link(self.cproc, os.path.join(d, 'cproc'))
        with open(os.path.join(d, 'cproc-qbe'), 'w') as f:
            f.write('not executable\n')
        os.chmod(os.path.join(d, 'cproc-qbe'), 0o644)
        self.bindirs['cc'] = d

    def run_scenario(self, sc, timeout=12):
        r = self.fresh()
        env = {'SHIM_LOG': os.path.join(r, 'shim.log')}
        for k, v in sc['beh'].items():
            env['STUB_B_' + k] = v
        prefix = None
        if sc['unknown_child']:
            prefix = [b'/bin/sh', b'-c', b'(exit 3) & exec "$0" "$@"']
        elif sc.get('closed'):
            prefix = [b'/bin/sh', b'-c', b'exec "$0" "$@"' + {'in': b' <&-', 'out': b' >&-', 'both': b' <&- >&-'}[sc['closed']]]
        res = self.run([a.encode() for a in sc['argv']], r=r, env_extra=env, timeout=timeout, preload=self.shim,
                       tooldir=self.tooldirs.get(sc['nospawn']), bindir=self.bindirs.get(sc['nospawn']), keep=True, prefix_cmd=prefix)
        try:
            res['shim'] = open(env['SHIM_LOG']).read().split('\n')
        except OSError:
            res['shim'] = []
        shutil.rmtree(r, ignore_errors=True)
        return res


def decode_status(st):
    if st & 0x7f == 0:
        return 'E%d' % ((st >> 8) & 0xff)
    if (st & 0x7f) != 0x7f:
        return 'S%d' % (st & 0x7f)
    return 'O'


def observe(res, bindir_cc):
    """The driver's own calls, in the oracle's event notation, and the environment they reveal.
    Returns (events, env_lines, info)."""
    dpid = str(res['pid'])
    temps = {}
    pidx = {}
    events, envl = [], []
    info = dict(spawned=[], waited=[], killed=[], temps=[], outputs={}, link_started=False, failure=False, unknown_waits=0,
                attempted={})

    def word(w):
        if w in temps:
            return 'T%d' % temps[w]
        return hexw(w)

    def pid_index(p):
        if p not in pidx:
            pidx[p] = len(pidx) + 1
        return pidx[p]
    k = 0
    state = 'start'
    for line in res['shim']:
        f = line.split(' ')
        if len(f) < 2 or f[0] != dpid:
            continue
        if f[1] == 'mkstemp':
            path = unhexw(f[3])
            temps[path] = len(temps)
            info['temps'].append(path)
            if state == 'waiting':
                k += 1
                state = 'start'
            events.append('mkstemp T%d' % temps[path])
        elif f[1] == 'spawn':
            ret, child = int(f[2]), int(f[3])
            argv = [unhexw(w) for w in f[4:]]
            tool = TOOL_OF.get(os.path.basename(argv[0].decode('latin1')), '?')
            if tool == 'ld':
                info['link_started'] = True
                if ret == 0:
                    events.append('spawnlink' + ''.join(' ' + word(w) for w in argv))
                    info['link_pid'] = child
                else:
                    events.append('spawnlinkfail')
                    info['failure'] = True
                envl.append(('LINKSPAWN', ret == 0))
                continue
            if state == 'waiting':
                k += 1
            state = 'spawning'
            o = next((argv[i + 1] for i in range(1, len(argv) - 1) if argv[i] == b'-o'), None)
            info['attempted'].setdefault(k, []).append((tool, o))
            if ret == 0 and len(info['attempted'][k]) == 1:
                info.setdefault('first_pids', set()).add(child)
            if ret == 0:
                pi = pid_index(child)
                info['spawned'].append(child)
                events.append('spawn %d %s %d' % (k, tool, pi) + ''.join(' ' + word(w) for w in argv))
                envl.append('SPAWN %d %s 1 %d' % (k, tool, pi))
            else:
                events.append('spawnfail %d %s' % (k, tool))
                envl.append('SPAWN %d %s 0 0' % (k, tool))
                info['failure'] = True
                info['failed_pipeline'] = k
                info['spawnfail_at'] = (len(info.get('wait_seq', [])), len(info['spawned']))
                state = 'waiting'       # the wait loop follows (goto kill)
        elif f[1] == 'wait':
            p, st = int(f[2]), int(f[3])
            state = 'waiting'
            if p < 0:
                events.append('waiterror')
                continue
            known = p in pidx
            pi = pid_index(p) if known else 900 + info['unknown_waits']
            if not known:
                info['unknown_waits'] += 1
            else:
                info['waited'].append(p)
                info.setdefault('wait_status', {})[p] = decode_status(st)
                info.setdefault('wait_seq', []).append((p, decode_status(st), len(info['killed'])))
                if decode_status(st) != 'E0':
                    info['failure'] = True
                    info.setdefault('failed_pipeline', k)
            events.append('wait %d %s' % (pi, decode_status(st)))
            envl.append('WAIT %d %d %s' % (k, pi, decode_status(st)))
        elif f[1] == 'waitpid':
            st = int(f[4])
            events.append('waitlink ' + decode_status(st))
            envl.append(('LINKSTATUS', decode_status(st)))
            if decode_status(st) != 'E0':
                info['failure'] = True
        elif f[1] == 'kill':
            p, sig = int(f[2]), int(f[3])
            info['killed'].append(p)
            events.append('kill %d' % pid_index(p) + ('' if sig == 15 else ' sig=%d' % sig))
        elif f[1] == 'unlink':
            events.append('unlink ' + word(unhexw(f[3])))
    events.append('exit %d' % res['rc'] if res['rc'] >= 0 else 'killed-by-signal %d' % -res['rc'])
    lines = [l for l in envl if isinstance(l, str)]
    lk = dict(l for l in envl if not isinstance(l, str))
    lines.append('LINK %d %s' % (1 if lk.get('LINKSPAWN', True) else 0, lk.get('LINKSTATUS', 'E0')))
    return events, lines, info


def spec_check(sc, res, info):
    """The property, decided on the observation alone.  Returns a list of complaints."""
    bad = []
    recs = {r['pid']: r for r in res['recs']}
    if res['timed_out']:
        return ['the driver did not finish within the time limit (hang)']
    maxdelay = max([int(v.split(',')[2]) for v in sc['beh'].values()] + [0]) / 1000.0
    if res['wall'] > 4.0 + 4 * maxdelay * (1 + sc['ninputs']):
        bad.append('took %.1f s' % res['wall'])
    for p in info['spawned']:
        if p not in info['waited']:
            bad.append('child %d (%s) was started but never reaped' % (p, recs.get(p, {}).get('id', '?')))
    for r in res['leftover']:
        bad.append('%s.%d (pid %d) still running after the driver exited' % (r['id'], r['k'], r['pid']))
    # every stage but the first of its pipeline reads the previous stage's output from its standard input
    for p in info['spawned']:
        r = recs.get(p)
        if r is not None and 'stdin-error' in r['events'] and p not in info.get('first_pids', ()) and r['id'] != 'ld':
            bad.append('%s.%d could not read its standard input: the pipe from the previous stage was not connected to it (or closed again)' % (r['id'], r['k']))
    for t in info['temps']:
        if os.path.exists(t):
            bad.append('temporary object %s left behind' % t.decode())
    if info['failure']:
        if res['rc'] == 0:
            bad.append('exit status 0 although a stage failed')
        link_failed = info['link_started']
        if info['link_started'] and 'failed_pipeline' in info:
            bad.append('the linker was started although a compilation stage had failed')
        fp = info.get('failed_pipeline')
        if fp is not None:
            for tool, o in info['attempted'].get(fp, []):
                if o is not None and not o.startswith(b'/tmp/cproc-') and os.path.normpath(o.decode('latin1')) in res['files']:
                    bad.append('output %s of the failed pipeline is still there' % o.decode('latin1'))
        # every child that is reaped after the first failure of its pipeline must have been sent SIGTERM
        seq = info.get('wait_seq', [])
        first_bad = next((i for i, (p, st, nk) in enumerate(seq) if st != 'E0'), None)
        if 'spawnfail_at' in info:
            first_bad = info['spawnfail_at'][0] - 1 if first_bad is None or info['spawnfail_at'][0] <= first_bad else first_bad
        if first_bad is not None and 'failed_pipeline' in info:
            for p, st, nk in seq[first_bad + 1:]:
                if p not in info['killed']:
                    rr = recs.get(p)
                    bad.append('%s was still unreaped when a stage failed but was not sent SIGTERM' % (rr['id'] if rr else p))
        # SIGTERM reaches every stage that is still running
        for p in info['killed']:
            r = recs.get(p)
            if r is not None and 'end' not in r['events'] and 'term' not in r['events'] and info.get('wait_status', {}).get(p) != 'S15':
                bad.append('%s.%d was sent SIGTERM but did not notice' % (r['id'], r['k']))
    else:
        if res['rc'] != 0:
            bad.append('exit status %d although every tool succeeded' % res['rc'])
        for k, att in info['attempted'].items():
            tool, o = att[-1]
            if o is not None and not o.startswith(b'/tmp/cproc-') and os.path.normpath(o.decode('latin1')) not in res['files']:
                bad.append('output %s is missing' % o.decode('latin1'))
        if sc['mode'] == 'link' and not info['link_started']:
            bad.append('the linker was not started')
    for r in res['recs']:
        if 'term' in r['events'] and r['pid'] and r['pid'] not in info['killed']:
            bad.append('%s.%d received SIGTERM that the driver did not send' % (r['id'], r['k']))
    return bad


def ask_oracle(oracle, rig, envlines, argv):
    inp = '\n'.join(rig.oracle_cfg_lines() + envlines + ['RUN ' + ' '.join(hexw(a) for a in argv)]) + '\n'
    rc, out, err = vlib.run_limited([oracle], input=inp.encode(), timeout=60)
    lines = out.decode().split('\n')
    if '.' not in lines:
        return None, None
    lines = lines[:lines.index('.')]
    return lines[:-1], lines[-1]


def run(ctx):
    ctx.level_note = LEVEL_NOTE
    rng = ctx.rng
    thorough = ctx.tier == 'thorough'
    snap = ctx.snapshot(build=False)
    ok = ctx.coq(['Properties/%s.vo' % MODULE, 'Extract/Extract_c18.vo'])
    if ok:
        ctx.assumptions(MODULE, ctx.theorem_names(MODULE))
    oracle = ctx.oracle('c18') if ok else None
    stats = dict(scenarios=0, by_kind={}, by_mode={}, failing_runs=0, kill_broadcasts=0, children_killed=0, wait_orders=0,
                 unknown_children_reaped=0, spawn_failures=0, exit_codes={})
    samples = []
    orders = set()
    nontrivial = set()
    rigs = []
    for t in TARGETS:
        r = ProcRig(ctx, snap, t)
        if r.err:
            ctx.broken('build', 'driver rig ' + t, r.err)
        else:
            rigs.append(r)
    ctx.ob('K:driver.c+util.c build against configure-generated config.h; shim and stubs build', bool(rigs))
    mismatches = 0
    if oracle and rigs:
        nsc = 900 if not thorough else 12000
        scs = [gen_scenario(rng, i) for i in range(nsc)]
        jobs = [(rigs[i % len(rigs)], sc) for i, sc in enumerate(scs)]

        def one(job):
            rg, sc = job
            res = rg.run_scenario(sc)
            events, envl, info = observe(res, None)
            model, summary = ask_oracle(oracle, rg, envl, sc['argv'])
            return rg, sc, res, events, info, model, summary
        for rg, sc, res, events, info, model, summary in vlib.parallel_map(one, jobs, nproc=3 * vlib.NCPU):
            stats['scenarios'] += 1
            stats['by_kind'][sc['kind']] = stats['by_kind'].get(sc['kind'], 0) + 1
            stats['by_mode'][sc['mode']] = stats['by_mode'].get(sc['mode'], 0) + 1
            stats['exit_codes'][res['rc']] = stats['exit_codes'].get(res['rc'], 0) + 1
            stats['failing_runs'] += 1 if info['failure'] else 0
            stats['kill_broadcasts'] += 1 if info['killed'] else 0
            stats['children_killed'] += len(info['killed'])
            stats['unknown_children_reaped'] += info['unknown_waits']
            stats['spawn_failures'] += sum(1 for e in events if e.startswith('spawnfail') or e == 'spawnlinkfail')
            order = tuple(e.split(' ', 2)[0] + ':' + (e.split(' ')[2] if e.startswith('wait ') else '') for e in events
                          if e.split(' ')[0] in ('wait', 'kill', 'spawnfail'))
            orders.add((tuple(sc['argv']), order))
            if info['failure'] or info['unknown_waits']:
                nontrivial.add((tuple(sc['argv']), tuple(sorted(sc['beh'].items())), sc['nospawn'], order))
            replay = json.dumps({'target': rg.target, 'scenario': sc}, indent=1)
            complaints = spec_check(sc, res, info)
            for tpath in info['temps']:      # do not litter /tmp when the driver under test leaks
                try:
                    os.unlink(tpath)
                except OSError:
                    pass
            if complaints:
                stats['runs_violating_the_property'] = stats.get('runs_violating_the_property', 0) + 1
            if complaints and stats['runs_violating_the_property'] <= 6:
                ctx.violation('cproc %s with %s: %s' % (' '.join(sc['argv']), sc['what'], '; '.join(complaints[:4])), replay, 'json',
                              key='fail-clean:' + re.sub(r'\d+', 'N', complaints[0])[:60])
            if model is None:
                ctx.broken('build', 'oracle', 'the extracted model did not answer')
                mismatches += 1
            elif model != events:
                mismatches += 1
                i = next((i for i, (a, b) in enumerate(zip(model, events)) if a != b), min(len(model), len(events)))
                if not complaints and mismatches <= 3:
                    ctx.broken('correspondence', 'DriverProc.run vs driver.c',
                               'cproc %s with %s: call %d differs.\n real : %s\n model: %s\n(real trace: %s)'
                               % (' '.join(sc['argv']), sc['what'], i, events[i:i + 3], model[i:i + 3], events))
            if len(samples) < 3 and info['killed']:
                samples.append({'argv': sc['argv'], 'injected': sc['what'], 'trace': [c17_pretty(e) for e in events][:30]})
        ctx.ob('K:%d injected-fault runs: recorded trace of driver calls equals the extracted DriverProc.run' % stats['scenarios'], mismatches == 0)
        ctx.ob('K:fail-clean / success-clean properties hold on every observed run', not ctx.violations)
    stats['wait_orders'] = len(orders)
    cov = dict(evaluations=stats['scenarios'], distinct_nontrivial=len(nontrivial),
               rule='distinct (command line, injected behaviour, observed order of spawn failures / wait() results / kills) among the runs '
                    'with a failing stage or an inherited unknown child; shapes: 1..3 inputs x {-E,-emit-qbe,-S,-c,link}',
               samples=samples, stats=stats, level_note=LEVEL_NOTE)
    return ctx.finish(cov, assumptions=[
        LEVEL_NOTE,
        'kernel semantics assumed, not proved: wait() returns each terminated child exactly once and never 0; live children have distinct '
        'non-zero pids; a child that has finished or was sent SIGTERM is eventually returned by wait() (fairness); a tool no longer '
        'writes its output once it has been reaped',
        'a child that ignores SIGTERM, and a stage that exits 0 without reading its input while its producer is blocked on a full pipe '
        '(the driver keeps the read ends open), are outside the theorems',
        'driver.c is tied to Model/DriverProc.v by differential runs under an LD_PRELOAD shim (call-by-call trace equality), not by proof'])


def c17_pretty(text):
    return re.sub(r'\bx((?:[0-9a-f]{2})+)\b', lambda m: repr(bytes.fromhex(m.group(1)).decode('latin1')), text)


def replay(ctx, path):
    snap = ctx.snapshot(build=False)
    j = json.load(open(path))
    rig = ProcRig(ctx, snap, j['target'])
    if rig.err:
        print(rig.err)
        return 1
    sc = j['scenario']
    res = rig.run_scenario(sc)
    events, envl, info = observe(res, None)
    print('cproc', ' '.join(sc['argv']), ' -- ', sc['what'])
    for e in events:
        print('  ', c17_pretty(e))
    print(res['err'].decode('latin1'))
    complaints = spec_check(sc, res, info)
    print('complaints:', complaints)
    oracle = ctx.oracle('c18')
    if oracle:
        model, summary = ask_oracle(oracle, rig, envl, sc['argv'])
        print('model agrees' if model == events else 'model trace differs: %r' % (model,))
    return 1 if complaints else 0
