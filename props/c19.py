# C19 - the compiler proper is memory-safe, terminating and exits only 0, 1 or 2.   DESIGN.md section 5 (C19).
# PARTIAL: Coq carries the termination/bound lemmas of the modelled algorithms; the rest is a
# sanitizer-assisted search for failing inputs (not a proof).
import os, re, glob, hashlib, json, sys
import vlib
from vlib import sh, txt, run_limited

LEVEL = 'proof'
MODULE = 'Properties_C19'

KEYWORDS = ('int long short char unsigned signed float double void struct union enum typedef static extern inline '
            'const volatile restrict _Bool _Alignas _Alignof _Static_assert _Generic _Thread_local _Noreturn sizeof '
            'if else while do for switch case default break continue return goto __attribute__ typeof auto register '
            'nullptr true false constexpr __asm__ _Atomic _Complex').split()
PUNCT = ['[', ']', '(', ')', '{', '}', '.', '->', '++', '--', '&', '*', '+', '-', '~', '!', '/', '%', '<<', '>>', '<', '>', '<=', '>=',
         '==', '!=', '^', '|', '&&', '||', '?', ':', '::', ';', '...', '=', '*=', '/=', '%=', '+=', '-=', '<<=', '>>=', '&=', '^=', '|=',
         ',', '#', '##', '[[', ']]']
ATOMS = ['0', '1', '-1', '0x7fffffff', '0x80000000', '4294967296', '18446744073709551615', '1.5', '1e400', '0x1p-1080', '\'a\'', '"s"', 'L"w"', 'u8"x"',
         'x', 'y', 'f', 'T', '__builtin_va_list', '__builtin_offsetof', '__builtin_alloca', '__builtin_va_arg', '__builtin_types_compatible_p',
         '__builtin_constant_p', '__builtin_expect', '__builtin_nanf', '__builtin_inff', '__builtin_unreachable', '__builtin_va_start', '__builtin_va_copy']
TOKRE = re.compile(rb'[A-Za-z_][A-Za-z_0-9]*|\d[\w.]*|"(?:[^"\\\n]|\\.)*"|\'(?:[^\'\\\n]|\\.)*\'|<<=|>>=|\.\.\.|->|\+\+|--|<<|>>|<=|>=|==|!=|&&|\|\||[-+*/%&|^]=|::|##|\s+|.', re.S)

def _index_boundaries():
    """designated indices around floor(2^64 / element size): the size computation of an array of unknown length must not wrap"""
    out = []
    for ty, sz in (('char', 1), ('short', 2), ('int', 4), ('long', 8), ('struct { char c[24]; }', 24)):
        lim = (1 << 64) // sz
        for k in (lim - 2, lim - 1, lim, lim + 1):
            if k >= 1 << 64:
                continue
            init = '{ 0 }' if ty.startswith('struct') else '1'
            out.append(('index-boundary-static-%d-%x' % (sz, k), '%s a[] = { [%#x] = %s };\nint n = sizeof a != 0;\n' % (ty, k, init)))
            if (k + 1) * sz >= 1 << 64:          # rejected quickly on the unchanged tree; the accepted ones would zero 2^64 bytes store by store
                out.append(('index-boundary-auto-%d-%x' % (sz, k), 'void f(void) { %s a[] = { [%#x] = %s }; }\n' % (ty, k, init)))
    return out


HANDWRITTEN = [
    ('union-two-designators', 'union U { int a; char b; } u = { .a = 1, .b = 2 };\n'),
    ('designator-depth-33', 'struct S { int a; } ;\nint x[1]' + '[1]' * 34 + ' = {' + '[0]' * 35 + ' = 1};\n'),
    ('attr-eof', '[[foo('),
    ('div-zero', 'int x = 1/0; int y = 1%0; long z = (-0x7fffffffffffffff-1) / -1;\n'),
    ('vla-zero-size-elements', 'struct S { int x[0]; }; typedef int Z[0]; int f(int n) { struct S a[n]; Z b[n]; Z c[n][2]; struct S d[2][n]; return sizeof a + sizeof b + sizeof c + sizeof d; }\n'),
    # round 13: growth of the macro context stack in the middle of a substitution (chains of function-like macros handing
    # their parameter down), over-aligned automatic structs with initialised bit-fields, variadic macros invoked without the
    # variable part after an invocation that had one, asm labels on block-scope redeclarations of unlabelled file-scope names
] + [('macro-chain-%d' % n, '#define M0(x) x\n' + ''.join('#define M%d(x) M%d(x)\n' % (k, k - 1) for k in range(1, n + 1)) +
      'int v%d = M%d(5) + M%d(M%d(1) * M%d(2));\n' % (n, n, n, n // 2, n - 1)) for n in (7, 9, 10, 11, 12, 20, 21, 22, 24, 41, 42, 43, 45, 90, 200)] + [
    ('macro-chain-two-params', '#define N0(x, y) x y\n' + ''.join('#define N%d(x, y) N%d(y, x)\n' % (k, k - 1) for k in range(1, 31)) + 'int N30(a, = 1;) int N28(b, = 2;) int N29(= 3;, c)\n'),
    ('aligned-struct-bitfield-init', 'struct A { _Alignas(16) int a; int b : 3; int c; }; struct B { char p; short q : 5; _Alignas(32) long r; }; struct C { _Alignas(64) char z; unsigned w : 9, v : 7; };\n'
                                     'struct F { unsigned ready : 1; unsigned mode : 3; _Alignas(16) int payload[3]; };\n'
                                     'int f(int k) { struct A x = { 1, 2, 3 }; struct B y = { 1, 2, 3 }; struct C z = { .w = 5, .v = 6 }; struct A xs[2] = { { .b = 1 } }; struct F g = { 1, 5, { 7 } };\n'
                                     '  return x.b + y.q + z.w + xs[0].b + g.mode + k; }\n'),
    ('variadic-omitted', '#define LOG(fmt, ...) f(fmt, __VA_ARGS__)\n#define S(a, ...) #a #__VA_ARGS__\nint f(const char *, ...);\nint g(void) { return LOG("a", 1, 2) + LOG("x"); }\nconst char *s = S(1, 2) S(3);\n'),
    ('variadic-omitted-first', '#define LOG(fmt, ...) f(fmt, __VA_ARGS__)\nint f(const char *, ...);\nint g(void) { return LOG("x"); }\n'),
    ('variadic-omitted-str', '#define S(a, ...) #a #__VA_ARGS__\nconst char *s = S(1, 2, 3) S(4) S(5);\n'),
    ('vm-parameter-argument-conversion', 'void g(int n, int (*a)[n]); void g2(int n, int m, int a[n][m], int (*b)[m][n]); long d(int n, int (*a)[n]) { return sizeof *a; }\n'
                                         'long h(void *q, int (*r)[3]) { g(3, q); g(3, r); g2(2, 3, q, q); return d(4, q) + d(3, r); }\n'),
    ('asm-label-block-extern-object', 'int c; int f(void) { extern int c __asm__("x"); return c; }\n'),
    ('asm-label-block-extern-func', 'int g(void); int f(void) { int g(void) __asm__("y"); return g(); }\n'),
    ('asm-label-block-extern-reverse', 'int c __asm__("x"); int g(void) __asm__("y"); int f(void) { extern int c; int g(void); return c + g(); }\n'),
    ('asm-label-block-extern-same', 'int c __asm__("x"); int f(void) { extern int c __asm__("x"); return c; }\n'),
    ('offsetof-no-type', 'int x = __builtin_offsetof(, x);\n'), ('zero-size-elements', 'int a[5][0]; int b[0][3]; struct { int x[0]; } c[4];\n'),
    ('addr-deref-string', 'char *p = &*"abc"; int a[3]; int *q = &*a; char c = *"x";\n'), ('struct-condition', 'struct s { int a; } x; int f(void) { return x ? 1 : 2; }\n'),
    ('for-missing-semicolon', 'void f(void) { int i; for (i = 0 i < 3; ) ; }\n'), ('for-missing-semicolon2', 'void f(void) { for (int i = 0; i < 3 i++) ; }\n'),
    ('struct-incdec', 'struct s { int a; } x; void f(void) { x++; }\n'), ('void-cast-int', 'int f(void) { return (int)(void)0; }\n'),
    ('undef-inside-own-call', '#define F(x) x + x\nint a = F(\n#undef F\n1);\n#define G(x) x\nint b = G(\n#undef G\n#define G(y) y y\n2) G(3);\n'),
    # every white-space character between tokens, line endings with carriage returns, every simple escape (also as case labels:
    # the self-compiled compiler's own scanner switches on them)
    ('whitespace-vt-ff', 'int\va\f=\t1;\v\fint b;\n'), ('crlf-line-ends', 'int a;\r\nint b;\r\n'), ('lone-cr', 'int a;\rint b;\n'),
    ('all-simple-escapes', 'char s[] = "\\a\\b\\f\\n\\r\\t\\v\\\\\\\'\\"\\?"; int v = \'\\v\' + \'\\a\' * 2 + \'\\f\' * 3 + \'\\r\' * 5 + \'\\t\' * 7 + \'\\b\' * 11 + \'\\n\' * 13;\n'
                           'int w(int c) { switch (c) { case \'\\v\': return 1; case \'\\f\': return 2; case \'\\r\': return 3; case \'\\a\': return 4; case \'\\b\': return 5; case \'\\t\': return 6; } return 0; }\n'),
    # round 16: an override of the element just past a string literal's terminator (buffer growth boundary), member designators
    # of offsetof applied to non-struct types, __builtin_types_compatible_p with a non-type operand, #undef of the macro being invoked
    ('string-override-at-length', 'char s[8] = { "abc", [4] = \'x\' }; unsigned u[8] = { U"abcde", [6] = 1, [7] = 2 }; unsigned w[9] = { U"abcdefg", [8] = 3 };\n'
                                  'void f(void) { static unsigned short h[6] = { u"ab", [3] = 7 }; static char t[6] = { "a", [2] = 1, [3] = 2, [4] = 3 }; }\n'),
    ('offsetof-member-of-scalar', 'struct in { int a; int b[3]; }; struct out { struct in in[2]; int v[3]; }; int x = __builtin_offsetof(struct out, in[1].a.b);\n'),
    ('offsetof-member-of-array', 'struct in { int a; int b[3]; }; struct out { struct in in[2]; int v[3]; }; int x = __builtin_offsetof(struct out, v.c);\n'),
    ('offsetof-index-of-scalar', 'struct in { int a; int b[3]; }; int x = __builtin_offsetof(struct in, a[1]);\n'),
    ('types-compatible-non-type', 'int obj; int x = __builtin_types_compatible_p(int, obj);\n'),
    ('types-compatible-hidden-typedef', 'typedef int T; int f(void) { int T = 1; return __builtin_types_compatible_p(int, T) + T; }\n'),
    ('types-compatible-first-non-type', 'int obj; int x = __builtin_types_compatible_p(obj, int);\n'),
    ('undef-inside-own-call-only', '#define MUL(a, b) a + b\nint x = MUL(1,\n#undef MUL\n2);\n'),
    ('undef-redefine-other-inside-call', '#define MUL(a, b) a + b\nint x = MUL(1,\n#undef MUL\n#define OTHER(p, q, r) p q r\n2);\nint y = OTHER(3, +, 4);\n'),
    ('wide-auto-short-literal', 'int f(void) { unsigned b[10] = U"xyz"; unsigned short h[9] = u"ab"; int w[7] = L"q"; unsigned e[4] = U""; return b[4] + h[5] + w[3] + e[1]; }\n'),
    ('variadic-many-arguments', 'int sum(int n, ...); int printf(const char *, ...); int f(int a) { return sum(12, 1, 2, 3, 4, 5, 6, 7, 8, 9, 10, 11, 12) + printf("%d %d %d %d %d %d %d %s\\n", a, 2, 3, 4, 5, 6, 7, "x") + sum(0); }\n'
                                'int g(int (*v)(int, ...)) { return v(1, 2.0, 3L, "s", 4, 5, 6, 7, 8, 9, 10, 11, 12, 13, 14, 15, 16, 17, 18, 19, 20); }\n'),
    # round 19: integer[pointer] subscripts, function types of different arity (both orders), copies of structs whose size is
    # not a multiple of the copy step or is zero, function definitions through a typedef (invalid)
    ('reversed-subscript', 'int tab[4]; int f(int *p, int i) { return i[p] + 2[tab] + 1[p + 1] + (i + 1)[tab]; }\n'),
    ('function-arity-compat', 'int (*fa)(int, int); int k = _Generic(fa, int (*)(int): 1, int (*)(int, int): 2, default: 0); int k2 = __builtin_types_compatible_p(int (*)(int, int, int), int (*)(int)),\n'
                              '  k3 = __builtin_types_compatible_p(int (*)(int), int (*)(int, int, int)), k4 = __builtin_types_compatible_p(int (*)(void), int (*)(int)), k5 = __builtin_types_compatible_p(int (*)(int), int (*)(void));\n'),
    ('function-arity-redecl-longer-first', 'int f(int, int); int f(int);\n'), ('function-arity-redecl-shorter-first', 'int f(void); int f(int);\n'), ('function-arity-redecl-void-second', 'int f(int, int, int); int f(void);\n'),
    ('copy-odd-size-structs', 'struct __attribute__((packed)) P { _Alignas(4) char c; char d[5]; }; struct Z { int a[0]; }; struct T3 { char c[3]; }; struct T7 { short s[3]; char c; };\n'
                              'void f(struct P *a, struct P *b, struct Z *y, struct Z *z, struct T3 *t, struct T3 *u, struct T7 *v, struct T7 *w) { *a = *b; *y = *z; *t = *u; *v = *w; }\n'
                              'struct P gp(struct P x) { struct P l = x; return l; } struct Z gz(struct Z x) { struct Z l = x; return l; }\n'),
    ('definition-through-typedef', 'typedef int handler(int); handler second { return 0; }\n'),
    ('define-identical-inside-call', '#define H(x) x + x\nint c = H(\n#define H(x) x + x\n4);\n#define W(a, b) #a b\nconst char *s = W(q,\n#define W(a, b) #a b\n"r");\nint d = H(1);\n'),
    ('define-identical-after-use', '#define H(x) x + x\nint c = H(1);\n#define H(x) x + x\nint d = H(2);\n#define H(x) x + x\n#define K 1\n#define K 1\nint e = K;\n'),
    ('define-inside-call', '#define H(x) x\nint c = H(\n#define H(x) x x\n4);\n'),
    ('udiv-zero-init', 'unsigned a = 5u / 0u;\n'), ('urem-zero-enum', 'enum { E = 7u % 0u };\n'), ('udiv-zero-array', 'char b[sizeof(int) / 0];\n'),
    ('urem-zero-case', 'int f(int v) { switch (v) { case 1ul % 0: return 1; } return 0; }\n'), ('udiv-zero-bitfield', 'struct s { int a : 8u / 0u; };\n'),
    ('udiv-zero-assert', '_Static_assert(1ull / 0ull, "");\n'), ('udiv-zero-local', 'unsigned f(void) { return 5u / 0u + 7u % 0u; }\n'),
    ('T:va-copy', 'int f(int n, ...) { __builtin_va_list a, b; __builtin_va_start(a, n); __builtin_va_copy(b, a); int x = __builtin_va_arg(a, int) + __builtin_va_arg(b, int) + __builtin_va_arg(b, long); __builtin_va_end(a); __builtin_va_end(b); return x; }\n'
                  'int g(int n, __builtin_va_list src) { __builtin_va_list c; __builtin_va_copy(c, src); n += __builtin_va_arg(c, int); __builtin_va_end(c); return n; }\n'),
    ('T:va-list-braced', 'void f(void) { __builtin_va_list ap = { 0 }; }\n'), ('T:va-list-member', 'struct s { int a; __builtin_va_list ap; int b; } x = { 1, 2, 3 };\n'),
    ('T:va-list-designated', 'struct s { int a; __builtin_va_list ap; } x = { .ap = { 0 } };\n'), ('T:va-list-empty', '__builtin_va_list g = { }; void f(void) { __builtin_va_list ap = { }; }\n'),
    ('T:char-escapes', "int a['\\xff' > 0 ? 1 : 2]; int b = '\\377' >> 1; char c = '\\x80';\n"),
    ('enum-incomplete-arith', 'enum e; enum e *p; int f(void) { return *p + 1; }\n'), ('enum-incomplete-switch', 'enum e; enum e *p; int f(void) { switch (*p) { default: return 0; } }\n'),
    ('enum-incomplete-cond', 'enum e; enum e *p; int f(void) { return *p ? 1 : 2; }\n'), ('enum-incomplete-cast', 'enum e; int f(void) { return (enum e)1 == 1; }\n'),
    ('enum-incomplete-call', 'enum e; enum e g(void); int h(int, ...); int f(void) { return h(1, g()); }\n'), ('enum-fixed-forward', 'enum e : short; enum e *p; int f(void) { return *p + !*p; }\n'),
    ('funtype-compound-literal', 'typedef int F(void); void g(void) { (F){ 1 }; }\n'), ('funtype-compound-sizeof', 'typedef int F(void); int h(void) { return sizeof(F){ 1 }; }\n'),
    ('typedef-function-definition', 'typedef int F(void); F f { return 0; }\n'), ('qualified-function-parameter', 'typedef void F(void); void g(const F f);\n'),
    ('zero-length-array-init', 'int a[0] = { 1 };\n'), ('zero-length-member-init', 'struct s { int a[0]; } x = { 1 };\n'), ('zero-length-auto', 'void g(void *); void f(void) { int b[0]; int c[0] = { }; g(b); g(c); }\n'),
    ('zero-length-auto-init', 'void f(void) { int a[0] = { 1 }; }\n'), ('string-patch-nonconstant', 'int g; struct { char s[4]; } x = { .s = "abc", .s[1] = (char)&g };\n'),
    ('low-surrogate-narrow', b'char s[] = "\xed\xb0\x80"; char t[] = "a\xed\xbf\xbfz";\n'), ('low-surrogate-u8', b'unsigned char s[] = u8"\xed\xb4\x80";\n'),
    ('low-surrogate-u16', b'unsigned short s[] = u"\xed\xb0\x80";\n'), ('low-surrogate-u32', b'unsigned s[] = U"\xed\xbf\xbf"; int c = L\'\xed\xb0\x80\';\n'),
    ('high-surrogate-u16', b'unsigned short s[] = u"\xed\xa0\x80\xed\xb0\x80";\n'),
    ('macro-redef-more-params', '#define N()\n#define N(a, b) a\n'), ('macro-redef-more-params2', '#define N(a) a\n#define N(a, b, c) a\nint x = N(1);\n'),
    ('macro-redef-fewer-params', '#define N(a, b) a\n#define N() 1\n'), ('macro-redef-variadic', '#define N()\n#define N(...) __VA_ARGS__\n'),
    ('union-flexible-init', 'union { int kind; int words[]; } x = { .words = { 1, 2, 3 } };\n'), ('union-flexible-init-anon', 'struct { int n; union { int k; char c[]; }; } y = { 1, { .c = "abc" } };\n'),
    ('bitfield-width-sentinel', 'struct s { unsigned : ~0ull; int m; } *p; int f(void) { return p->m; }\n'), ('bitfield-width-sentinel2', 'struct s { int a : -1; int : 18446744073709551615; } v;\n'),
    ('attr-aligned-bare', 'int x __attribute__((aligned));\n'), ('attr-aligned-bare2', '[[gnu::aligned]] int y; void f(int p __attribute__((__aligned__))) { }\n'),
    ('attr-aligned-struct', 'struct __attribute__((aligned)) s { char c; } v; struct t { char c; } __attribute__((aligned(8))) w;\n'),
    ('void-parameter-not-alone', 'int f(void, int); int g(void) { return f(1, 2); }\n'), ('enum-float-underlying', 'enum e : float { A }; enum e x; int f(void) { return x + 1; }\n'),
    ('enum-void-underlying', 'enum e : void { A }; enum e x; void f(void) { x = A; }\n'), ('enum-double-underlying-init', 'enum e : double { A = 1 }; enum e x = 2.5;\n'),
    ('rem-overflow', 'long z = (-0x7fffffffffffffff-1) % -1;\n'), ('rem-overflow-case', 'int f(long v){ switch (v) { case (-0x7fffffffffffffffLL-1) % -1: return 1; } return 0; }\n'),
    ('rem-overflow-int', 'int z = (-0x7fffffff-1) % -1; int w = (-0x7fffffff-1) / -1; enum { E = (-0x7fffffffffffffffLL-1) % -1LL };\n'),
    ('backslash-nul-string', b'char *s = "a\\\x00b";\n'), ('backslash-nul-char', b"int c = '\\\x00';\n"), ('backslash-nul-E', b'#define S(x) #x\nchar *s = S("\\\x00");\n'),
    ('nul-in-string', b'char s[] = "a\x00b";\n'), ('backslash-eof', b'char *s = "abc\\'), ('backslash-newline-eof', b'int x = 1; \\\n'),
    ('dup-label', 'int f(void){ l: l: return 0; }\n'),
    ('align16-partial-init', 'struct S { _Alignas(16) int x; int y; }; void f(void){ struct S s = {.y = 1}; }\n'),
    ('surrogate-literal', b'char s[] = "\xed\xa8\x80";\n'),
    ('extern-nolinkage', 'int g(void){ int x = 1; { extern int x; return x; } }\n'),
    ('keyword-macro-twice', '#define T int\nT a; T b;\n'),
    ('pragma-eof', '#pragma once'), ('pragma-eof2', 'int x;\n#pragma'), ('pragma-eof3', '#pragma a b c'), ('line-eof', '#line 3'), ('line-eof2', '# 3 "f.c" 1'),
    ('undef-eof', '#undef X'), ('define-eof2', '#define X 1'), ('define-eof3', '#define f(a,b) a'), ('hash-word-eof', '#foo'), ('ident-eof', 'int x'),
    ('comment-line-eof', 'int x; // c'), ('macro-call-eof2', '#define f(x) x\nint a = f(1'), ('string-eof', 'char *s = "abc'),
    ('empty', ''), ('nul-byte', b'int x;\x00int y;\n'), ('only-backslash', '\\'), ('unterminated-comment', '/* x'),
    ('unterminated-string', '"abc'), ('hash-eof', '#'), ('define-eof', '#define'), ('define-func-eof', '#define f('),
    ('macro-call-eof', '#define f(x) x\nf(1,'), ('line-huge', '#line 99999999999999999999\nint x = y;\n'),
    ('pragma', '#pragma once\n#pragma\nint x;\n'), ('va-arg-misuse', 'void f(int a, ...) { __builtin_va_list ap; __builtin_va_start(ap, a); __builtin_va_arg(ap, struct { int x[100]; }); }\n'),
    ('vla-negative', 'void f(int n) { int a[n][n]; a[0][0] = sizeof(a); }\n'), ('flex-init', 'struct F { int n; int a[]; } f = { 1, { 2, 3 } };\n'),
    ('bitfield-wide', 'struct B { long long a : 64; unsigned b : 1; int : 0; } b = { -1, 1 };\n'),
    ('enum-overflow', 'enum E { A = 0xffffffffffffffff, B };\n'), ('array-huge', 'char a[0xffffffffffffffff][2];\n'),
    ('generic-none', 'int x = _Generic(1.0f, int: 1);\n'), ('static-assert', '_Static_assert(0, "no");\n'),
    ('typeof-rec', 'typeof(typeof(int[3])[2]) x; typeof(x) *y = &x;\n'), ('compound-static', 'int *p = (int[]){1,2,3}; struct s { int a; } *q = &(struct s){4};\n'),
    ('call-many-args', 'int f(); int g(void) { return f(' + ','.join(['1'] * 300) + '); }\n'),
    ('string-concat-mixed', 'char *s = "a" u8"b";\nint *w = L"a" U"b";\n'),
    ('char-const-multi', "int c = 'ab'; int d = ''; int e = '\\400';\n"),
    ('init-overrun', 'int a[2] = { [5] = 1 }; struct s { int x; } v = { 1, 2 };\n'),
    ('switch-float', 'void f(double d) { switch (d) { case 1: ; } }\n'),
    ('case-outside', 'void f(void) { case 1: ; }\n'), ('break-outside', 'void f(void) { break; continue; }\n'),
    ('kr-function', 'int f(a, b) int a, b; { return a + b; }\n'), ('void-object', 'void v; void a[3];\n'),
    ('func-returns-array', 'int f(void)[3];\nint g(void)(void);\n'), ('bitfield-addr', 'struct s { int b : 3; } v; int *p = &v.b;\n'),
    ('incomplete-member', 'struct s { struct s m; }; struct t; struct t x;\n'),
    ('alignas-odd', '_Alignas(3) int x; _Alignas(0) int y; _Alignas(1ull << 40) int z;\n'),
]


def deep_inputs(thorough):
    n = 10000
    big = 1000000
    out = [
        ('deep-parens', 'int x = ' + '(' * n + '1' + ')' * n + ';\n'),
        ('deep-blocks', 'void f(void) ' + '{' * n + '}' * n + '\n'),
        # known finding: the recursive-descent parser has no depth limit; 20 000 levels exhaust the 8 MB stack in the default (-O0)
        # build of /repo, 40 000 in the -O1 build the checks use (80 KB of input)
        ('deep-parens-60000', 'int x = ' + '(' * 60000 + '1' + ')' * 60000 + ';\n'),
        ('deep-unary', 'int x = ' + '-' * n + '1;\n'),
        ('deep-deref', 'void f(int ' + '*' * 2000 + 'p) { ' + '*' * 2000 + 'p; }\n'),
        ('deep-array-dims', 'int a' + '[1]' * 3000 + ';\n'),
        ('deep-struct-nesting', ''.join('struct s%d { ' % i for i in range(1000)) + 'int x; ' + ''.join('} m%d; ' % i for i in range(1000)) + '\n'),
        ('deep-init-braces', 'int a[1]' + '[1]' * 30 + ' = ' + '{' * 31 + '1' + '}' * 31 + ';\n'),
        ('deep-init-braces-40', 'int a[1]' + '[1]' * 40 + ' = ' + '{' * 41 + '1' + '}' * 41 + ';\n'),
        ('deep-designators', 'struct d { struct d2 { int a[2]; } m; } v = { ' + '.m' * 1 + '.a[1]' + ' = 1 };\nint b[2][2][2][2][2][2][2][2][2][2][2][2][2][2][2][2][2][2][2][2][2][2][2][2][2][2][2][2][2][2][2][2][2][2] = { ' + '[1]' * 34 + ' = 1 };\n'),
        ('deep-cond', 'int x = ' + '1 ? ' * 5000 + '1' + ' : 0' * 5000 + ';\n'),
        ('deep-if-else', 'void f(int x) { ' + 'if (x) ; else ' * 5000 + '; }\n'),
        ('deep-macro-nest', '#define f(x) x\nint x = ' + 'f(' * 3000 + '1' + ')' * 3000 + ';\n'),
        ('deep-macro-chain', ''.join('#define m%d m%d\n' % (i, i + 1) for i in range(3000)) + '#define m3000 1\nint x = m0;\n'),
        ('long-ident', 'int ' + 'a' * big + ' = 1;\n'),
        ('long-string', 'char s[] = "' + 'x' * big + '";\n'),
        ('long-number', 'int x = 1' + '0' * 100000 + ';\n'),
        ('long-line-splices', 'int x = 1' + '\\\n' * 100000 + ';\n'),
        ('many-cases', 'void f(int x) { switch (x) { ' + ''.join('case %d: ' % i for i in range(20000)) + '; } }\n'),
        ('many-decls', ''.join('int v%d;\n' % i for i in range(50000))),
        ('many-params', 'void f(' + ','.join('int p%d' % i for i in range(5000)) + ') {}\n'),
        ('many-members', 'struct s { ' + ''.join('int m%d; ' % i for i in range(20000)) + '} v = { ' + ','.join(['1'] * 20000) + ' };\n'),
        ('many-string-literals', 'char *a[] = { ' + ','.join('"s%d"' % i for i in range(20000)) + ' };\n'),
        ('many-gotos', 'void f(void) { ' + ''.join('goto l%d; l%d: ;' % (i, i) for i in range(5000)) + ' }\n'),
        ('many-macro-args', '#define f(...) 0\nint x = f(' + ','.join(['1'] * 50000) + ');\n'),
        ('comment-huge', '/*' + 'x' * big + '*/ int x;\n'),
    ]
    return out


def classify(rc, err):
    """None when the ending is acceptable, else a short call-site signature"""
    # only short lines matter (a diagnostic may echo a megabyte-long token: keep the regexes linear)
    e = '\n'.join(l[:400] for l in txt(err[:200000]).split('\n')[:400])
    m = re.search(r"(\w{1,40}\.c):\d+: ([^\n]{1,200}?): Assertion `([^']*)' failed", e)
    if m:
        fn = re.findall(r'(\w+)\s*\(', m.group(2))        # clang prints the whole signature
        return 'assert:%s:%s:%s' % (m.group(1), fn[0] if fn else m.group(2).split()[-1], m.group(3))
    m = re.search(r'ERROR: AddressSanitizer: ([\w-]+)', e)
    if m:
        fr = re.findall(r'#\d+ 0x[0-9a-f]+ in (\w{1,60}) (?:/[^\s:]{0,200}/)?(\w{1,40}\.c):\d+', e)
        f0 = next((f for f in fr if not f[0].startswith('__')), ('?', '?'))
        return 'asan:%s:%s:%s' % (m.group(1), f0[1], f0[0])
    m = re.search(r'^(?:/[^\s:]{0,200}/)?(\w{1,40}\.[ch]):\d+:\d+: runtime error: ([^\n]*)', e, re.M)
    if m:
        msg = re.sub(r'-?\d[\dxa-fA-F.e+]*', 'N', m.group(2))
        return 'ubsan:%s:%s' % (m.group(1), msg[:80])
    if rc in (-9, -24):
        return 'timeout'
    if rc < 0:
        return 'signal:%d' % -rc
    if rc not in (0, 1, 2):
        return 'status:%d' % rc
    return None


BIGNUM = re.compile(rb'(?<![\w.])(0[xX][0-9a-fA-F]{1,40}|[0-9]{1,40})([uUlL]{0,3})(?![\w.])')


def cost_proportional(e, args, data, env, aslimit):
    """Decides whether a CPU-limit ending is only cost proportional to a numeric constant of the input: an automatic
    `char s[0x80000000] = "abc"` is lowered to 2^28 zeroing stores (gigabytes of correct output) - slow, but the
    compiler does terminate, so C19 is not violated.  Every integer constant >= 2^20 is replaced by 2^12, 2^14 and
    2^16; the ending counts as proportional cost iff all three variants end with status 0 and no signature and the
    output grows with the constant (at least 4x from the first to the last).  Anything else stays a timeout."""
    def big(m):
        try:
            return int(m.group(1), 0 if m.group(1)[:2].lower() == b'0x' else 10) >= 1 << 20
        except ValueError:
            return False
    if not any(big(m) for m in BIGNUM.finditer(data)):
        return False
    lens = []
    for k in (12, 14, 16):
        d2 = BIGNUM.sub(lambda m: (str(1 << k).encode() + m.group(2)) if big(m) else m.group(0), data)
        rc, out, err = run_limited([e] + args, input=d2, timeout=600, cpu=30, env=env, cap=256 << 20, aslimit=aslimit)
        if rc != 0 or classify(rc, err):
            return False
        lens.append(len(out))
    return lens[0] < lens[1] < lens[2] and lens[2] >= 4 * lens[0]


def mutate(rng, data):
    toks = TOKRE.findall(data)
    if not toks:
        return data
    k = rng.random()
    n = len(toks)
    i = rng.randrange(n)
    if k < 0.15:
        del toks[i]
    elif k < 0.30:
        toks.insert(i, toks[rng.randrange(n)])
    elif k < 0.45:
        j = rng.randrange(n)
        toks[i], toks[j] = toks[j], toks[i]
    elif k < 0.70:
        toks[i] = rng.choice(KEYWORDS + PUNCT + ATOMS).encode()
    elif k < 0.80:
        toks.insert(i, rng.choice(KEYWORDS + PUNCT + ATOMS).encode() + b' ')
    elif k < 0.88:
        j = min(n, i + rng.randint(1, 12))
        toks[i:j] = toks[i:j] * rng.randint(2, 4)
    elif k < 0.94:
        b = bytearray(b''.join(toks))
        if b:
            p = rng.randrange(len(b))
            b[p] = rng.choice([0, 0x80, 0xff, 0x5c, 0x22, 0x27, 0x0a, rng.randrange(256)])
        return bytes(b)
    else:
        j = min(n, i + rng.randint(1, 30))
        del toks[i:j]
    return b''.join(toks)


def run(ctx):
    rng = ctx.rng
    thorough = ctx.tier == 'thorough'
    snap = ctx.snapshot(targets='cproc-qbe')
    ok = ctx.coq(['Properties/%s.vo' % MODULE])
    if ok:
        ctx.assumptions(MODULE, ctx.theorem_names(MODULE))
    stats = dict(inputs=0, by_kind={}, endings={}, findings={})
    samples = []
    nontrivial = set()
    if snap:
        # sanitizer build of the same snapshot
        san = os.path.join(ctx.tmp, 'san')
        sh(['rsync', '-a', '--exclude', '*.o', '--exclude', '/cproc', '--exclude', '/cproc-qbe', snap + '/', san + '/'], check=True)
        rc, out, err = sh('make -j%d CC=clang CFLAGS="-std=c11 -O1 -g -fsanitize=address,undefined -fno-sanitize=pointer-overflow -fno-sanitize-recover=all -fno-omit-frame-pointer -DCPROC_VERIF" '
                          'LDFLAGS="-fsanitize=address,undefined" cproc-qbe' % vlib.NCPU, cwd=san, timeout=600)
        if rc != 0:
            ctx.broken('build', 'sanitizer build', txt(err)[-2000:])
            san_exe = None
        else:
            san_exe = os.path.join(san, 'cproc-qbe')
        exe = os.path.join(snap, 'cproc-qbe')
        env = {'PATH': '/usr/bin:/bin', 'LC_ALL': 'C', 'ASAN_OPTIONS': 'detect_leaks=0:exitcode=99:abort_on_error=0:allocator_may_return_null=1',
               'UBSAN_OPTIONS': 'print_stacktrace=0'}
        corpus = []
        for f in sorted(glob.glob(os.path.join(snap, 'test', '*.c'))):
            arch = f[:-2].split('+')[-1] if '+' in os.path.basename(f) else 'x86_64-sysv'
            corpus.append((open(f, 'rb').read(), ['-t', arch] + (['-E'] if os.path.exists(f[:-2] + '.pp') else [])))
        cases = []   # (kind, bytes, args, use_sanitizer)
        for name, src in HANDWRITTEN + _index_boundaries():
            b = src if isinstance(src, bytes) else src.encode()
            cases.append(('hand:' + name, b, ['-t', 'x86_64-sysv'], True))
            cases.append(('hand-E:' + name, b, ['-t', 'x86_64-sysv', '-E'], True))
            if name.startswith('T:'):          # target-dependent constructs (va_list, plain char, ...): the other targets too
                cases.append(('hand:' + name, b, ['-t', 'aarch64'], True))
                cases.append(('hand:' + name, b, ['-t', 'riscv64'], True))
        for data, args in corpus:
            cases.append(('corpus', data, args, True))
        nmut = 6000 if not thorough else 120000
        for i in range(nmut):
            data, args = rng.choice(corpus)
            for _ in range(rng.choice([1, 1, 1, 2, 3, 6])):
                data = mutate(rng, data)
            cases.append(('mutant', data, args if rng.random() < 0.8 else ['-t', rng.choice(['x86_64-sysv', 'aarch64', 'riscv64'])], True))
        ntrunc = 12 if not thorough else 60
        for data, args in rng.sample(corpus, min(len(corpus), ntrunc * 4)):
            toks = TOKRE.findall(data)
            pos = 0
            cuts = []
            for t in toks:
                pos += len(t)
                cuts.append(pos)
            for c in (cuts if len(cuts) < 60 else rng.sample(cuts, 60)):
                cases.append(('truncation', data[:c], args, True))
        for name, src in deep_inputs(thorough):
            cases.append(('deep:' + name, src.encode(), ['-t', 'x86_64-sysv'], False))
            if name.startswith('many-'):
                cases.append(('many:' + name, src.encode(), ['-t', 'x86_64-sysv'], True))     # fixed-size work arrays (tree path, tables): under ASan as well
        # tokens whose length sits on a power-of-two boundary (buffer growth), under the sanitizer
        for k in range(3, 14):
            for dlt in (-2, -1, 0, 1, 2):
                n = (1 << k) + dlt
                if n < 1:
                    continue
                idn = 'a' * n
                for nm, src in (('ident', 'int %s = 1;\n' % idn), ('string', 'char s[] = "%s";\n' % ('x' * n)), ('number', 'int x = 0%s;\n' % ('0' * n)),
                                ('macro-name', '#define %s 1\nint y = %s;\n' % (idn, idn)), ('macro-arg', '#define f(x) #x\nchar *t = f(%s);\n' % idn),
                                ('wide-string', 'int w[] = L"%s";\n' % ('y' * n)), ('char-const', "int c = '%s';\n" % ('z' * n)),
                                ('member', 'struct { int %s; } v = { .%s = 1 };\n' % (idn, idn)), ('label', 'void f(void) { %s: goto %s; }\n' % (idn, idn))):
                    cases.append(('boundary:%s:%d' % (nm, n), src.encode(), ['-t', 'x86_64-sysv'], True))
                    if nm in ('ident', 'string', 'macro-arg'):
                        cases.append(('boundary-E:%s:%d' % (nm, n), src.encode(), ['-t', 'x86_64-sysv', '-E'], True))
        # arrays/tables growing past their initial capacity: counts around powers of two
        for k in range(2, 11):
            for dlt in (-1, 0, 1):
                n = (1 << k) + dlt
                cases.append(('count:params:%d' % n, ('void f(%s) {}\n' % ','.join('int p%d' % i for i in range(n))).encode(), ['-t', 'x86_64-sysv'], True))
                cases.append(('count:macro-params:%d' % n, ('#define f(%s) 0\nint x = f(%s);\n' % (','.join('a%d' % i for i in range(n)), ','.join(['1'] * n))).encode(), ['-t', 'x86_64-sysv'], True))
                cases.append(('count:names:%d' % n, (''.join('int n%d;' % i for i in range(n)) + '\n').encode(), ['-t', 'x86_64-sysv'], True))
                cases.append(('count:labels:%d' % n, ('void f(void) { %s }\n' % ' '.join('l%d: goto l%d;' % (i, i) for i in range(n))).encode(), ['-t', 'x86_64-sysv'], True))
                cases.append(('count:strings:%d' % n, ('char *a[] = { %s };\n' % ','.join('"s%d"' % i for i in range(n))).encode(), ['-t', 'x86_64-sysv'], True))
                cases.append(('count:stmts:%d' % n, ('int f(int x) { %s return x; }\n' % ' '.join('x += %d;' % i for i in range(n))).encode(), ['-t', 'x86_64-sysv'], True))

        if os.environ.get('C19_ONLY'):
            cases = [c for c in cases if c[0].startswith(tuple(os.environ['C19_ONLY'].split(',')))]

        def one(c):
            kind, data, args, use_san = c
            e = san_exe if (use_san and san_exe) else exe
            big = len(data) > 100000
            import time as _t
            t0 = _t.time()
            # CPU-time limit (robust against machine load); the wall-clock limit is only a backstop
            rc, out, err = run_limited([e] + args, input=data, timeout=600, cpu=30 if big or kind.startswith('deep') else 10, env=env, cap=1 << 20,
                                       aslimit=not (use_san and san_exe))
            sig = classify(rc, err)
            if sig == 'timeout' and cost_proportional(e, args, data, env, not (use_san and san_exe)):
                sig = None
                rc = 0
                kind = 'proportional-cost:' + kind
            if os.environ.get('C19_ONLY'):
                ctx.log('case %s start+%.2f took %.2f rc=%d exe=%s' % (kind, t0 - ctx.t0, _t.time() - t0, rc, os.path.basename(os.path.dirname(e))))
            if _t.time() - t0 > 5:
                ctx.log('slow: %s %.1fs rc=%d in=%d out=%d' % (kind, _t.time() - t0, rc, len(data), len(out)))
            return kind, data, args, rc, sig, len(out)
        best = {}
        for kind, data, args, rc, sig, olen in vlib.parallel_map(one, cases):
            stats['inputs'] += 1
            k0 = kind.split(':')[0]
            stats['by_kind'][k0] = stats['by_kind'].get(k0, 0) + 1
            if k0 == 'proportional-cost':
                stats['proportional_cost_endings'] = stats.get('proportional_cost_endings', 0) + 1
                k0 = kind.split(':')[1]
            kind = k0 if k0 in ('boundary', 'boundary-E', 'count') else kind
            end = sig.split(':')[0] if sig else 'exit%d' % rc
            stats['endings'][end] = stats['endings'].get(end, 0) + 1
            nontrivial.add(hashlib.md5(data).hexdigest() + end)
            if sig:
                key = sig if not sig.startswith('timeout') else 'timeout:' + kind
                if kind.startswith('deep:') and sig == 'signal:11':
                    key = 'stack-overflow:' + kind.split(':', 1)[1]       # one key per construct and depth: a shallower overflow is a new finding
                if key not in best or len(data) < len(best[key][0]):
                    best[key] = (data, args, kind, rc)
            if len(samples) < 4 and kind == 'mutant':
                samples.append({'kind': kind, 'args': args, 'input_head': data[:160].decode('latin1'), 'status': rc})
        for key, (data, args, kind, rc) in sorted(best.items()):
            stats['findings'][key] = kind
            ctx.violation('cproc-qbe %s ends abnormally (%s, status %d) on a %d-byte %s input' % (' '.join(args), key, rc, len(data), kind),
                          {'args': args, 'input_latin1': data[:200000].decode('latin1'), 'signature': key}, 'json', key=key)

        # I/O failures must be reported with a non-zero status
        work = os.path.join(ctx.tmp, 'io')
        os.makedirs(work)
        okc = os.path.join(work, 'ok.c')
        open(okc, 'w').write(''.join('int v%d = %d;\n' % (i, i) for i in range(3000)))
        smallc = os.path.join(work, 'small.c')
        open(smallc, 'w').write('int v = 1;\n')
        io_cases = [
            ('small output to /dev/full', [exe, '-o', '/dev/full', smallc], None),
            ('small -E output to /dev/full', [exe, '-E', '-o', '/dev/full', smallc], None),
            ('output to /dev/full', [exe, '-o', '/dev/full', okc], None),
            ('output path is a directory', [exe, '-o', work, okc], None),
            ('input does not exist', [exe, os.path.join(work, 'missing.c')], None),
            ('input is a directory', [exe, work], None),
            ('unknown target', [exe, '-t', 'pdp11', okc], None),
            ('unknown option', [exe, '-Q', okc], None),
        ]
        for what, cmd, _ in io_cases:
            rc, out, err = run_limited(cmd, timeout=20, env=env)
            stats['inputs'] += 1
            if rc not in (1, 2) or not err:
                ctx.violation('%s: status %d, stderr %r (a non-zero status 1/2 and a message are required)' % (what, rc, txt(err)[:100]),
                              {'cmd': cmd[1:]}, 'json', key='io:' + what)
        # several input files in one invocation (the scanner chain; fixed 2d8cf1b: use after free of the finished scanner)
        multi = []
        for i in range(4):
            f = os.path.join(work, 'm%d.c' % i)
            open(f, 'w').write('int multi%d = %d;\n' % (i, i) + ('/* tail */' if i % 2 else ''))
            multi.append(f)
        for cmd in ([san_exe or exe] + multi, [san_exe or exe, '-E'] + multi[:2], [san_exe or exe, multi[0], os.path.join(work, 'missing.c'), multi[1]]):
            rc, out, err = run_limited(cmd, timeout=60, env=env, aslimit=not san_exe)
            stats['inputs'] += 1
            sig = classify(rc, txt(err))
            if sig or rc not in (0, 1):
                ctx.violation('several input files: cproc-qbe ends abnormally (%s, status %d)' % (sig, rc), {'cmd': [os.path.basename(c) for c in cmd[1:]]}, 'json',
                              key=sig or 'multi-input:status%d' % rc)
        rc, out, err = sh('%s %s >/dev/full' % (exe, okc), timeout=20)
        stats['inputs'] += 1
        if rc == 0:
            ctx.violation('stdout redirected to /dev/full: status 0', {'cmd': 'cproc-qbe ok.c >/dev/full'}, 'json', key='io:stdout-full')
        for nm, f in (('small', smallc),):
            for redir in ('>/dev/full', '>&-'):
                for opt in ('', '-E '):
                    rc, out, err = sh('%s %s%s %s' % (exe, opt, f, redir), timeout=20)
                    stats['inputs'] += 1
                    if rc == 0:
                        ctx.violation('%s output, stdout %s, %s: status 0 although nothing could be written' % (nm, redir, opt or 'compile'),
                                      {'cmd': 'cproc-qbe %s%s.c %s' % (opt, nm, redir)}, 'json', key='io:stdout-failure-small')
        rc, out, err = sh('%s %s >&-' % (exe, okc), timeout=20)
        stats['inputs'] += 1
        if rc == 0:
            ctx.violation('stdout closed: status 0', {'cmd': 'cproc-qbe ok.c >&-'}, 'json', key='io:stdout-closed')
        ctx.ob('F:%d inputs (corpus, hand-written, token/byte mutants, truncations, deep/long constructs, I/O failures) end with status 0/1/2 under ASan+UBSan'
               % stats['inputs'], not ctx.unknown_violations())

    cov = dict(evaluations=stats['inputs'], distinct_nontrivial=len(nontrivial),
               rule='corpus files, hand-written edge cases (also under -E), 1-6 stacked token/byte-level mutations of corpus files, truncation at token '
                    'boundaries, generated deep (10^4) / long (10^6) constructs and failing output/input descriptors; distinct by input bytes and kind of ending; '
                    'abnormal endings are grouped by call-site signature (assertion, sanitizer report frame, signal)',
               samples=samples, stats=stats, disagreements_checked=len(ctx.violations))
    return ctx.finish(cov, assumptions=[
        'PARTIAL: memory safety of the C heap structures (expr.c/decl.c/qbe.c) and of libc use is NOT proved; it is searched for with ASan+UBSan builds',
        'the theorems cover only the modelled loops (hash-table probe, zero-fill, and those proved under C13/C15/C16)',
        'deep-nesting inputs run on the plain build with the default 8 MB stack'])


def replay(ctx, path):
    snap = ctx.snapshot(targets='cproc-qbe')
    d = json.load(open(path))
    if 'cmd' in d:
        print(d)
        return 0
    rc, out, err = run_limited([os.path.join(snap, 'cproc-qbe')] + d['args'], input=d['input_latin1'].encode('latin1'), timeout=60)
    print('status', rc, txt(err)[:600])
    return 0 if rc in (0, 1, 2) else 1
