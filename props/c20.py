# C20 - output is a pure function of the input text and the target option.   DESIGN.md section 5 (C20).
import os, re, glob, hashlib, shutil, sys
import vlib
from vlib import sh, txt, run_limited
sys.path.insert(0, os.path.join(vlib.VERIF, 'gen'))
import c20_purity

LEVEL = 'proof'
MODULE = 'Properties_C20'


def corpus(snap):
    """(path, args) for every golden test of the snapshot, as runtests runs it (minus -o)."""
    out = []
    for f in sorted(glob.glob(os.path.join(snap, 'test', '*.c'))):
        name = f[:-2]
        arch = name.split('+')[-1] if '+' in os.path.basename(name) else 'x86_64-sysv'
        if os.path.exists(name + '.qbe'):
            out.append((f, ['-t', arch]))
        elif os.path.exists(name + '.pp'):
            out.append((f, ['-t', arch, '-E']))
    return out


INVALID = [
    'int x = y;\n', 'int f(void) { return 1 +; }\n', 'struct s { int a; } v = { .b = 1 };\n', '#include <stdio.h>\n',
    'int f(void) { goto l; }\n', 'long double d = 1;\n', 'int a[-1];\n', 'char c = \'ab\';\n', '"unterminated\n',
    'int x = 1/0;\n', '[[foo(', 'void f(void) { switch (1) { case 1: case 1: ; } }\n',
    # several violations of one kind that are found by walking a table: the one reported must not depend on addresses
    'void f(int x) { if (x) goto zeta; if (x > 1) goto mid; goto alpha; }\n', 'void f(int x) { goto out; goto retry; goto fail; goto done; goto l1; goto l2; goto l3; }\n',
    'static int s1(void); static int s2(void); static int s3(void); int f(void) { return s1() + s2() + s3(); }\nint x = y;\n',
    'int a[]; int b[]; int c[]; struct u; struct u v1, v2;\n',
    'struct point { int x, y; } p = { .x = 1, .z = 2 };\n', 'int a[1]' + '[1]' * 40 + ' = ' + '{' * 41 + '1' + '}' * 41 + ';\n',      # a name echoed by a diagnostic; a fatal() ending
    'void (*fp)(void); void g(void) { fp++; }\n',       # fixed 8c9fd0a: added the uninitialised size of the function type
]

# valid units that make the emitter extend or patch buffers it got from realloc (zero-extension of string initialisers up to
# a later designated element, strings patched by element designators, long literals): sensitive to the contents of fresh memory
VALID_EXTRA = [
    # array types that do not come from a declarator (string literals, __func__) as typeof parameters that are then assigned to
    'int g(typeof("abc") p, int n) { p = p + n; return *p; } int h(typeof(__func__) q) { q++; return q[0]; } int k(typeof(L"ab") w, typeof(u8"c") v) { w += 1; v = v + 1; return *w + *v; }\n',
    # designator chains that reach five and more levels down before a braced sub-list (per-level state of the initializer parser);
    # one chain per unit, so that a result that varies from run to run is not masked by another chain of the same unit
    'struct cube { int cell[2][2][2][2][2][2]; int n; };\nstruct cube c = { .cell[1][0][1][0][1] = {7, 8}, 9 };\n',
    'struct leaf { int v[2]; int w; };\nstruct tree { struct { struct { struct { struct { struct leaf e; int d4; } d; int d3; } c; int d2; } b; int d1; } a; int top; };\nstruct tree t = { .a.b.c.d.e.v = {1, 2}, 3, 4, 5, 6, 7, 8 };\n',
    'struct cube { int cell[2][2][2][2][2][2]; int n; };\nint peek(void) { struct cube k = { .cell[0][1][1][0][0] = {5, 6}, 4 }; return k.cell[0][1][1][0][0][1] + k.n; }\n',
    'struct d7 { struct { struct { struct { struct { struct { struct { int z[2]; int y; } g; int x; } f; } e; } d; } c; } b; int a; };\nstruct d7 v = { .b.c.d.e.f.g.z = {1, 2}, 3, 4, 5 };\n',
    # objects whose type is the typeof of a constant expression node (sizeof, character constant, _Alignof, offsetof, enum constant): qualifiers of the node
    'struct s { char c; long l; }; enum { EK = 3 };\nint f(void) { typeof(sizeof(int)) a; typeof(\'c\') b; typeof(_Alignof(long)) c; typeof(__builtin_offsetof(struct s, l)) d; typeof(EK) e; typeof(1 + 2) g; typeof(10ul) h; typeof(1 ? 2 : 3) i;\n'
    '  a = 1; b = 2; c = 3; d = 4; e = 5; g = 6; h = 7; i = 8; a++; b += 2; --c; return a + b + c + d + e + g + h + i; }\n',
    # per-argument bookkeeping of macro invocations: parameters that are unused or only stringized, before ones that are used
    '#define PICK(unused, b) b\n#define NAME(a, b) #a, b\n#define THIRD(a, b, c) c\n#define MIX(a, b, c, d) #b d\nint p1 = PICK(9, 4); char *n1[] = { NAME(x y, "z") }; int t1 = THIRD(, , 7); char *m1 = MIX(1, q r, 3, "s");\n'
     'int p2 = PICK((1, 2), PICK(3, 5)); char *n2[] = { NAME(PICK(1, 2), NAME(u, "v")) };\n',
    # relational comparison of pointers (unsigned, whatever the heap holds)
    'int a[8]; int in(int *p) { int *lo = a, *hi = a + 8; return (lo <= p && p < hi) + 2 * (p > lo) + 4 * (hi >= p); }\nchar *cp; int neg(void) { return cp < (char *)a || (char *)a <= cp; }\n',
    # fields of type descriptors that only some constructors set: enums with a fixed underlying type and no enumerator list
    'enum E : signed char; enum U : unsigned char; enum W : short;\nint f(enum E *p, enum U *q, enum W *r) { return *p + *q + (*p >> 1) + (*p < 0) + (*r >> 2) + (*q > 200); }\nlong g(enum E *p) { return *p; }\n',
    # look-ahead after `..` (pushed back into the stream: must also work when the input is a pipe), multi-line # arguments
    '#define STR(x) #x\nchar *s1 = STR(lo..hi); char *s2 = STR(a . . b ..c); char *s3 = STR(1..2); char *s4 = STR(x\n ); char *s5 = STR( y z\n\n);\nstruct p { int a, b; } v = { .a = 1, .b = 2 };\n',
    'struct { unsigned short s[8]; unsigned t[6]; int w[9]; char c[12]; } x = { .s = u"ab", .s[6] = 7, .t = U"a", .t[4] = 2, .w = L"abc", .w[7] = 1, .c = "q", .c[9] = 1 };\n',
    'unsigned short a[12] = { u"x", [9] = 3 }; unsigned b[7] = { U"yz", [5] = 4, [6] = 5 }; char c[16] = { "ab", [10] = 122 }; int w[5] = { L"a", [3] = 9 };\n',
    'struct p { char n[5]; unsigned short w[5]; } ps[3] = { [1].n = "a", [1].n[3] = 1, [2].w = u"b", [2].w[4] = 2, [0].w[1] = 3 };\n',
    'char big[300] = { "' + 'x' * 100 + '", [250] = 1, [120] = 2 }; unsigned bigw[100] = { U"' + 'y' * 40 + '", [90] = 1, [60] = 2 };\n',
    'void f(void) { static unsigned short s[9] = { u"ab", [7] = 1 }; static int t[6] = { L"a", [4] = 2 }; }\nint g __asm__("gee") = 1; extern int h __asm__("aitch"); int *ph = &h;\n',
]


def run(ctx):
    rng = ctx.rng
    thorough = ctx.tier == 'thorough'
    snap = ctx.snapshot()                                   # hooks on
    plain = ctx.snapshot(hooks=False, name='plain', targets='cproc-qbe') if snap else None
    stats = dict(inputs=0, runs=0, perturbations=0, valgrind=0, differing=0)
    samples = []
    nontrivial = set()

    # ---- G: regenerate the purity lists from the plain (hooks-off) build and re-prove the theorem against them
    genpath = os.path.join(vlib.COQ, 'Gen', 'PurityGen.v')
    externs = []
    if plain:
        try:
            externs, formats, walkers = c20_purity.collect(plain, os.path.join(plain, 'cproc-qbe'))
            text = c20_purity.render(externs, formats, walkers)
            with vlib.Lock('coq'):
                if not os.path.exists(genpath) or open(genpath).read() != text:
                    open(genpath, 'w').write(text)
                    ctx.notes.append('Gen/PurityGen.v regenerated: content differs from the previous run')
            ctx.ob('G:purity lists regenerated from source (%d imports, %d formats, %d table walkers)' % (len(externs), len(formats), len(walkers)), True)
        except Exception as e:
            ctx.broken('table', 'gen/c20_purity.py', 'translator failed: %r' % (e,))
    ok = ctx.coq(['Properties/%s.vo' % MODULE])
    if ok:
        ctx.assumptions(MODULE, ctx.theorem_names(MODULE))

    if snap and plain:
        exe = os.path.join(plain, 'cproc-qbe')
        hexe = os.path.join(snap, 'cproc-qbe')
        work = os.path.join(ctx.tmp, 'w')
        os.makedirs(work)
        inputs = corpus(plain)
        for i, s in enumerate(INVALID):
            p = os.path.join(work, 'inv%d.c' % i)
            open(p, 'w').write(s)
            inputs.append((p, ['-t', 'x86_64-sysv']))
        for i, s in enumerate(VALID_EXTRA):
            p = os.path.join(work, 'vxE%d.c' % i)
            open(p, 'w').write(s)
            inputs.append((p, ['-E']))
            for tgt in ('x86_64-sysv', 'aarch64'):
                p = os.path.join(work, 'vx%d_%s.c' % (i, tgt.split('_')[0].split('-')[0]))     # one file per run: -o names derive from it
                open(p, 'w').write(s)
                inputs.append((p, ['-t', tgt]))
        okf = os.path.join(work, 'okf.c')
        open(okf, 'w').write('int okf = 1;\n')
        inputs.append((okf, ['-t', 'nosuchtarget']))
        inputs.append((os.path.join(work, 'missing-input.c'), ['-t', 'x86_64-sysv']))
        # generated valid units (generator of C16) for variety
        try:
            import c16
            names = ['n_' + k.decode() for k in c16.key_pool(rng, 4, 10, b'abcdefghijklmnopqrstuvwxyz')]
            for i in range(8 if not thorough else 80):
                src, _, _ = c16.gen_cli_unit(rng, rng.randint(2, 8), names)
                p = os.path.join(work, 'gen%d.c' % i)
                open(p, 'w').write(src)
                inputs.append((p, ['-t', rng.choice(['x86_64-sysv', 'aarch64', 'riscv64'])]))
        except Exception as e:
            ctx.notes.append('generated units skipped: %r' % (e,))
        # a few inputs without -t (default target) and with -E only
        for f in sorted(glob.glob(os.path.join(plain, 'test', '*.c')))[:170:7]:
            if '+' not in os.path.basename(f):
                inputs.append((f, []))
        base_env = {'PATH': '/usr/bin:/bin', 'LC_ALL': 'C'}
        big = dict(base_env)
        for i in range(300):
            big['VERIF_PAD_%d' % i] = 'x' * (i % 97)
        envs = [
            ('LC_ALL=de_DE.UTF-8', dict(base_env, LC_ALL='de_DE.UTF-8', LANG='de_DE.UTF-8'), []),
            ('LANG=tr_TR.UTF-8', {'PATH': '/usr/bin:/bin', 'LANG': 'tr_TR.UTF-8', 'LC_NUMERIC': 'fr_FR.UTF-8'}, []),
            ('TZ=Asia/Tokyo', dict(base_env, TZ='Asia/Tokyo'), []),
            ('MALLOC_PERTURB_=85', dict(base_env, MALLOC_PERTURB_='85'), []),
            ('MALLOC_PERTURB_=170', dict(base_env, MALLOC_PERTURB_='170'), []),
            ('aslr-off', base_env, ['setarch', 'x86_64', '-R']),
            ('large-environment', big, []),
            ('empty-environment', {}, []),
        ]
        shim = os.path.join(ctx.tmp, 'revmalloc.so')
        e = ctx.cc(shim, [os.path.join(vlib.VERIF, 'harness/c20/revmalloc.c')], flags='-O1 -shared -fPIC')
        if e:
            ctx.notes.append('reverse-order allocator shim did not build: ' + e[:200])
        else:
            envs.append(('allocator: decreasing addresses, 0xa5 fill (LD_PRELOAD shim)', dict(base_env, LD_PRELOAD=shim), []))
            envs.append(('allocator: decreasing addresses, 0x00 fill (LD_PRELOAD shim)', dict(base_env, LD_PRELOAD=shim, REVMALLOC_FILL='0'), []))
        envs.append(('MALLOC_MMAP_THRESHOLD_=0', dict(base_env, MALLOC_MMAP_THRESHOLD_='0'), []))
        envs.append(('MALLOC_TOP_PAD_=1048576', dict(base_env, MALLOC_TOP_PAD_='1048576', MALLOC_ARENA_MAX='1'), []))
        rc0, _, _ = sh(['setarch', 'x86_64', '-R', 'true'])
        if rc0 != 0:
            envs = [e for e in envs if e[0] != 'aslr-off']
            ctx.notes.append('setarch -R unavailable: ASLR perturbation skipped')
        otherdir = os.path.join(ctx.tmp, 'elsewhere')
        os.makedirs(otherdir)

        def one(inp):
            path, args = inp
            res = {}
            src = open(path, 'rb').read() if os.path.exists(path) else None      # a missing input file is one of the cases
            b = run_limited([exe] + args + [path], timeout=20, env=base_env, cwd=os.path.dirname(path))
            res['base'] = b
            diffs = []
            n = 1
            for name, env, prefix in envs:
                r = run_limited(prefix + [exe] + args + [path], timeout=20, env=env, cwd=os.path.dirname(path))
                n += 1
                if r != b:
                    diffs.append((name, r))
            # repeated run
            r = run_limited([exe] + args + [path], timeout=20, env=base_env, cwd=os.path.dirname(path)); n += 1
            if r != b:
                diffs.append(('repeat', r))
            # other cwd (absolute path)
            r = run_limited([exe] + args + [path], timeout=20, env=base_env, cwd=otherdir); n += 1
            if r != b:
                diffs.append(('cwd', r))
            # the same binary invoked through another spelling of its path (relative, several directories): diagnostics of
            # fatal() / usage() name the program by the BASE name of argv[0]
            r = run_limited([os.path.relpath(exe, '/')] + args + [path], timeout=20, env=base_env, cwd='/'); n += 1
            if r != b:
                diffs.append(('argv0-path', r))
            # hooks-on build
            r = run_limited([hexe] + args + [path], timeout=20, env=base_env, cwd=os.path.dirname(path)); n += 1
            if r != b:
                diffs.append(('hooks-on-build', r))
            # -o file
            of = os.path.join(otherdir, hashlib.md5((path + ' ' + ' '.join(args)).encode()).hexdigest() + '.out')     # per run, not per file: runs are parallel
            r = run_limited([exe] + args + ['-o', of, path], timeout=20, env=base_env, cwd=os.path.dirname(path)); n += 1
            got = open(of, 'rb').read() if os.path.exists(of) else b''
            if (r[0], got, r[2]) != (b[0], b[1], b[2]) or r[1] != b'':
                diffs.append(('-o', (r[0], got, r[2])))
            # stdin: same stdout and status; diagnostics differ only in the file name
            if src is not None:
                r = run_limited([exe] + args, input=src, timeout=20, env=base_env); n += 1
                e1 = b[2].replace(path.encode(), b'<stdin>')
                if (r[0], r[1]) != (b[0], b[1]) or r[2] != e1:
                    diffs.append(('stdin', r))
                # the same with the heap filled with a non-zero pattern (the scanner for standard input is set up on its own path)
                r = run_limited([exe] + args, input=src, timeout=20, env=dict(base_env, MALLOC_PERTURB_='85')); n += 1
                if (r[0], r[1]) != (b[0], b[1]) or r[2] != e1:
                    diffs.append(('stdin, MALLOC_PERTURB_=85', r))
            return inp, b, diffs, n
        for (path, args), b, diffs, n in vlib.parallel_map(one, inputs):
            stats['inputs'] += 1
            stats['runs'] += n
            if b[1] or b[2]:
                nontrivial.add(hashlib.md5(b[1] + b[2]).hexdigest())
            if b[0] not in (0, 1, 2):
                ctx.notes.append('%s ends with status %d (reported under C19, not here)' % (os.path.basename(path), b[0]))
            if diffs:
                stats['differing'] += 1
                name, r = diffs[0]
                ctx.violation('output of %s %s differs under perturbation %s: status %r vs %r, stdout %d vs %d bytes'
                              % (' '.join(args), os.path.basename(path), name, r[0], b[0], len(r[1]), len(b[1])),
                              {'input': open(path, errors='replace').read() if os.path.exists(path) else '', 'args': args, 'perturbation': name,
                               'all_differing': [d[0] for d in diffs]}, 'json', key='perturb:' + name)
            if len(samples) < 3:
                samples.append({'input': os.path.basename(path), 'args': args, 'status': b[0], 'stdout_bytes': len(b[1]),
                                'perturbations': [e[0] for e in envs] + ['repeat', 'cwd', 'argv0-path', 'hooks-on-build', '-o', 'stdin']})
        stats['perturbations'] = len(envs) + 6

        # uninitialised-value use (valgrind memcheck) on a sample
        sample = rng.sample(inputs, min(len(inputs), 24 if not thorough else 200))

        def vg(inp):
            path, args = inp
            return inp, run_limited(['valgrind', '-q', '--error-exitcode=97', exe] + args + [path], timeout=120, env=base_env)
        for (path, args), r in vlib.parallel_map(vg, sample):
            stats['valgrind'] += 1
            stats['runs'] += 1
            if r[0] == 97 or b'uninitialised' in r[2]:
                ctx.violation('valgrind memcheck reports an error on %s: %s' % (os.path.basename(path), txt(r[2])[:400]),
                              {'input': open(path, errors='replace').read(), 'args': args, 'tool': 'valgrind'}, 'json', key='valgrind')

        # search guided by a broken purity obligation: perturb exactly what the new import reads
        bad_imports = [e for e in externs if e in ('getenv', 'secure_getenv')]
        if bad_imports:
            names = set()
            # which variables are read?  trace a spread of invocations (with and without -t / -E)
            traced = inputs[:10] + [i for i in inputs if not i[1]][:10] + [i for i in inputs if '-E' in i[1]][:5]
            for path, args in traced:
                lg = os.path.join(work, 'ltrace.log')
                run_limited(['ltrace', '-e', 'getenv+secure_getenv', '-o', lg, exe] + args + [path], timeout=30, env=base_env)
                if os.path.exists(lg):
                    names |= set(re.findall(r'getenv\("([^"]+)"\)', open(lg, errors='replace').read()))
            for nm in sorted(names):
                for path, args in inputs:
                    b = run_limited([exe] + args + [path], timeout=20, env=base_env)
                    for val in ('1', 'x', ''):
                        r = run_limited([exe] + args + [path], timeout=20, env=dict(base_env, **{nm: val}))
                        stats['runs'] += 1
                        if r != b:
                            ctx.violation('output depends on environment variable %s (=%r) for %s' % (nm, val, os.path.basename(path)),
                                          {'input': open(path, errors='replace').read(), 'args': args, 'env': {nm: val}}, 'json', key='env:' + nm)
                            break
                    else:
                        continue
                    break
        if any(e in externs for e in ('time', 'clock', 'clock_gettime', 'gettimeofday', 'rand', 'random', 'getpid')):
            import time as _t
            for path, args in inputs[:40]:
                b = run_limited([exe] + args + [path], timeout=20, env=base_env)
                _t.sleep(1.1)
                r = run_limited([exe] + args + [path], timeout=20, env=base_env)
                stats['runs'] += 2
                if r != b:
                    ctx.violation('output of %s differs between two runs 1.1 s apart' % os.path.basename(path),
                                  {'input': open(path, errors='replace').read(), 'args': args}, 'json', key='time')
                    break
        ctx.ob('K:%d inputs x %d perturbations byte-identical (stdout, stderr, status)' % (stats['inputs'], stats['perturbations']),
               stats['differing'] == 0)

    cov = dict(evaluations=stats['runs'], distinct_nontrivial=len(nontrivial),
               rule='every golden test of the snapshot (its own target/-E mode), hand-written invalid inputs and generated units; each is run '
                    'under every perturbation and compared byte-for-byte with the baseline run; non-trivial = distinct non-empty outputs',
               samples=samples, stats=stats, disagreements_checked=len(ctx.violations))
    return ctx.finish(cov, assumptions=[
        'partial: absence of uninitialised reads / allocator or address dependence in unmodelled code is only observed at run time '
        '(MALLOC_PERTURB_, ASLR off, valgrind memcheck on a sample), not proved',
        'the purity lists are extracted by gen/c20_purity.py (nm -D on the hooks-off build, regex over the sources)',
        'libc functions outside the forbidden list are deterministic in the C locale (setlocale is never called: checked by the theorem)'])


def replay(ctx, path):
    import json
    snap = ctx.snapshot(hooks=False)
    d = json.load(open(path))
    p = os.path.join(ctx.tmp, 'in.c')
    open(p, 'w').write(d['input'])
    exe = os.path.join(snap, 'cproc-qbe')
    env = {'PATH': '/usr/bin:/bin', 'LC_ALL': 'C'}
    a = run_limited([exe] + d['args'] + [p], env=env)
    env2 = dict(env, **d.get('env', {}))
    if d.get('perturbation', '').startswith('MALLOC_PERTURB_'):
        env2['MALLOC_PERTURB_'] = d['perturbation'].split('=')[1]
    b = run_limited([exe] + d['args'] + [p], env=env2)
    print('baseline', a[0], len(a[1]), 'perturbed', b[0], len(b[1]))
    return 0 if a == b else 1
