#!/bin/sh
# No axioms, admits or disabled kernel checks anywhere in the development.
cd "$(dirname "$0")/coq"
if grep -rnE '\b(Admitted|admit|Axiom|Axioms|Parameter|Parameters|Conjecture|Conjectures|Admit Obligations|bypass_check|Unset Guard Checking|Unset Positivity Checking|Unset Universe Checking|type-in-type|impredicative-set)\b' --include='*.v' . ; then
  echo "forbidden construct found" >&2
  exit 1
fi
# Variable/Hypothesis only inside sections: every file using them must open a Section before
for f in $(grep -rlE '^\s*(Variable|Variables|Hypothesis|Hypotheses|Context)\b' --include='*.v' .); do
  awk '/^[ \t]*Section /{d++} /^[ \t]*End /{d--} /^[ \t]*(Variable|Variables|Hypothesis|Hypotheses|Context)[ \t]/{ if (d<=0) { print FILENAME": "NR": declaration outside a section"; bad=1 } } END{exit bad}' "$f" || exit 1
done
exit 0
