#!/bin/sh
# Build the framework from files on disk only (no network, no use of /repo):
#   1. forbidden-construct scan of the Coq development
#   2. coq_makefile + full .vo build (never -vos/-vok)
#   3. extraction happens as part of the build (coq/Extract/*.v write ocaml/<name>/model.ml)
#   4. OCaml oracles
set -e
cd "$(dirname "$0")"
./scan_forbidden.sh
cd coq
{ echo "-Q . Cproc"; find Lib Gen Spec Model Proofs Properties Extract -name '*.v' 2>/dev/null | sort; } > _CoqProject
coq_makefile -f _CoqProject -o Makefile >/dev/null
for d in Extract/Extract_*.v; do n=$(basename "$d" .v); n=${n#Extract_}; mkdir -p "../ocaml/$n"; done
timeout 3000 make -j16 2>&1 | grep -v '^COQDEP\|^COQC\|^Closed under\|^make\[' | tail -50
cd ..
for d in ocaml/*/; do
  if [ -f "$d/build.sh" ]; then
    sh "$d/build.sh"
  elif [ -f "$d/driver.ml" ] && [ -f "$d/model.ml" ]; then
    (cd "$d" && ocamlfind ocamlopt -w -a -package str -linkpkg model.mli model.ml driver.ml -o oracle)
  fi
done
echo "setup ok"
