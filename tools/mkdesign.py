#!/usr/bin/env python3
# Regenerates the machine-maintained tables of DESIGN.md section 10 (between <!-- BEGIN:x --> / <!-- END:x --> markers)
# from known_findings.json and seeded/*/meta.json.
import json, os, re, glob
V = os.path.dirname(os.path.dirname(os.path.abspath(__file__)))
kf = json.load(open(os.path.join(V, 'known_findings.json')))['findings']

def esc(s):
    return str(s).replace('|', '\\|').replace('\n', ' ')

fixed = [f for f in kf if f['kind'] == 'fixed']
known = [f for f in kf if f['kind'] == 'known']
t_fixed = '| property | key | /repo commit | what failed | replay |\n|---|---|---|---|---|\n' + ''.join(
    '| %s | `%s` | %s | %s | `%s` |\n' % (f['property'], esc(f['key']), f.get('commit', ''), esc(f['what']), esc(f['replay'])[:160]) for f in sorted(fixed, key=lambda f: (f['property'], f['key'])))
t_known = '| property | key | what fails | replay |\n|---|---|---|---|\n' + ''.join(
    '| %s | `%s` | %s | `%s` |\n' % (f['property'], esc(f['key']), esc(f['what']), esc(f['replay'])[:160]) for f in sorted(known, key=lambda f: (f['property'], f['key'])))
rows = []
for m in sorted(glob.glob(os.path.join(V, 'seeded', '*', 'meta.json'))):
    d = json.load(open(m))
    rows.append('| %s | %s | %s | %s | %s |\n' % (d.get('id', os.path.basename(os.path.dirname(m))), ', '.join(d.get('files', [])), esc(d.get('what', ''))[:300], esc(d.get('needs', ''))[:260], esc(d.get('caught_by', ''))))
import collections
_by = collections.OrderedDict()
for m in sorted(glob.glob(os.path.join(V, 'seeded', '*', 'meta.json'))):
    d = json.load(open(m))
    pid = d.get('property', os.path.basename(os.path.dirname(m))[:3])
    r = _by.setdefault(pid, [0, 0, 0])
    r[0] += 1
    cb = d.get('caught_by', '')
    if 'initially MISSED' in cb or 'initially no concrete' in cb or 'MISSED' in cb.split(';')[0] or cb.startswith('not reported by'):
        r[1] += 1
    if 'no-failing-input-found' in cb:
        r[2] += 1
t_seedstats = ('| property | stored changes | missed by the check as it was when the change arrived (check strengthened afterwards, change now caught) | reported without a concrete input |\n|---|---|---|---|\n'
               + ''.join('| %s | %d | %d | %d |\n' % (k, v[0], v[1], v[2]) for k, v in sorted(_by.items()))
               + '| all | %d | %d | %d |\n' % tuple(sum(v[i] for v in _by.values()) for i in range(3)))
t_seeded = '| id | files | change | needs, to manifest | caught by |\n|---|---|---|---|---|\n' + ''.join(rows)
man = json.load(open(os.path.join(V, 'MANIFEST.json')))
t_status = '| id | level claimed | what is proved and what ties it to the code (MANIFEST level text) | limits (level note) |\n|---|---|---|---|\n' + ''.join(
    '| %s | %s | %s | %s |\n' % (c['property_id'], c['level_claimed']['category'], esc(c['level_claimed']['text']), esc(c.get('level_note', ''))) for c in man['checks'])
t_status += '\nNot claimed: ' + '; '.join('%s (%s)' % (n['property_id'], esc(n['reason'])) for n in man.get('not_applicable', [])) + '\n'
p = os.path.join(V, 'DESIGN.md')
s = open(p).read()
for name, tbl in (('FIXED', t_fixed), ('KNOWN', t_known), ('SEEDED', t_seeded), ('STATUS', t_status), ('SEEDSTATS', t_seedstats)):
    b, e = '<!-- BEGIN:%s -->' % name, '<!-- END:%s -->' % name
    if b in s:
        s = s[:s.index(b) + len(b)] + '\n' + tbl + s[s.index(e):]
open(p, 'w').write(s)
print(len(fixed), 'fixed', len(known), 'known', len(rows), 'seeded')
