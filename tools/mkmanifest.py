#!/usr/bin/env python3
# Regenerates MANIFEST.json from the table below (claimed checks) + properties.jsonl (everything else -> not_applicable).
import json, os
V = os.path.dirname(os.path.dirname(os.path.abspath(__file__)))
ENGINE = 'coq-proof+correspondence'
CLAIMED = {
 'C16': dict(cat='proof', tech='Coq proof of refinement (invariant by induction over histories) + extracted-model correspondence',
   text='map_refines: for every operation history and every hash function the open-addressing table of map.c (model) is a finite map, probes terminate, load invariant holds; scope_innermost: every lookup in any history of scope operations yields the innermost binding, tags and ordinary names independent. Model tied to map.c/scope.c by slot-exact differential runs and to the compiler by generated units.',
   note='Trusted: Coq kernel, extraction (ExtrOcamlBasic), the harness; map.c/scope.c correspond to the model by testing, not proof; clients of the tables in decl.c/pp.c/qbe.c only exercised through the CLI.'),
 'C19': dict(cat='proof', tech='Coq termination/bound lemmas of the modelled loops + ASan/UBSan search over mutated, truncated and deep inputs',
   text='PARTIAL. Proved (unbounded): the hash-table probe ends within cap steps on every reachable table (any hash); qbe.c:zero() terminates, uses only 1/2/4/8-byte naturally aligned stores (store-table index in bounds, also for alignments > 8) that tile the range; the AVL path array never overflows and scanner/ladder loops are structurally terminating (C13, C15, C16 theorems). NOT proved: memory safety of the C heap structures - searched with an ASan+UBSan build of the snapshot on the corpus, hand-written edge cases, 6000 stacked token/byte mutants, truncations at token boundaries, 25 deep/long constructs (10^4 nesting, 10^6-byte tokens) and failing I/O; every ending other than status 0/1/2 is a finding keyed by its call-site signature.',
   note='Heap memory safety is not modelled (sanitizer-assisted search, not a proof). UBSan pointer-overflow (NULL+0 in arrayforeach) is deliberately excluded. CPU-time limits, not wall-clock, decide timeouts.'),
 'C05': dict(cat='proof', tech='Coq proofs (complete enumeration of the finite type universe by vm_compute; range analysis for literal typing; induction for compatibility) + tables regenerated from type.c/expr.c + unit and _Generic correspondence',
   text='promote_spec, uac_spec (the five rules of 6.3.1.8), binop_type_spec for all 18 operators, unop/cond typing: proved over the complete finite universe 3 targets x 15 arithmetic types + enums x bit-field widths 1..64; hasint_spec and inttype_spec for every 64-bit value and all 24 suffix spellings; compat_refl/sym/spec against an inductive Compatible for all type nestings; pointer arithmetic, assignment and conditional typing rules. Tables (INTTYPE/FLTTYPE rows, typerank, limits[], alltargs, enum ladder) are re-read from the snapshot each run. The snapshot type.c/expr.c functions are called directly on 198k cases and 58k _Generic/sizeof/compatibility probes per run are compared with model, specification, clang (3 targets) and gcc.',
   note='Trusted: Coq kernel, extraction, regex table readers, clang/gcc as second opinion for the specification; gen/c05_spec.py is a hand-kept Python copy of Spec/CTypes.v. typecomposite is a stub in the source (composite types outside the theorems). The recursive-descent parser is exercised, not modelled.'),
 'C15': dict(cat='proof', tech='Coq proofs (AVL invariant by induction over insertions, Fibonacci height bound, ladder correctness) + shape-exact correspondence',
   text='avl_inv: for every insertion sequence tree.c (model) keeps a strict search tree, AVL balance and exact stored heights; new flag = key absent; balanced height h needs fib(h+2)-1 nodes, so the path array (MAXH) never overflows and the emitted ladder is logarithmic; convert_canonical + casesearch_correct + switch_correct: after the conversion to the promoted type the comparison ladder reaches exactly the matching case, else default, and duplicates after conversion are diagnosed. Model tied to tree.c by all 46233 insertion orders of <= 8 keys (shape/height/flag exact) and long random sequences, and to the compiler by generated switch units whose emitted ladders are parsed and evaluated on keys, neighbours and type limits for all three targets.',
   note='Trusted: Coq kernel, extraction, the Python ladder parser/evaluator and C-semantics oracle (cross-checked with gcc); tree.c/qbe.c correspond to the model by testing; statement-level placement of case labels (stmt.c) exercised through the CLI only.'),
 'C17': dict(cat='proof', tech='Coq proof that the option-loop model equals the documented plan (tables regenerated from driver.c) + stub-tool correspondence',
   text='plan_asbuilt: for every configuration and every argv (any length) the model of driver.c main/buildobj/spawnphase/buildexe equals the specification written from cproc(1) with three named deviations (known findings) switched on; route_order, stages_contiguous, plan_pipelines, plan_terminates; the three deviations have refutation witnesses. 62 option-table lines are re-read from driver.c on every run. The real driver.c+util.c, configured for three target triples, run with stub tools recording argv and the pipe chain on ~3000 generated command lines per run; logs must equal the extracted plan.',
   note='Trusted: Coq kernel, extraction, the stub tools and log comparison, regex table reader; driver.c corresponds to Driver.v by testing; posix_spawn/pipe semantics assumed.'),
 'C18': dict(cat='proof', tech='Coq proof over an OS model (all failure points x all wait orders) + LD_PRELOAD trace correspondence under fault injection',
   text='PARTIAL (kernel semantics assumed). fail_clean / success_clean / link_fail_clean / wait_loop_terminates: for every pipeline shape, every failure point and every order in which wait() returns children (under the stated fairness assumption), the model of buildobj/buildexe exits non-zero, never starts the link, unlinks the output and the temporaries, reaps every child and terminates. The unmodified driver runs under an LD_PRELOAD shim logging spawn/wait/kill/unlink/mkstemp while stub tools fail in six modes with forced termination orders (900 runs quick); the property is decided on the observation, and the observed schedule replayed in the extracted model must give the same call trace.',
   note='Assumed: a finished or SIGTERMed child is eventually returned by wait(); pipes/kill/unlink behave as POSIX says. A child that ignores SIGTERM is outside the model. driver.c corresponds to DriverProc.v by testing.'),
 'C20': dict(cat='proof', tech='Coq-checked purity obligation over lists regenerated from the source + perturbation correspondence',
   text='PARTIAL. Theorem C20_no_environment_source is re-proved on every run against lists regenerated from /repo (libc imports of the hooks-off binary, every format string, every function that walks a hash table): no environment/time/pid/locale/random source, no %p, no table-order dependent emission. The run-time half (uninitialised reads, allocator/ASLR dependence) is carried by byte-exact comparison of all corpus and generated inputs under 13 perturbations, MALLOC_PERTURB_, ASLR off and valgrind on a sample; a broken obligation triggers an ltrace-guided search for the variable read.',
   note='Trusted: the translator gen/c20_purity.py (nm -D, regex), libc determinism in the C locale. Not proved: absence of uninitialised reads in the C heap (run-time observation only).'),
}
props = [json.loads(l) for l in open(os.path.join(V, 'properties.jsonl'))]
m = {
 'version': 1,
 'setup_cmd': './setup.sh',
 'hooks': {'guard': 'CPROC_VERIF',
           'enable': "checks copy /repo's working tree to a scratch directory and build it there with make CFLAGS='-std=c11 -O1 -g -Wno-error -DCPROC_VERIF'",
           'baseline_off_cmd': 'make -C /repo check', 'source_commits': ['538c5a7'], 'add_only': True},
 'engines': [{'name': ENGINE, 'path': 'check', 'serves_properties': sorted(CLAIMED),
              'kind_free_text': 'Coq 8.16.1 theorems about hand-written Gallina models (coq/), tables regenerated from the source, models extracted to OCaml and run against /repo\'s code on generated inputs (props/, harness/, ocaml/)'}],
 'checks': [], 'not_applicable': [],
 'notes': 'See DESIGN.md. Every check: snapshot + build of /repo\'s working tree, Coq build of the property\'s theorems (full .vo), Print Assumptions, correspondence run (extracted model vs real code), search for a failing input when something breaks; known_findings.json lists recorded defects.',
}
for p in props:
    i = p['id']
    if i in CLAIMED:
        c = CLAIMED[i]
        m['checks'].append({'property_id': i, 'quick_cmd': './check %s --tier quick' % i, 'thorough_cmd': './check %s --tier thorough' % i,
                            'evidence_file': 'evidence/%s.json' % i, 'replay_cmd_template': './check %s --replay {path}' % i, 'engine': ENGINE,
                            'level_claimed': {'category': c['cat'], 'text': c['text'], 'design_ref': 'DESIGN.md section 5, ' + i},
                            'level_note': c['note'], 'technique': c['tech']})
    else:
        m['not_applicable'].append({'property_id': i, 'reason': 'check under construction in this round (planned per DESIGN.md section 5); not claimed until its theorems and correspondence run'})
json.dump(m, open(os.path.join(V, 'MANIFEST.json'), 'w'), indent=1)
print('claimed:', sorted(CLAIMED))
