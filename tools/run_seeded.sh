#!/bin/sh
# Re-runs every stored breaking change (seeded/<id>/patch.diff) against the check of its property, each on a scratch
# copy of /repo under /tmp (removed afterwards); never touches /repo.  usage: tools/run_seeded.sh [jobs] [id-prefix]
V=$(cd "$(dirname "$0")/.." && pwd)
export V
ls -d $V/seeded/${2:-}*/ | sed 's:/$::' | xargs -P ${1:-3} -I{} sh $V/tools/run_seeded_one.sh {}
