d=$1; id=$(basename $d); pid=$(echo $id | cut -d- -f1)
[ -f $d/patch.diff ] || { echo "$id NOPATCH"; exit 0; }
w=$(mktemp -d /tmp/seedrun.XXXXXX)
cp -r /repo/. $w/ && rm -rf $w/.git
if ! (cd $w && patch -s -p1 --no-backup-if-mismatch < $d/patch.diff) >/dev/null 2>&1; then echo "$id NOAPPLY"; rm -rf $w; exit 0; fi
if ! (cd $w && make -s >/dev/null 2>&1); then echo "$id NOBUILD"; rm -rf $w; exit 0; fi
t=$(cd $w && make -s check 2>&1 | tail -1)
out=$(cd $V && VERIF_REPO=$w ./check $pid 2>&1)
n=$(echo "$out" | grep -c '^VIOLATION')
nf=$(echo "$out" | grep -c 'no-failing-input-found')
if [ "$n" -gt 0 ]; then r="CAUGHT violations=$n no-input=$nf"; else r="MISSED"; fi
echo "$id $r tests=[$t]"
rm -rf $w
